#!/usr/bin/env python3
"""bulk03.py — bulk correspondence check of C03 (body filter chain: chunk invariance) against the Coq model
(RIO.C03Run.model_out / property_ok) EXTRACTED to OCaml.

For every job: k pipelines   rio-harness bulk03 ... --shard i/k  |  mlrun/_build/bodyrun --check.
The harness feeds, for every body over the alphabet and every chunking of the chosen family, the crate's output for the
whole body and for the chunks; bodyrun recomputes both with the extracted model, compares, and evaluates
C03Run.property_ok (single = chunked on valid UTF-8).  JSON summary on stdout; exit 0 iff everything agrees.

usage: tools/bulk03.py [--shards K] [--job FILTERS:ALPHABET:LEN:CUTS[:CT]]... [--random FILTERS:ALPHABET:MINLEN:LEN:N:CUTS]...
                       [--seed S] [--max-report M] [--no-build] [--quick] [--snapshot]
  FILTERS   a name of FILTER_SETS below, or a raw spec (mlrun/main03.ml: T<a|p|r>~HEX / H<a|p|r|o>~HEX~NAME.NAME~<-|=HEX>
            joined by '+', with '~' written instead of ':')
  ALPHABET  tag6 | body10 | frag18 (fragments as symbols) | c16 | markup12 | ... | hex,hex,...   (harness/src/bulk03.rs)
  CUTS      single (uncut + every single cut) | all (every chunking into non-empty chunks) | bytes (uncut + one byte per chunk)
  CT        Content-Type header value ('_' for spaces is not needed: no spaces allowed), default none
env: BULK03_JOBS / BULK03_RANDOM (space separated specs), BULK16_SHARDS, BULK16_SEED, CARGO_TARGET_DIR
"""
import json
import os
import sys
import time

sys.path.insert(0, os.path.dirname(os.path.abspath(__file__)))
import bulk16 as B  # noqa: E402


def hx(s):
    return s.encode("utf-8").hex()


def html(kind, value, tree, css=None):
    return f"H{kind}:{hx(value)}:{'.'.join(hx(t) for t in tree)}:{'-' if css is None else '=' + hx(css)}"


def text(kind, content):
    return f"T{kind}:{hx(content)}"


V = "<i>V</i>"
FILTER_SETS = {
    "append_a": html("a", V, ["a"]),
    "prepend_a": html("p", V, ["a"]),
    "replace_a": html("r", V, ["a"]),
    "append_ab": html("a", V, ["a", "b"]),
    "prepend_ab": html("p", V, ["a", "b"]),
    "replace_ab": html("r", V, ["a", "b"]),
    "replace_b_then_append_a": html("r", "<b>", ["b"]) + "+" + html("a", V, ["a"]),
    "text_chain": text("p", "[P]") + "+" + html("a", V, ["a"]) + "+" + text("a", "[A]"),
    "text_replace": html("p", V, ["a"]) + "+" + text("r", "[R]"),
    "none": "",
}

# Defaults chosen from the measured throughput: ~170 M cases, about 6 min on 16 shared cores (7 x 30 s + 7 x 5 s + ...).
# "append_ab:frag18:5:single" (30 M cases, 140 s) was run clean once and then left out of the defaults: add it with --job.
SETS7 = ("append_a", "prepend_a", "replace_a", "append_ab", "replace_ab", "replace_b_then_append_a", "text_chain")
DEFAULT_JOBS = [f"{f}:tag6:7:all" for f in SETS7] + [f"{f}:frag18:4:single" for f in SETS7] + \
               ["append_a:body10:5:all", "replace_a:body10:5:all", "prepend_ab:body10:5:all",
                "text_replace:tag6:6:all", "append_a:frag18:4:single:text/plain", "none:tag6:5:all"]
DEFAULT_RANDOM = ["append_ab:frag18:6:12:150000:single", "replace_ab:frag18:6:12:150000:single", "prepend_ab:frag18:6:12:150000:single",
                  "text_chain:frag18:6:12:300000:bytes"]
QUICK_JOBS = ["append_a:tag6:7:single", "replace_ab:frag18:4:single", "text_chain:body10:4:all"]
QUICK_RANDOM = ["append_ab:frag18:6:10:50000:single"]


def spec_of(name):
    return FILTER_SETS[name] if name in FILTER_SETS else name.replace("~", ":")


def run_job(job, shards, max_report):
    def cmd(i):
        c = [B.HARNESS, "bulk03", "--filters", spec_of(job["filters"]), "--alphabet", job["alphabet"], "--len", str(job["max_len"]),
             "--minlen", str(job["min_len"]), "--cuts", job["cuts"], "--shard", f"{i}/{shards}"]
        if job["ct"]:
            c += ["--ct", job["ct"]]
        if job["random"] is not None:
            c += ["--random", str(job["random"]), "--seed", str(job["seed"])]
        return c
    res = {"filters": job["filters"], "filter_spec": spec_of(job["filters"]), "alphabet": job["alphabet"], "min_len": job["min_len"],
           "max_len": job["max_len"], "cuts": job["cuts"], "ct": job["ct"],
           "mode": "exhaustive" if job["random"] is None else f"random seed={job['seed']}"}
    res.update(B.run_pipelines(cmd, B.BODYRUN, "bulk03", shards, max_report))
    B.finish(res, None)
    # completeness: the number of BODIES is known in advance (the number of cases depends on the byte lengths)
    if job["random"] is None:
        a = B.alphabet_size(job["alphabet"])
        want = sum(a ** l for l in range(job["min_len"], job["max_len"] + 1))
    else:
        want = job["random"]
    res["expected_bodies"] = want
    if res["feed_stats"].get("bodies") != want:
        res["errors"].append(f"bodies: expected {want}, fed {res['feed_stats'].get('bodies')}")
        res["ok"] = False
    return res


def parse_job(spec):
    p = spec.split(":")
    return {"filters": p[0], "alphabet": p[1], "max_len": int(p[2]), "min_len": 0, "cuts": p[3], "ct": p[4] if len(p) > 4 else "",
            "random": None, "seed": 0}


def parse_random(spec, seed):
    p = spec.split(":")
    return {"filters": p[0], "alphabet": p[1], "min_len": int(p[2]), "max_len": int(p[3]), "random": int(p[4]), "cuts": p[5], "ct": "",
            "seed": seed}


def main(argv):
    shards = int(os.environ.get("BULK16_SHARDS", os.cpu_count() or 1))
    seed = int(os.environ.get("BULK16_SEED", "1"))
    max_report = 20
    jobs, rnd, do_build, quick, snapshot = [], [], True, False, False
    i = 1
    while i < len(argv):
        a = argv[i]
        if a == "--shards":
            shards = int(argv[i + 1]); i += 2
        elif a == "--job":
            jobs.append(argv[i + 1]); i += 2
        elif a == "--random":
            rnd.append(argv[i + 1]); i += 2
        elif a == "--seed":
            seed = int(argv[i + 1]); i += 2
        elif a == "--max-report":
            max_report = int(argv[i + 1]); i += 2
        elif a == "--no-build":
            do_build = False; i += 1
        elif a == "--quick":
            quick = True; i += 1
        elif a == "--snapshot":
            snapshot = True; i += 1
        else:
            sys.stderr.write(__doc__)
            return 2
    if not jobs and not rnd:
        jobs = os.environ.get("BULK03_JOBS", " ".join(QUICK_JOBS if quick else DEFAULT_JOBS)).split()
        rnd = os.environ.get("BULK03_RANDOM", " ".join(QUICK_RANDOM if quick else DEFAULT_RANDOM)).split()
    if do_build:
        B.build(snapshot)
    elif snapshot:
        B.HARNESS = os.path.join(B.TARGET + "_head", "release", "rio-harness")
    t0 = time.time()
    results = []
    for spec in jobs:
        results.append(run_job(parse_job(spec), shards, max_report))
        sys.stderr.write(f"job {spec}: {results[-1]['cases']} cases, {results[-1]['mismatches']} mismatches, {results[-1]['specfail']} specfail, {results[-1]['wall_s']} s\n")
    for spec in rnd:
        results.append(run_job(parse_random(spec, seed), shards, max_report))
        sys.stderr.write(f"random {spec}: {results[-1]['cases']} cases, {results[-1]['mismatches']} mismatches, {results[-1]['specfail']} specfail, {results[-1]['wall_s']} s\n")
    s = B.summary_of("C03", shards, results, max_report, t0)
    s["filters"] = [r["filters"] for r in results]
    print(json.dumps(s, indent=1))
    return 0 if all(r["ok"] for r in results) else 1


if __name__ == "__main__":
    sys.exit(main(sys.argv))
