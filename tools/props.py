"""Per-property configuration of tools/check.py."""

TRUSTED_COMMON = [
    "Coq 8.16.1 kernel (coqc); vm_compute used for evaluating cases and finite lemmas; native_compute not used",
    "tools/gen_tables.py (translator, strict patterns) and tools/check.py (driver)",
    "correspondence harness /verif/harness (generators, canonicalisation, Coq term printers)",
    "rustc/cargo and all crate dependencies of /repo: modelled or oracles, not verified",
]

PROPS = {
    "C13": {
        "run_requires": ["RIO.Headers", "RIO.HeadersSpec", "RIO.C13Run"],
        "gen_requires": ["RIOGen.ExtHeaders"],
        "gen_sections": ["Headers"],
        "case_type": "case13",
        "verdict_full": "verdict13 header_action_table",
        "verdict_spec": "spec_verdict13",
        "model_bits": 3,
        "spec_bits": 4,
        "spec_diff_text": "the implementation's filtered header list differs from the left fold of the five reference operations",
        "rule": "cases = all filter sequences of length <= 2 (quick) / <= 3 (thorough) over 6 actions x 3 names on a panel of 8 header lists, plus random header lists (0-6 headers, duplicate names, mixed case, non-ASCII names, empty values) x random filter sequences (0-6, five actions + unknown actions); every case is run through FilterHeaderAction::filter and Action::filter_headers; non-trivial = the output differs from the input header list; distinct = by JSON of the input",
        "exhaustive_note_quick": "all filter sequences of length <= 2 over {add,remove,replace,override,default,nop} x {A,a,B} on the fixed 8-list panel were enumerated (supports the tie; the theorem covers every sequence and list)",
        "exhaustive_note_thorough": "all filter sequences of length <= 3 over {add,remove,replace,override,default,nop} x {A,a,B} on the fixed 8-list panel were enumerated (supports the tie; the theorem covers every sequence and list)",
        "trusted": [
            "String::to_lowercase is an oracle: theorems hold for every function `lower`; the run uses the table of real to_lowercase results reported by the harness",
            "the unit-trace side effects of the header actions are not modelled (not part of C13)",
        ],
        "assumptions": ["header names/values are Rust Strings (valid UTF-8)"],
        "explanation": "C13_sequence is proved for all lowercasing functions, filter lists and header lists; the correspondence run ties the loop-level model to the crate.",
    },
}
