#!/usr/bin/env python3
"""Translator: lifts tables and declarations from /repo/src into coq/gen/Extracted.v.

Pure text -> text, strict patterns on the rustfmt-formatted source.  A pattern that is not found
raises TranslatorError: the tie between the source and the model is gone, and the driver reports
that through the violation workflow (never ignored).
The output file is only rewritten when its content changes, so `make` stays incremental.
"""
import os
import re
import sys

REPO = os.environ.get("VERIF_REPO", "/repo")
OUT = os.path.join(os.path.dirname(os.path.abspath(__file__)), "..", "coq", "gen")


class TranslatorError(Exception):
    pass


def read(rel):
    p = os.path.join(REPO, rel)
    try:
        with open(p, encoding="utf-8") as f:
            return f.read()
    except OSError as e:
        raise TranslatorError(f"cannot read {rel}: {e}")


def coq_str(s):
    """Rust string literal content -> Coq `list N` of its UTF-8 bytes."""
    b = s.encode("utf-8")
    return "[" + ";".join(str(x) for x in b) + "]%N"


def unescape_rust(s):
    # the literals lifted here are plain; handle the few escapes rustfmt leaves
    out = []
    i = 0
    while i < len(s):
        c = s[i]
        if c == "\\":
            n = s[i + 1]
            m = {"n": "\n", "t": "\t", "r": "\r", "\\": "\\", '"': '"', "'": "'", "0": "\0"}
            if n in m:
                out.append(m[n])
                i += 2
                continue
            raise TranslatorError(f"unsupported escape in literal: {s!r}")
        out.append(c)
        i += 1
    return "".join(out)


# ---------------------------------------------------------------- header action table
HEADER_STRUCTS = {
    "header_add::HeaderAddAction": "KAdd",
    "header_remove::HeaderRemoveAction": "KRemove",
    "header_replace::HeaderReplaceAction": "KReplace",
    "header_override::HeaderOverrideAction": "KOverride",
    "header_default::HeaderDefaultAction": "KDefault",
}


def header_action_table():
    src = read("src/filter/header_action/mod.rs")
    m = re.search(r"pub fn create_header_action\(header_filter: &HeaderFilter\) -> Option<Box<dyn HeaderAction>> \{(.*?)\n\}\n", src, re.S)
    if not m:
        raise TranslatorError("create_header_action not found in src/filter/header_action/mod.rs")
    body = m.group(1)
    # sequence of: if header_filter.action == "x" { return Some(Box::new(mod::Struct { ...fields... })); }
    pat = re.compile(r'\s*if header_filter\.action == "((?:[^"\\]|\\.)*)" \{\s*return Some\(Box::new\(([A-Za-z_:]+) \{(.*?)\}\)\);\s*\}', re.S)
    pos = 0
    entries = []
    while True:
        mm = pat.match(body, pos)
        if not mm:
            break
        name, struct, fields = mm.group(1), mm.group(2), mm.group(3)
        if struct not in HEADER_STRUCTS:
            raise TranslatorError(f"create_header_action builds an unknown struct {struct}")
        fl = [x.strip() for x in fields.strip().split("\n") if x.strip()]
        want = {"id: header_filter.id.clone(),", "name: header_filter.header.clone(),", "target_hash: header_filter.target_hash.clone(),"}
        if HEADER_STRUCTS[struct] != "KRemove":
            want.add("value: header_filter.value.clone(),")
        if set(fl) != want:
            raise TranslatorError(f"create_header_action: unexpected field wiring for {struct}: {fl}")
        entries.append((unescape_rust(name), HEADER_STRUCTS[struct]))
        pos = mm.end()
    rest = body[pos:].strip()
    if rest != "None":
        raise TranslatorError(f"create_header_action: unexpected tail {rest[:80]!r}")
    if not entries:
        raise TranslatorError("create_header_action: no entries")
    items = "; ".join(f"({coq_str(n)}, {k})" for n, k in entries)
    return "Definition header_action_table : list (str * hkind) :=\n  [" + items + "].\n"


# ---------------------------------------------------------------- supported content encodings
def supported_encodings():
    src = read("src/filter/encoding/mod.rs")
    m = re.search(r"pub fn get_encoding_filters\(encoding: &str\) -> Option<\(DecodeFilterBody, EncodeFilterBody\)> \{\s*let supported_encoding = match encoding \{(.*?)\n    \};", src, re.S)
    if not m:
        raise TranslatorError("get_encoding_filters match not found in src/filter/encoding/mod.rs")
    arms = [a.strip() for a in m.group(1).strip().split("\n") if a.strip()]
    names = []
    for a in arms:
        mm = re.fullmatch(r'"((?:[^"\\]|\\.)*)" => SupportedEncoding::(Brotli|Gzip|Deflate),', a)
        if mm:
            names.append(unescape_rust(mm.group(1)))
        elif a == "_ => return None,":
            continue
        else:
            raise TranslatorError(f"get_encoding_filters: unexpected arm {a!r}")
    if not names:
        raise TranslatorError("get_encoding_filters: no supported encoding found")
    # FilterBodyAction::new lowercases the header value before the lookup
    src2 = read("src/filter/filter_body.rs")
    if 'content_encoding = Some(header.value.to_lowercase());' not in src2:
        raise TranslatorError("filter_body.rs: content_encoding is no longer lowercased before get_encoding_filters")
    return "Definition supported_encodings : list str :=\n  [" + "; ".join(coq_str(n) for n in names) + "].\n"


SECTIONS = [
    ("Headers", ["RIO.Headers"], header_action_table),
    ("Encodings", [], supported_encodings),
]


def write_if_changed(path, text):
    try:
        with open(path, encoding="utf-8") as f:
            if f.read() == text:
                return False
    except OSError:
        pass
    os.makedirs(os.path.dirname(path), exist_ok=True)
    with open(path, "w", encoding="utf-8") as f:
        f.write(text)
    return True


def generate():
    """Writes one file per section: gen/Ext<Name>.v.  Returns dict name -> error-or-None."""
    results = {}
    for name, reqs, fn in SECTIONS:
        path = os.path.join(OUT, f"Ext{name}.v")
        try:
            body = fn()
            err = None
        except TranslatorError as e:
            body = None
            err = str(e)
        if body is None:
            # leave a file that does not compile, so that dependants cannot be built against stale tables
            text = f"(* translator failed: {err} *)\nTranslator_failed.\n"
        else:
            text = "(* GENERATED from /repo/src by tools/gen_tables.py on every run; do not edit *)\n"
            text += "Require Import RIO.Base " + " ".join(reqs) + ".\n\n" + body
        write_if_changed(path, text)
        results[name] = err
    return results


if __name__ == "__main__":
    res = generate()
    bad = {k: v for k, v in res.items() if v}
    for k, v in res.items():
        print(f"gen {k}: {'OK' if not v else 'FAILED: ' + v}")
    sys.exit(1 if bad else 0)
