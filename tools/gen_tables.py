#!/usr/bin/env python3
"""Translator: lifts tables and declarations from /repo/src into coq/gen/Extracted.v.

Pure text -> text, strict patterns on the rustfmt-formatted source.  A pattern that is not found
raises TranslatorError: the tie between the source and the model is gone, and the driver reports
that through the violation workflow (never ignored).
The output file is only rewritten when its content changes, so `make` stays incremental.
"""
import os
import re
import sys

REPO = os.environ.get("VERIF_REPO", "/repo")
OUT = os.path.join(os.path.dirname(os.path.abspath(__file__)), "..", "coq", "gen")


class TranslatorError(Exception):
    pass


def read(rel):
    p = os.path.join(REPO, rel)
    try:
        with open(p, encoding="utf-8") as f:
            return f.read()
    except OSError as e:
        raise TranslatorError(f"cannot read {rel}: {e}")


def coq_str(s):
    """Rust string literal content -> Coq `list N` of its UTF-8 bytes."""
    b = s.encode("utf-8")
    return "[" + ";".join(str(x) for x in b) + "]%N"


def unescape_rust(s):
    # the literals lifted here are plain; handle the few escapes rustfmt leaves
    out = []
    i = 0
    while i < len(s):
        c = s[i]
        if c == "\\":
            n = s[i + 1]
            m = {"n": "\n", "t": "\t", "r": "\r", "\\": "\\", '"': '"', "'": "'", "0": "\0"}
            if n in m:
                out.append(m[n])
                i += 2
                continue
            raise TranslatorError(f"unsupported escape in literal: {s!r}")
        out.append(c)
        i += 1
    return "".join(out)


# ---------------------------------------------------------------- header action table
HEADER_STRUCTS = {
    "header_add::HeaderAddAction": "KAdd",
    "header_remove::HeaderRemoveAction": "KRemove",
    "header_replace::HeaderReplaceAction": "KReplace",
    "header_override::HeaderOverrideAction": "KOverride",
    "header_default::HeaderDefaultAction": "KDefault",
}


def header_action_table():
    src = read("src/filter/header_action/mod.rs")
    m = re.search(r"pub fn create_header_action\(header_filter: &HeaderFilter\) -> Option<Box<dyn HeaderAction>> \{(.*?)\n\}\n", src, re.S)
    if not m:
        raise TranslatorError("create_header_action not found in src/filter/header_action/mod.rs")
    body = m.group(1)
    # sequence of: if header_filter.action == "x" { return Some(Box::new(mod::Struct { ...fields... })); }
    pat = re.compile(r'\s*if header_filter\.action == "((?:[^"\\]|\\.)*)" \{\s*return Some\(Box::new\(([A-Za-z_:]+) \{(.*?)\}\)\);\s*\}', re.S)
    pos = 0
    entries = []
    while True:
        mm = pat.match(body, pos)
        if not mm:
            break
        name, struct, fields = mm.group(1), mm.group(2), mm.group(3)
        if struct not in HEADER_STRUCTS:
            raise TranslatorError(f"create_header_action builds an unknown struct {struct}")
        fl = [x.strip() for x in fields.strip().split("\n") if x.strip()]
        want = {"id: header_filter.id.clone(),", "name: header_filter.header.clone(),", "target_hash: header_filter.target_hash.clone(),"}
        if HEADER_STRUCTS[struct] != "KRemove":
            want.add("value: header_filter.value.clone(),")
        if set(fl) != want:
            raise TranslatorError(f"create_header_action: unexpected field wiring for {struct}: {fl}")
        entries.append((unescape_rust(name), HEADER_STRUCTS[struct]))
        pos = mm.end()
    rest = body[pos:].strip()
    if rest != "None":
        raise TranslatorError(f"create_header_action: unexpected tail {rest[:80]!r}")
    if not entries:
        raise TranslatorError("create_header_action: no entries")
    items = "; ".join(f"({coq_str(n)}, {k})" for n, k in entries)
    return "Definition header_action_table : list (str * hkind) :=\n  [" + items + "].\n"


# ---------------------------------------------------------------- supported content encodings
def supported_encodings():
    src = read("src/filter/encoding/mod.rs")
    m = re.search(r"pub fn get_encoding_filters\(encoding: &str\) -> Option<\(DecodeFilterBody, EncodeFilterBody\)> \{\s*let supported_encoding = match encoding \{(.*?)\n    \};", src, re.S)
    if not m:
        raise TranslatorError("get_encoding_filters match not found in src/filter/encoding/mod.rs")
    arms = [a.strip() for a in m.group(1).strip().split("\n") if a.strip()]
    names = []
    for a in arms:
        mm = re.fullmatch(r'"((?:[^"\\]|\\.)*)" => SupportedEncoding::(Brotli|Gzip|Deflate),', a)
        if mm:
            names.append(unescape_rust(mm.group(1)))
        elif a == "_ => return None,":
            continue
        else:
            raise TranslatorError(f"get_encoding_filters: unexpected arm {a!r}")
    if not names:
        raise TranslatorError("get_encoding_filters: no supported encoding found")
    # FilterBodyAction::new lowercases the header value before the lookup
    src2 = read("src/filter/filter_body.rs")
    if 'content_encoding = Some(header.value.to_lowercase());' not in src2:
        raise TranslatorError("filter_body.rs: content_encoding is no longer lowercased before get_encoding_filters")
    return "Definition supported_encodings : list str :=\n  [" + "; ".join(coq_str(n) for n in names) + "].\n"


# ---------------------------------------------------------------- serde schemas (C06)
SERDE_TYPES = [
    # (file, Rust name) in dependency order
    ("src/http/header.rs", "Header"),
    ("src/http/query.rs", "PathAndQueryWithSkipped"),
    ("src/http/request.rs", "Request"),
    ("src/api/header_filter.rs", "HeaderFilter"),
    ("src/api/body_filter.rs", "TextAction"),
    ("src/api/body_filter.rs", "TextBodyFilter"),
    ("src/api/body_filter.rs", "HTMLBodyFilter"),
    ("src/api/body_filter.rs", "BodyFilter"),
    ("src/action/status_code_update.rs", "StatusCodeUpdate"),
    ("src/action/log_override.rs", "LogOverride"),
    ("src/action/mod.rs", "RuleTrace"),
    ("src/action/mod.rs", "HeaderFilterAction"),
    ("src/action/mod.rs", "BodyFilterAction"),
    ("src/action/mod.rs", "Action"),
]
SERDE_PRIM = {"String": "TStr", "u16": "TU16", "bool": "TBool", "IpAddr": "TOpaque", "DateTime<Utc>": "TOpaque",
              "LinkedHashSet<String>": "TSet"}


def serde_type(t, known):
    t = t.strip()
    if t in SERDE_PRIM:
        return SERDE_PRIM[t]
    m = re.fullmatch(r"Option<(.+)>", t)
    if m:
        return "(TOpt " + serde_type(m.group(1), known) + ")"
    m = re.fullmatch(r"Vec<(.+)>", t)
    if m:
        return "(TVec " + serde_type(m.group(1), known) + ")"
    if t in known:
        return "schema_" + t
    raise TranslatorError(f"serde: unsupported field type {t!r}")


def serde_attr(line, allowed):
    """`#[serde(a, b = "c")]` -> dict; anything outside `allowed` is an error."""
    m = re.fullmatch(r"#\[serde\((.*)\)\]", line)
    if not m:
        raise TranslatorError(f"serde: unexpected attribute {line!r}")
    out = {}
    for part in [p.strip() for p in m.group(1).split(",") if p.strip()]:
        mm = re.fullmatch(r'([a-z_]+)(?:\s*=\s*"((?:[^"\\]|\\.)*)")?', part)
        if not mm or mm.group(1) not in allowed:
            raise TranslatorError(f"serde: unsupported attribute {part!r} in {line!r}")
        out[mm.group(1)] = mm.group(2)
    return out


def serde_decl(src, rel, name):
    m = re.search(r"((?:^[ \t]*#\[[^\n]*\]\n)+)^(?:pub(?:\([a-z]+\))? )?(struct|enum) " + re.escape(name) + r" \{\n(.*?)^\}\n", src, re.S | re.M)
    if not m:
        raise TranslatorError(f"serde: declaration of {name} not found in {rel}")
    attrs = [a.strip() for a in m.group(1).strip().split("\n")]
    derive = [a for a in attrs if a.startswith("#[derive(")]
    if len(derive) != 1 or not re.search(r"\bSerialize\b", derive[0]) or not re.search(r"\bDeserialize\b", derive[0]):
        raise TranslatorError(f"serde: {name} must derive both Serialize and Deserialize: {attrs}")
    container = {}
    for a in attrs:
        if a.startswith("#[serde("):
            container.update(serde_attr(a, {"untagged"}))
        elif not a.startswith("#[derive("):
            raise TranslatorError(f"serde: unexpected container attribute {a!r} on {name}")
    return m.group(2), container, [l.strip() for l in m.group(3).split("\n") if l.strip()]


def serde_schemas():
    known = []
    out = []
    for rel, name in SERDE_TYPES:
        kind, container, lines = serde_decl(read(rel), rel, name)
        pending = {}
        items = []
        for l in lines:
            if l.startswith("//"):
                continue
            if l.startswith("#["):
                pending.update(serde_attr(l, {"rename", "default", "skip_serializing_if", "skip_serializing"}))
                continue
            if kind == "struct":
                mm = re.fullmatch(r"(?:pub(?:\([a-z]+\))? )?([a-z_][a-z0-9_]*): (.+),", l)
                if not mm:
                    raise TranslatorError(f"serde: unexpected line in struct {name}: {l!r}")
                if "default" in pending and pending["default"] is not None:
                    raise TranslatorError(f"serde: default = \"fn\" is not supported ({name}.{mm.group(1)})")
                ser_name = pending["rename"] if pending.get("rename") is not None else mm.group(1)
                skip = "SkNever"
                if "skip_serializing" in pending:
                    skip = "SkAlways"
                elif "skip_serializing_if" in pending:
                    pred = pending["skip_serializing_if"]
                    skips = {"Option::is_none": "SkIfNone", "Option::is_some": "SkIfSome", "Vec::is_empty": "SkIfEmpty",
                             "String::is_empty": "SkIfEmpty", "LinkedHashSet::is_empty": "SkIfEmpty"}
                    if pred not in skips:
                        raise TranslatorError(f"serde: unsupported skip_serializing_if predicate {pred!r} ({name}.{mm.group(1)})")
                    skip = skips[pred]
                items.append(f"Field {coq_str(unescape_rust(ser_name))} {'true' if 'default' in pending else 'false'} {skip} {serde_type(mm.group(2), known)}")
            else:
                if "untagged" in container:
                    mm = re.fullmatch(r"([A-Za-z0-9_]+)\(([A-Za-z0-9_]+)\),", l)
                    if not mm or pending:
                        raise TranslatorError(f"serde: unexpected variant in untagged enum {name}: {l!r}")
                    items.append(serde_type(mm.group(2), known))
                else:
                    mm = re.fullmatch(r"([A-Za-z0-9_]+),", l)
                    if not mm or "default" in pending or "skip_serializing_if" in pending or "skip_serializing" in pending:
                        raise TranslatorError(f"serde: unexpected variant in enum {name}: {l!r}")
                    ser_name = pending["rename"] if pending.get("rename") is not None else mm.group(1)
                    items.append(coq_str(unescape_rust(ser_name)))
            pending = {}
        if pending:
            raise TranslatorError(f"serde: dangling attribute in {name}")
        if kind == "struct":
            if container:
                raise TranslatorError(f"serde: container attributes on struct {name} are not supported: {container}")
            body = "TStruct [" + ";\n    ".join(items) + "]"
        elif "untagged" in container:
            body = "TUntagged [" + "; ".join(items) + "]"
        else:
            body = "TUnitEnum [" + "; ".join(items) + "]"
        out.append(f"Definition schema_{name} : ty :=\n  {body}.\n")
        known.append(name)
    return "\n".join(out)


# ---------------------------------------------------------------- panic-capable sites (C07)
def panic_sites_section():
    """Inventory of the panic-capable syntactic sites of the current source + the key set of tools/panic_ledger.json
    (scanner and ledger checks live in tools/panic_sites.py)."""
    sys.path.insert(0, os.path.dirname(os.path.abspath(__file__)))
    import panic_sites
    try:
        return panic_sites.coq_section(REPO)
    except panic_sites.ScanError as e:
        raise TranslatorError(f"panic sites: {e}")


# ---------------------------------------------------------------- plain tables (C09, C10, C15, C16)
def coq_strs(names):
    return "[" + "; ".join(coq_str(n) for n in names) + "]"


def encode_sets():
    """The AsciiSet constants of the three files that percent-encode, and every call site of utf8_percent_encode
    (file, encoded expression, set) in source order."""
    out = []
    uses = []
    for rel, tag in (("src/api/rule.rs", "rule"), ("src/http/query.rs", "query"), ("src/http/request.rs", "request")):
        src = read(rel)
        found = 0
        for m in re.finditer(r"^const ([A-Z_]+): &AsciiSet = (.*);$", src, re.M):
            name, rhs = m.group(1), m.group(2)
            if rhs == "CONTROLS":
                adds = []
            else:
                mm = re.fullmatch(r"&CONTROLS((?:\.add\(b'(?:[^'\\]|\\.)'\))+)", rhs)
                if not mm:
                    raise TranslatorError(f"{rel}: unexpected AsciiSet definition {m.group(0)!r}")
                adds = [ord(unescape_rust(x)) for x in re.findall(r"\.add\(b'((?:[^'\\]|\\.))'\)", mm.group(1))]
            out.append(f"Definition ext_{tag}_{name}_adds : list N := [" + ";".join(str(a) for a in adds) + "]%N.\n")
            found += 1
        if "AsciiSet" in src and not found:
            raise TranslatorError(f"{rel}: AsciiSet is used but no constant definition matched")
        if re.search(r"AsciiSet\s*=", src) and len(re.findall(r"AsciiSet = ", src)) != found:
            raise TranslatorError(f"{rel}: an AsciiSet definition did not match the expected shape")
        for m in re.finditer(r"utf8_percent_encode\(([^,()]*(?:\([^()]*\))?[^,()]*), ([A-Z_]+)\)", src):
            uses.append((tag, m.group(1).strip(), m.group(2)))
        if len(re.findall(r"utf8_percent_encode\(", src)) != sum(1 for u in uses if u[0] == tag):
            raise TranslatorError(f"{rel}: a utf8_percent_encode call did not match the expected shape")
    out.append("Definition ext_encode_uses : list (str * str * str) :=\n  [" +
               ";\n   ".join(f"({coq_str(a)}, {coq_str(b)}, {coq_str(c)})" for a, b, c in uses) + "].\n")
    return "".join(out)


def void_elements():
    src = read("src/filter/html_filter_body.rs")
    m = re.search(r"pub static ref VOID_ELEMENTS: HashSet<&'static str> = \{\n\s*let mut set = HashSet::new\(\);\n(.*?)\n\s*set\n\s*\};", src, re.S)
    if not m:
        raise TranslatorError("VOID_ELEMENTS not found in src/filter/html_filter_body.rs")
    names = []
    for line in m.group(1).split("\n"):
        line = line.strip()
        if not line:
            continue
        mm = re.fullmatch(r'set\.insert\("((?:[^"\\]|\\.)*)"\);', line)
        if not mm:
            raise TranslatorError(f"VOID_ELEMENTS: unexpected line {line!r}")
        names.append(unescape_rust(mm.group(1)))
    return "Definition ext_void_elements : list str :=\n  " + coq_strs(names) + ".\n"


def raw_text_tables():
    src = read("src/html/mod.rs")
    m = re.search(r"match context_tag\.as_str\(\) \{\n\s*((?:\"[a-z]+\"(?: \| )?)+) => \{\n\s*tokenizer\.raw_tag\.clone_from\(&context_tag\);\n\s*\}\n\s*_ => \{\}\n", src)
    if not m:
        raise TranslatorError("html/mod.rs: the raw-text list of Tokenizer::new_fragment was not found")
    frag = re.findall(r'"([a-z]+)"', m.group(1))
    m = re.search(r"match byte_char \{\n(.*?)\n\s*_ => \{\}\n\s*\}\n", src, re.S)
    if not m:
        raise TranslatorError("html/mod.rs: the per-letter raw-text dispatch of read_start_tag was not found")
    arms = []
    body = m.group(1)
    pat = re.compile(r"\s*'(.)' => \{\n\s*raw = self\.start_tag_in\(vec!\[((?:\"[a-z]+\"\.to_string\(\)(?:, )?)+)\]\);\n\s*\}", re.S)
    pos = 0
    while True:
        mm = pat.match(body, pos)
        if not mm:
            break
        arms.append((ord(mm.group(1)), re.findall(r'"([a-z]+)"', mm.group(2))))
        pos = mm.end()
    if body[pos:].strip():
        raise TranslatorError(f"html/mod.rs: unexpected arm in the raw-text dispatch: {body[pos:].strip()[:80]!r}")
    m = re.search(r"self\.text_is_raw = ((?:self\.raw_tag != \"[a-z]+\"(?: && )?)+);", src)
    if not m:
        raise TranslatorError("html/mod.rs: the text_is_raw assignment was not found")
    notraw = re.findall(r'"([a-z]+)"', m.group(1))
    out = "Definition ext_fragment_raw_text : list str :=\n  " + coq_strs(frag) + ".\n"
    out += "Definition ext_start_tag_raw_text : list (N * list str) :=\n  [" + "; ".join(f"({c}%N, {coq_strs(ns)})" for c, ns in arms) + "].\n"
    out += "Definition ext_text_not_raw : list str :=\n  " + coq_strs(notraw) + ".\n"
    return out


def transformer_kinds():
    src = read("src/api/transformer.rs")
    m = re.search(r"Some\(kind\) => match kind\.as_str\(\) \{\n(.*?)\n                _ => None,\n", src, re.S)
    if not m:
        raise TranslatorError("api/transformer.rs: the kind dispatch of to_transform was not found")
    kinds = re.findall(r'^                "([a-z_]+)" => ', m.group(1), re.M)
    opts = re.findall(r'options\.contains_key\("([a-z_]+)"\)', m.group(1))
    if not kinds:
        raise TranslatorError("api/transformer.rs: no transformer kind found")
    return ("Definition ext_transformer_kinds : list str :=\n  " + coq_strs(kinds) + ".\n" +
            "Definition ext_transformer_option_keys : list str :=\n  " + coq_strs(opts) + ".\n")


def html_visitor_names():
    src = read("src/filter/html_body_action/mod.rs")
    m = re.search(r"match filter\.action\.as_str\(\) \{\n(.*?)\n            _ => None,\n", src, re.S)
    if not m:
        raise TranslatorError("html_body_action/mod.rs: the action dispatch of HtmlBodyVisitor::new was not found")
    arms = re.findall(r'^            "([a-z_]+)" => Some\(HtmlBodyVisitor::([A-Za-z]+)\(', m.group(1), re.M)
    if not arms:
        raise TranslatorError("html_body_action/mod.rs: no visitor arm found")
    if "if filter.element_tree.is_empty() {\n            return None;" not in src:
        raise TranslatorError("html_body_action/mod.rs: the empty element_tree guard was not found")
    return ("Definition ext_html_visitors : list (str * str) :=\n  [" +
            "; ".join(f"({coq_str(a)}, {coq_str(b)})" for a, b in arms) + "].\n")


def marketing_defaults():
    src = read("src/router_config.rs")
    m = re.search(r"fn default_marketing_parameters\(\) -> HashSet<String> \{\n\s*let mut parameters = HashSet::new\(\);\n(.*?)\n\s*parameters\n\}", src, re.S)
    if not m:
        raise TranslatorError("router_config.rs: default_marketing_parameters not found")
    names = re.findall(r'parameters\.insert\("([a-z_]+)"\.to_string\(\)\);', m.group(1))
    return "Definition ext_default_marketing : list str :=\n  " + coq_strs(names) + ".\n"


def tables_section():
    return "\n".join([encode_sets(), void_elements(), raw_text_tables(), transformer_kinds(), html_visitor_names(), marketing_defaults()])


# ---------------------------------------------------------------- the analyses' response block (C19)
ANALYSIS_BLOCK = [
    r"let example_status_code = example\.response_status_code\.unwrap_or\(0\);",
    r"let \(final_status_code, backend_status_code\) =\s*action\.get_final_status_code_with_fallback\(example_status_code, 200, &mut unit_trace\);",
    r"let headers = action\.filter_headers\(Vec::new\(\), backend_status_code, false, Some\(&mut unit_trace\)\);",
    r"if let Some\(mut body_filter\) = action\.create_filter_body\(backend_status_code, &\[\]\) \{",
    r"let should_log_request = action\.should_log_request\(true, final_status_code, Some\(&mut unit_trace\)\);",
]


def analysis_block():
    """explain_request.rs and impact.rs carry the same response block: the skeleton document and the sequence of calls
    RIO.Pipeline.analysis_response transcribes (request phase first, fallback 200, filter_headers on the BACKEND code with
    no headers and no rule-ids header, body filters created with the backend code and no headers, log decision on the
    FINAL code)."""
    skels = []
    for rel in ("src/api/explain_request.rs", "src/api/impact.rs"):
        src = read(rel)
        m = re.search(r'let mut body = "((?:[^"\\]|\\.)*)";', src, re.S)
        if not m:
            raise TranslatorError(f"{rel}: the skeleton document was not found")
        skels.append(unescape_rust(m.group(1)))
        pos = 0
        for pat in ANALYSIS_BLOCK:
            mm = re.compile(pat, re.S).search(src, pos)
            if not mm:
                raise TranslatorError(f"{rel}: the response block no longer has the shape the pipeline model transcribes (missing or out of order: {pat})")
            pos = mm.end()
        if not re.search(r"response: Response \{\s*status_code: final_status_code,\s*headers,\s*body: body\.to_string\(\),\s*\},", src):
            raise TranslatorError(f"{rel}: the Response literal no longer reports final_status_code / headers / body")
    if skels[0] != skels[1]:
        raise TranslatorError("explain_request.rs and impact.rs use different skeleton documents")
    src = read("src/action/mod.rs")
    m = re.search(r"pub fn get_final_status_code_with_fallback\((.*?)\n    \}\n", src, re.S)
    body = m.group(1) if m else ""
    for pat in (r"let action_status_code = self\.get_status_code\(0, Some\(unit_trace\)\);",
                r"if action_status_code != 0 \{\s*return \(action_status_code, action_status_code\);\s*\}",
                r"let backend_status_code = if response_status_code == 0 \{\s*fallback_status_code\s*\} else \{\s*response_status_code\s*\};",
                r"let final_status_code = self\.get_status_code\(backend_status_code, Some\(unit_trace\)\);",
                r"\(final_status_code, backend_status_code\)"):
        if not re.search(pat, body, re.S):
            raise TranslatorError("action/mod.rs: get_final_status_code_with_fallback no longer has the shape the pipeline model transcribes")
    return "Definition ext_analysis_skeleton : str :=\n  " + coq_str(skels[0]) + ".\n"


# ---------------------------------------------------------------- the processing order of rules (C05, C11)
def rule_order():
    """impl Ord for Rule (api/rule.rs) as a list of (field, descending) keys; Route::cmp must delegate to the handler and
    Action::from_routes_rule must sort the routes before anything else."""
    src = read("src/api/rule.rs")
    m = re.search(r"impl Ord for Rule \{\n    fn cmp\(&self, other: &Self\) -> Ordering \{\n(.*?)\n    \}\n\}", src, re.S)
    if not m:
        raise TranslatorError("api/rule.rs: impl Ord for Rule not found")
    body = m.group(1)
    mm = re.fullmatch(r"\s*let order_on_rank = (other|self)\.rank\.cmp\(&(other|self)\.rank\);\n\n\s*if order_on_rank != Ordering::Equal \{\n\s*return order_on_rank;\n\s*\}\n\n\s*(other|self)\.id\.cmp\(&(other|self)\.id\)", body)
    if not mm or mm.group(1) == mm.group(2) or mm.group(3) == mm.group(4):
        raise TranslatorError("api/rule.rs: Rule::cmp no longer has the shape 'rank, then id' the action model transcribes")
    keys = [("rank", mm.group(1) == "other"), ("id", mm.group(3) == "other")]
    src = read("src/router/route.rs")
    if not re.search(r"fn cmp\(&self, other: &Self\) -> Ordering \{\n\s*self\.handler\.cmp\(&other\.handler\)\n\s*\}", src):
        raise TranslatorError("router/route.rs: Route::cmp no longer delegates to the handler")
    src = read("src/action/mod.rs")
    if not re.search(r"pub fn from_routes_rule\(mut routes: Vec<Arc<Route<Rule>>>, request: &Request, mut unit_trace: Option<&mut UnitTrace>\) -> Action \{\n\s*let mut action = Action::default\(\);\n\s*routes\.sort\(\);\n\n\s*for route in routes \{", src):
        raise TranslatorError("action/mod.rs: from_routes_rule no longer sorts the whole list of routes before folding it")
    return ("Definition ext_rule_order : list (str * bool) :=\n  [" +
            "; ".join(f"({coq_str(k)}, {'true' if d else 'false'})" for k, d in keys) + "].\n")


# ---------------------------------------------------------------- LazyRegex and the shared capture regex (C02 clone clause, C12)
def lazy_regex_shape():
    """src/regex.rs and MarkerString::compile / capture (src/marker/mod.rs) keep the shape RIO.LazyRegex transcribes:
    create_regex builds from self.regex with self.ignore_case; compile() copies every field and caches create_regex();
    regex() hands out the cache or a fresh regex; MarkerString::compile compiles regex_capture in place and capture()
    reads it through regex()."""
    src = read("src/regex.rs")
    pats = [
        r"pub fn create_regex\(&self\) -> Option<Arc<Regex>> \{\n\s*match RegexBuilder::new\(self\.regex\.as_str\(\)\)\.case_insensitive\(self\.ignore_case\)\.build\(\) \{\n\s*Ok\(regex\) => Some\(Arc::new\(regex\)\),",
        r"pub fn compile\(&self\) -> Self \{\n\s*let compiled = self\.create_regex\(\);\n\n\s*LazyRegex \{\n\s*regex: self\.regex\.clone\(\),\n\s*original: self\.original\.clone\(\),\n\s*compiled,\n\s*ignore_case: self\.ignore_case,\n\s*\}\n\s*\}",
        r"pub fn regex\(&self\) -> Option<Arc<Regex>> \{\n\s*match &self\.compiled \{\n\s*Some\(regex\) => Some\(regex\.clone\(\)\),\n\s*None => self\.create_regex\(\),\n\s*\}\n\s*\}",
        r"pub fn is_match\(&self, value: &str\) -> bool \{\n\s*match &self\.compiled \{\n\s*Some\(regex\) => regex\.is_match\(value\),\n\s*None => \{\n\s*if self\.original\.is_empty\(\) \{\n\s*true\n\s*\} else \{\n\s*match self\.create_regex\(\) \{\n\s*None => false,\n\s*Some\(regex\) => regex\.is_match\(value\),",
        r"pub fn new_leaf\(regex: &str, ignore_case: bool\) -> LazyRegex \{\n\s*LazyRegex \{\n\s*regex: \[\"\^\", regex, \"\$\"\]\.join\(\"\"\),\n\s*original: regex\.to_string\(\),\n\s*compiled: None,\n\s*ignore_case,",
    ]
    for pat in pats:
        if not re.search(pat, src):
            raise TranslatorError("src/regex.rs no longer has the shape RIO.LazyRegex transcribes: " + pat[:60])
    m = read("src/marker/mod.rs")
    for pat in (r"pub fn compile\(&self\) -> bool \{\n\s*match self\.regex_capture\.write\(\) \{\n\s*Ok\(mut regex\) => \{\n\s*\*regex = regex\.compile\(\);",
                r"let regex = match self\.regex_capture\.read\(\) \{\n\s*Ok\(regex\) => match regex\.regex\(\) \{"):
        if not re.search(pat, m):
            raise TranslatorError("src/marker/mod.rs: MarkerString::compile / capture no longer go through the shared regex_capture cell as RIO.LazyRegex assumes")
    return "Definition ext_lazy_regex_shape_checked : bool := true.\n"


SECTIONS = [
    ("Headers", ["RIO.Headers"], header_action_table),
    ("Encodings", [], supported_encodings),
    ("Serde", ["RIO.Json"], serde_schemas),
    ("PanicSites", [], panic_sites_section),
    ("Tables", [], tables_section),
    ("Analysis", [], analysis_block),
    ("RuleOrder", [], rule_order),
    ("LazyRegex", [], lazy_regex_shape),
]


def write_if_changed(path, text):
    try:
        with open(path, encoding="utf-8") as f:
            if f.read() == text:
                return False
    except OSError:
        pass
    os.makedirs(os.path.dirname(path), exist_ok=True)
    with open(path, "w", encoding="utf-8") as f:
        f.write(text)
    return True


def generate():
    """Writes one file per section: gen/Ext<Name>.v.  Returns dict name -> error-or-None."""
    results = {}
    for name, reqs, fn in SECTIONS:
        path = os.path.join(OUT, f"Ext{name}.v")
        try:
            body = fn()
            err = None
        except TranslatorError as e:
            body = None
            err = str(e)
        if body is None:
            # leave a file that does not compile, so that dependants cannot be built against stale tables
            text = f"(* translator failed: {err} *)\nTranslator_failed.\n"
        else:
            text = "(* GENERATED from /repo/src by tools/gen_tables.py on every run; do not edit *)\n"
            text += "Require Import RIO.Base " + " ".join(reqs) + ".\n\n" + body
        write_if_changed(path, text)
        results[name] = err
    return results


if __name__ == "__main__":
    res = generate()
    bad = {k: v for k, v in res.items() if v}
    for k, v in res.items():
        print(f"gen {k}: {'OK' if not v else 'FAILED: ' + v}")
    sys.exit(1 if bad else 0)
