#!/usr/bin/env python3
"""Regenerates MANIFEST.json and tools/pins.json from the claims table below."""
import hashlib, json, os, subprocess
ROOT = os.path.dirname(os.path.dirname(os.path.abspath(__file__)))
TECH = "machine-checked proof in Coq (model = reference for all inputs/histories) + translator-regenerated tables + model-vs-implementation correspondence run"
CLAIMS = {
 "C13": {
  "text": "Full proof: C13_sequence states, for every lowercasing function, filter list and header list, that the loop-level model of FilterHeaderAction/Action::filter_headers equals the left fold of the five reference operations (unknown actions ignored), with frame theorems for untouched headers; closed under the global context. Tie: action-name table regenerated from create_header_action on every run + correspondence run through both entry points (exhaustive for short sequences).",
  "design": "DESIGN.md section 4, C13",
  "note": "Trusted: Coq kernel; translator + harness + driver; String::to_lowercase as an oracle (theorems hold for any function); unit-trace side effects not modelled."},
 "C08": {
  "text": "Proof over unbounded histories: for every admissible history of insert/remove/retain/cache, every value type and every regex engine satisfying two explicit premises, find = linear scan of the live entries (as multisets), len = number of live entries, get = entries under that pattern, iteration = all values, remove returns the stored value (C08_find/len/get/iter/remove_returns); the cut rule of prefix.rs is proved token-aligned (C08_cut_aligned) and the engine premise is proved for every token-compositional engine. Partial: 're-inserting an existing (pattern,id) replaces' is decided by the correspondence only (histories are admissible when inserted ids are fresh).",
  "design": "DESIGN.md section 4, C08",
  "note": "Trusted: Coq kernel; the regex crate enters as an oracle with premises engine_dotstar / engine_prefix_law; the run uses RIO.Rx (executable model of the regex fragment), validated by the correspondence; harness + driver."},
 "C12": {
  "text": "Proof at both levels: tree — for every admissible history, limit and level, cache warm-up changes no find/get/len/entry (C12_tree_cache_transparent), only flips compiled flags (C12_only_flags), cache steps are invisible to the live-set refinement (C12_cache_steps_invisible); router — Router::cache with any limit at any point of any admissible history changes no match result (C12_router_cache_transparent, C12_router_cache_steps_invisible). Tied by histories dense in cache steps, an exhaustive (limit, level) sweep on trees, and router histories with cache steps (C02 run). Partial: Route::compile (pre-compilation of capture regexes) and captures after caching are not modelled.",
  "design": "DESIGN.md section 4, C12",
  "note": "Trusted: as C08; leaf patterns non-empty (the single point where lazy and compiled matching differ is exhibited by C12_empty_leaf_differs)."},

 "C05": {
  "text": "Full proof for the modelled pipeline: for every rule list (sampling absent, 0 or >= 100), request override, response code, header list and random draws, the fold model of from_routes_rule/merge followed by get_status_code, filter_headers, create_filter_body, should_log_request equals a declarative window reference (C05_status, C05_headers, C05_body_filters, C05_log), the applied-rule list after the proxy's calls is exactly the set of window rules admitting the code (C05_applied_attributable), reset/stop are the window (C05_reset_discards_lower, C05_stop_blocks_higher), sampling is decided by override/0/100 (C05_sampling), processing order is rank desc then id desc (C05_processing_order). All closed under the global context. Tie: correspondence on thousands of rule lists built from Rule JSON, the crate's Action compared structurally.",
  "design": "DESIGN.md section 4, C05",
  "note": "Trusted: Coq kernel; harness + driver; marker substitution is the identity in the modelled cases (C10); unit traces not modelled; rand only through rates 0/100."},
 "C11": {
  "text": "Full proof: from_routes_rule is invariant under any permutation of a match list with unique ids (C11_permutation), because the processing order is the unique sorted permutation for the total order rank desc / id desc (C11_order_determined, C11_order_is_rank_then_id). Tie: permutations of the match list and of the router insertion order, serialised actions compared byte for byte.",
  "design": "DESIGN.md section 4, C11",
  "note": "Trusted: as C05; serialisation is a function of the action (serde), insertion-order independence of the match SET is C01/C02's subject and is exercised here by correspondence only."},
 "C06": {
  "text": "Proof on the serde data model, regenerated from the source. tools/gen_tables.py reads the derive(Serialize, Deserialize) declarations of Action, StatusCodeUpdate, LogOverride, HeaderFilterAction, BodyFilterAction, RuleTrace, HeaderFilter, BodyFilter (untagged), TextBodyFilter, TextAction, HTMLBodyFilter, Request, PathAndQueryWithSkipped, Header on every run (field order, rename, default, Option, unit-variant renames, untagged variant order; any other attribute or a missing derive breaks the tie) into schemas (data); RIO.Json gives ser/de for ANY schema, and SerdeProofs.roundtrip proves de(ser v) = Some v for every well-formed schema and typed value, by induction on the schema (incl. the untagged union: an earlier variant must require a member the later one never writes). Per run: the extracted schemas are well formed (C06_schemas_wf), hence C06_action_roundtrip, C06_request_roundtrip, C06_reser, C06_html_filter_stays_html. Behavioural identity (status, headers, body output, log decision, applied ids; request matching) is a consequence of structural identity for deterministic APIs and is checked on the crate by the correspondence run, which also validates the schemas: every JSON text the crate emits must be read, typed and written back member for member by the extracted schema.",
  "design": "DESIGN.md section 4, C06",
  "note": "Trusted: Coq kernel; translator (strict patterns); serde derive + serde_json text layer below the JSON-value model; IpAddr/DateTime string forms opaque; FFI/wasm wrappers are exercised under C18, not here."},
 "C19": {
  "text": "Partial proof. (1) Incremental = from scratch: for ANY pipeline that consults the router through match_request and does not depend on the order of the matched rules (C11), the router reached by any admissible history, in particular existing router + change-set, and a router rebuilt from the resulting rule list inserted in ANY order give the same result for every request (C19_project_eq_standalone, C19_change_set; corollaries of the refinement theorem of C02). (2) Redirect chains: RedirectionLoop::compute modelled over an abstract one-hop function; for every one-hop function, start and limit: at most max_hops+1 hops, Loop reported exactly when a (url, method) pair repeats and then as the last hop, TooManyHops only when the limit is exhausted, hops form a path (C19_loop_bound, C19_loop_iff, C19_loop_last, C19_too_many_hops_exact, C19_hops_are_a_path). Decided by the correspondence run only: that the four analyses really are such pipelines (both entry-point families compared on the named projection), and that the response reported for an example is the one of the live pipeline (independent replay in proxy order on a rebuilt router); the chain reported by the crate is compared with the model on the one-hop table taken from the crate.",
  "design": "DESIGN.md section 4, C19",
  "note": "Trusted: as C01/C02; unit-trace bookkeeping and the single hop (request building, URL joining) are not modelled; a genuine defect found by this check (explain/impact skipped the request phase) is repaired in /repo 7dc61a8."},
 "C09": {
  "text": "Proof for every configuration (all flag combinations, any marketing list) and every URL satisfying explicit boolean side conditions: a literal rule matches its own URL (C09_literal_matches), the request matching string is invariant under key-stable permutations of the query (C09_param_order), under added/removed ignored marketing parameters (C09_marketing_ignored, C09_rule_matches_equivalent), under ASCII case swap with the case flag (C09_case, C09_case_rule); differing path or decoded parameters never match on the clean domain (C09_differs_no_match); rebuild is idempotent (C09_rebuild_idempotent, C09_rebuild_keeps_request); skipped parameters reach the target iff the pass flag (C09_skipped_iff_pass, C09_target_with_skipped); the separately defined encode sets agree and absorb (C09_encode_sets_agree, C09_encode_absorb[_sets]). Each excluded class has a refuted/witness lemma; four of them are listed known findings reproduced on the crate by committed corpus cases.",
  "design": "DESIGN.md section 4, C09",
  "note": "Trusted: Coq kernel; percent-encoding / form_urlencoded / http::uri::PathAndQuery are MODELLED (byte-class tables copied from the crates, validated by the correspondence run, two 256-byte sweeps by vm_compute); lossy UTF-8 decoding outside the model (precondition utf8_valid); harness + driver."},
 "C10": {
  "text": "Partial proof. Proved about the model RIO.Marker, for all inputs satisfying explicit boolean side conditions, closed under the global context: StaticOrDynamic::replace (one str::replace per variable) equals the simultaneous substitution of every '@name' occurrence, for any order of the variables, when no name or value contains '@' and the text between two consecutive '@' is never a strict prefix of a name (C10_substitute); with the code's stable length-descending sort this is the LONGEST-name substitution, so a name never clobbers a longer one (C10_longest_first, C10_longer_name_wins) and the order among equal lengths (HashMap iteration) is immaterial (C10_order_irrelevant); MarkerString::new on a delimited template yields exactly the escaped literals with one (?:e) group per reference, and Some as soon as there is a reference (C10_template_shape); transformer chains are left-to-right folds, Slice returns the clamped byte range, is empty for from > len, and panics exactly for from > clamped to or a bound inside a character (C10_transform_chain, C10_slice); for EVERY group oracle an accepted instantiation matches (C10_match_if), and under separators the match holds iff every instantiation is accepted and the parse is unique, so captures equal the instantiation (C10_match_only_if_partial, C10_capture_partial, C10_route_matches_iff_partial; hypotheses G_sep_free_hyp, fold_sep_hyp, engine_tok_hyp and capture soundness are premises of the statements). Each side condition has a witness lemma on which the conclusion fails; four of them are listed open findings reproduced on the crate by committed corpus cases (value substituted twice, adjacent references glued, header name case ignored by capture, header condition unanchored). Decided by correspondence only: that the regex crate implements the token semantics and returns a valid parse as captures (RIO.Rx stands in, every capture compared), the capture-regex shape, Rule::variables / Variable::get_value / Route::capture / Action plumbing (modelled, not the subject of a theorem), heck and Unicode case conversions (oracles).",
  "design": "DESIGN.md section 4, C10",
  "note": "Trusted: Coq kernel; harness + driver + the generator's expectations (own transformer, heck and substitution code, cross-checked against RIO.Marker.simul_longest in Coq on every case); regex crate as an oracle (RIO.Rx executable stand-in validated by the run); URL normalisation as in C09; router reduced to one rule (tree: C08/C01); ignore-case flags only through two corpus cases. Side condition of C10_substitute is stronger than the sketch in DESIGN.md ('no value contains @name'): C10_juxtaposition_witness shows that the sketch's condition is insufficient."},
 "C03": {
  "text": "Partial proof. Proved for every body, filter list and chunking (incl. empty chunks): the chain discipline of FilterBodyAction (early break on empty data, end cascade) preserves chunk invariance whenever each stage satisfies the split law 'feeding c1 then c2 = feeding c1++c2' (C03_chain), and the text stages satisfy it, so any list of text filters is chunk invariant unconditionally (C03_text_stage_law, C03_text_filters). For the HTML stage the split law (restart property of the tokenizer-driven filter) is a named HYPOTHESIS of C03_chain, not a theorem: it is decided by the correspondence run, which compares the crate on 8-12 chunkings of each generated document (cuts inside tags, quoted attributes, comments, scripts, multi-byte characters, one byte at a time) with the single-chunk output and with the executable model of the stage; C03_example_html evaluates the model at every cut of a document containing the three repaired defect shapes.",
  "design": "DESIGN.md section 4, C03",
  "note": "Trusted: Coq kernel; harness + driver; scraper (selector engine) as an oracle fed from the crate's own evaluations (hook verif_selector_log); tag names ASCII. The HTML stage's split law is assumed in the theorem and exercised by correspondence only."},
 "C04": {
  "text": "Partial proof. Proved for ALL byte strings and chunkings on the model: when no filter applies or can be built (empty list, unknown action, empty element_tree, non-HTML content type) the output is the input (C04_nothing_applies); when a stage fails, the failing chunk and all later chunks pass through (C04_error_passthrough) and the HTML stage first releases every byte it holds, then is the identity (C04_html_error_releases, C04_html_in_error); insert-only text filters give prepends ++ input ++ appends (C04_text_insert_only). The content clause for the HTML append/prepend/replace stages (strip(out) = input; replace removes only whole '<..>' spans) is decided by the correspondence run on damaged documents (truncated, invalid UTF-8 inserted anywhere, partial tags, random markup bytes) for both the chunked and the single delivery.",
  "design": "DESIGN.md section 4, C04",
  "note": "Trusted: as C03. Sentinel values do not occur in generated bodies. The span check (output minus values = input minus '<..>' spans) is a dynamic programme in the harness."},
 "C14": {
  "text": "Proof modulo codec oracles. The table of supported encodings is extracted from src/filter/encoding/mod.rs on every run and proved equal to the set the property names (C14_table); for any other encoding no chain is built and the body passes through untouched for every chunking (C14_unsupported); without the header the chain is the plain one (C14_no_encoding); for gzip/deflate/br, for EVERY chunking of the compressed stream, the output is a complete stream that an independent decoder decodes to the output of the same filters on the decompressed body (C14_supported) — a theorem about the chain discipline decode :: filters ++ [encode] (early break on empty pieces, end cascade with pending data), generic in the codec, under two explicit hypotheses on the codec (the streaming decoder's outputs concatenate to the decoded body however the stream is cut; the independent decoder recovers what the encoder was given) and the split law of the inner stages (C03). flate2/brotli themselves are not modelled: the two hypotheses are exercised on the crate by the correspondence run (independent producer at all levels, every cut position, independent decoder that must consume the whole output).",
  "design": "DESIGN.md section 4, C14",
  "note": "Trusted: Coq kernel; translator; flate2 and brotli as oracles with the two stated laws; codec failure on corrupt streams not modelled (the property quantifies over valid streams); for an empty decoded body the reference is the chain ended without any chunk."},
 "C15": {
  "text": "Mostly correspondence. The universal statement (out = serialize(reference_edit(d)) for every generated tree) is NOT a theorem: it is decided by the correspondence run, in which the generator computes the reference edit on its own DOM tree (never through the crate) and the result is compared with the crate and with the executable model of RIO.HtmlFilter on every case (3 actions x selector none/empty/matching/non-matching x path depth 1-4, sibling/void/self-closing replace targets, all attribute quoting styles, comments, scripts, upper-case tags). Proved: composition of two stages on a chunk (C15_compose); kernel-evaluated tests of the model on a document exercising each clause (C15_* examples, tests not theorems).",
  "design": "DESIGN.md section 4, C15",
  "note": "Trusted: as C03. A Coq proof of the visitor state machine against a DOM-level reference is not built (DESIGN.md section 9, limits)."},
 "C01": {
  "text": "Full proof on the router model: for every configuration, every set of acceptable routes with unique ids and every request, match_request of the router built from the set returns exactly (as a multiset, each route once) the routes of the reference linear scan: conjunction of the per-trigger predicates (scheme, host static/regex, ip ranges, methods / exclusion, header conditions, datetime/time/weekday windows, path literal or regex) with the any-host policy scoped per scheme (C01_exact, C01_once); unbounded in the number of routes, of conditions per route, of buckets. The proof goes through a representation relation for each of the seven matchers (generic bucket-layer theorem instantiated 5 times, custom proofs for the path leaf and the host matcher) and the regex-tree theorem of C08. Closed under the global context. Tie: correspondence on routes built with Route::new over a colliding vocabulary.",
  "design": "DESIGN.md section 4, C01",
  "note": "Trusted: Coq kernel; regex engine as a parameter with premises engine_dotstar / engine_prefix_law (see C08), String::to_lowercase arbitrary; cidr/chrono parsing done by the harness; acceptable route = regex paths/hosts of the rule shape, no duplicate method / ip entries (C01_ok_route); harness + driver."},
 "C02": {
  "text": "Full proof by refinement over unbounded histories: after any admissible history of insert_route / remove / batch_remove / apply_change_set / cache (inserted routes acceptable, live ids unique) the router answers every request exactly as the reference on the flat list of live routes (C02_refines), hence as a router rebuilt from scratch (C02_rebuild); len = number of live rules (C02_len); remove returns the stored route or None exactly when the id is not live (C02_remove_returns, C02_removed_not_live); stale counts after batch_remove and un-pruned buckets are shown harmless by the representation invariant (count never undercounts). Clone isolation: identity in the functional model (C02_clone_mut_identity), decided by the correspondence run which clones the real Router, mutates the clone and keeps probing the original.",
  "design": "DESIGN.md section 4, C02",
  "note": "Trusted: as C01. Partial for the clone clause (aliasing is not expressible in Gallina): by correspondence only."},
 "C17": {
  "text": "Proof: on the router reached by any admissible history, the routes appearing in trace_request are exactly the routes returned by match_request (C17_routes: every matcher's trace(), incl. the separate memo logic of the header/datetime traces and both tree_trace_to_trace functions, lists the matched routes), and the traced final route has the maximal priority, equal to get_route's (C17_final_priority). Partial: the TraceAction steps (action trace) are covered by the correspondence of C05/C19 only.",
  "design": "DESIGN.md section 4, C17",
  "note": "Trusted: as C01; only the route-carrying structure of traces is modelled (counts, executed flags and trace infos other than Storage are not)."},
}
REASON_PENDING = "not yet claimed: model and theorems under construction (DESIGN.md section 8 build order); no check is registered until it decides the property"

def main():
    pins = {}
    pdir = os.path.join(ROOT, "coq", "properties")
    for f in sorted(os.listdir(pdir)):
        if f.endswith(".v"):
            pins[f[:-2]] = hashlib.sha256(open(os.path.join(pdir, f), "rb").read()).hexdigest()
    json.dump(pins, open(os.path.join(ROOT, "tools", "pins.json"), "w"), indent=1)
    commits = subprocess.check_output(["git", "-C", "/repo", "log", "--format=%h %s"]).decode().strip().split("\n")
    hook_commits = [c.split()[0] for c in commits if c.split(" ", 1)[1].startswith("verif:")]
    man = {
        "version": 1,
        "setup_cmd": "sh tools/setup.sh",
        "hooks": {"guard": "verif-hooks (cargo feature of the redirectionio crate, not in default)",
                  "enable": "harness/Cargo.toml: redirectionio = { path = \"/repo\", features = [\"verif-hooks\"] }",
                  "baseline_off_cmd": "cd /repo && cargo test --workspace --no-fail-fast --offline",
                  "source_commits": hook_commits, "add_only": True},
        "engines": [{"name": "coq-model+correspondence", "path": "tools/check.py", "serves_properties": sorted(CLAIMS),
                     "kind_free_text": "Coq 8.16.1 theorems about hand-written executable Gallina models (coq/theories), tables regenerated from the Rust source (tools/gen_tables.py), and a differential correspondence check between the models evaluated by vm_compute and the real crate (harness/)"}],
        "checks": [],
        "notes": "See DESIGN.md. Statement files coq/properties/*.v are pinned by SHA-256 in tools/pins.json. Known findings / fixes: known_findings.json.",
        "not_applicable": [],
    }
    for i in range(1, 20):
        pid = "C%02d" % i
        if pid in CLAIMS:
            c = CLAIMS[pid]
            man["checks"].append({
                "property_id": pid, "quick_cmd": f"python3 tools/check.py {pid}",
                "thorough_cmd": f"VERIF_TIER=thorough python3 tools/check.py {pid}",
                "evidence_file": f"/verif/evidence/{pid}.json",
                "replay_cmd_template": f"python3 tools/check.py {pid} --replay {{path}}",
                "engine": "coq-model+correspondence",
                "level_claimed": {"category": "proof", "text": c["text"], "design_ref": c["design"]},
                "level_note": c["note"], "technique": TECH})
        else:
            man["not_applicable"].append({"property_id": pid, "reason": REASON_PENDING})
    json.dump(man, open(os.path.join(ROOT, "MANIFEST.json"), "w"), indent=1)
    print("manifest: claimed", sorted(CLAIMS))

if __name__ == "__main__":
    main()
