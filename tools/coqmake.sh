#!/bin/sh
# Locked wrapper around make in /verif/coq (regenerates the Makefile from the current file list).
# usage: tools/coqmake.sh [targets...]
cd "$(dirname "$0")/../coq" || exit 1
mkdir -p ../build
exec flock ../build/.coq.lock sh -c 'coq_makefile -f _CoqProject $(ls theories/*.v gen/*.v properties/*.v) -o Makefile >/dev/null 2>&1; timeout 3000 make -j16 -k "$@"' sh "$@"
