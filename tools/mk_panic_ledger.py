#!/usr/bin/env python3
"""Helper for maintaining tools/panic_ledger.json (C07).  The ledger is the committed, hand-reviewed artefact; this
script only (1) lists the sites of the current source that have no entry / the entries that are stale and
(2) with --propose fills the missing entries from the review rules below (each rule was written after reading the
function it names; a site that no rule matches is printed and must be classified by hand).

  python3 tools/mk_panic_ledger.py            # report
  python3 tools/mk_panic_ledger.py --propose  # add entries for uncovered sites, drop stale ones, rewrite the file

Classes: lemma (a Theorem of coq/properties/C07.v states that the model function holding the site never panics),
guard (a syntactic guard in the same function, named in "guard"), out-of-model (FFI pointer contract / logger / wasm
binding / verification hook), searched (no proof: covered only by the C07 search and the correspondence runs).
"""
import json
import os
import re
import sys

HERE = os.path.dirname(os.path.abspath(__file__))
sys.path.insert(0, HERE)
import panic_sites as ps  # noqa: E402

REPO = os.environ.get("VERIF_REPO", "/repo")

FFI_FILES = {"action/ffi.rs", "api/ffi.rs", "http/ffi.rs", "ffi_helpers.rs"}
WRAP = "u-size/unsigned arithmetic WRAPS in the shipped profile (no overflow-checks in /repo/Cargo.toml); it panics only in a build with overflow-checks"
CAST = "an `as` cast never panics; "


def rule(s):
    """-> (class, why, extra dict) or None"""
    f, fn, k, t = s["file"], s["fn"], s["kind"], s["text"]
    G = lambda why, guard: ("guard", why, {"guard": guard})  # noqa: E731
    S = lambda why: ("searched", why, {})  # noqa: E731
    O = lambda why: ("out-of-model", why, {})  # noqa: E731

    # ---------------------------------------------------------------- FFI layer, logger, wasm, hooks
    if f in FFI_FILES:
        if k == "loop":
            return O("walks the caller's linked list of headers until a null `next`: terminates iff the C caller passes an acyclic list (pointer contract, C18)")
        if k == "cast":
            return O(CAST + "FFI marshalling")
        return O("extern \"C\" layer: the pointer is null-checked at the top of the function; validity / ownership of a non-null pointer is the C caller's contract (C18 exercises the documented-null patterns)")
    if f == "callback_log.rs":
        if k == "unwrap":
            return G("Option fields of the logger", "`if self.callback.is_none() { return; }` and `if self.data.is_none() { return; }` at the top of log()")
        if k == "cast":
            return G(CAST + "log::Level is an enum with values 1..=5", "value range of log::Level")
        if k == "expect":
            return O("logger installation: log::set_boxed_logger fails when a logger is already installed, e.g. redirectionio_log_init_stderr was called first, and the expect then panics inside an extern \"C\" fn (reported to C18 as a candidate; not reachable from the Rust API)")
        return O("extern \"C\" logger installation (C18); the expect on set_boxed_logger that aborted the process when a logger was already installed was removed in ade8ac0")
    if f == "filter/buffer.rs":
        return O("Buffer is the #[repr(C)] byte buffer of the FFI: (data, len) come from Buffer::from_vec or from the C caller; null / zero length are checked two lines above; a wrong (data, len) pair is a caller contract violation (C18). Buffer::to_vec panicked on every non-empty buffer before 09c1c17")
    if f == "wasm_api.rs":
        if k == "unwrap":
            return G("wasm binding (compiled only for target_arch = wasm32 with feature wasmbind)", "`if self.action.is_none() { return ..; }` directly above")
        return O("wasm binding, not part of the native library")
    if f == "filter/html_body_action/mod.rs" and fn in ("record", "drain"):
        return O("verification hook (feature verif-hooks only): thread-local RefCell borrowed for one statement, never re-entrantly")

    # ---------------------------------------------------------------- HTML tokenizer
    if f == "html/mod.rs":
        if fn == "Token::tag_string" and s["ord"] == 1 and k == "unwrap":
            return G("Token::data", "`if self.data.is_none() { return \"\".to_string(); }` at the top of tag_string()")
        if fn.startswith("Token::"):
            return S("Token values come from Tokenizer::token(): data is Some for Text/Comment/Doctype tokens (text() returns Some), attribute key and value are Some (tag_attr returns both or neither); a hand-built Token with pub fields set to None would panic in Display. Exercised through token().to_string() on arbitrary bytes")
        if k == "recurse":
            return S("script-data states call each other once per input byte: stack depth grows with the length of a <script> body unless the optimiser turns the tail calls into jumps (it does at opt-level >= 1 for these fns; a debug build overflows the stack near 1 MB of script: DESIGN 6, item 13). A stack overflow aborts the process and cannot be caught: it would show as a crashed harness. The model bounds the recursion by fuel (C16)")
        if k == "loop" and fn != "Tokenizer::token":
            return ("lemma", "tokenizer loop, modelled on fuel in RIO.HtmlTok; C07_tokenizer_total excludes OutOfFuel with fuel |input| + 1, i.e. the modelled loop terminates", {"lemma": "C07_tokenizer_total"})
        if k == "loop":
            return S("tokenizer loop: every iteration consumes a byte through read_byte or ends on EOF (self.err); modelled with fuel in RIO.HtmlTok, fuel exhaustion never observed in the C16 correspondence; no totality theorem in the tree yet")
        if k == "range" and "self.attribute[..0]" in t:
            return G("range ..0 of a Vec", "`[..0]` is in bounds for every length")
        if "pending_attribute[" in t and k == "index":
            return G("pending_attribute is the fixed-size array [Span; 2]", "constant index 0 or 1 into a [Span; 2]")
        if k == "index" and re.search(r"attr\[[01]\]", t) and "self.attribute[" not in t and s["ord"] in (2, 3, 4, 5):
            return G("attr is a [Span; 2]", "constant index 0 or 1 into a [Span; 2]")
        if k == "sub" and re.search(r"b'a' - b'A'", t) and not re.search(r"\]\s*-\s*\(", t) and "raw.end" not in t:
            return G("constant expression b'a' - b'A' = 32", "both operands are literals")
        if fn != "Tokenizer::token" and k in ("index", "range", "sub"):
            return ("lemma", "checked site of the executable model RIO.HtmlTok; RIO.HtmlTokProofs.total (C16_total, restated as C07_tokenizer_total): the driver over next and every accessor never reports Panic / OutOfFuel, for every input; model tied to the crate by the C16 correspondence run", {"lemma": "C07_tokenizer_total"})
        return S("checked site of the executable model RIO.HtmlTok (site table at the top of coq/theories/HtmlTok.v: every index, slice and unsigned subtraction of impl Tokenizer sets the sticky panic flag when it would fail); the C16 correspondence compares model and crate on every short string over the markup alphabet and thousands of random ones and has never seen the flag; a totality THEOREM (C16_total) is not in the tree yet, so this site is covered by testing only. " + (WRAP if k == "sub" else ""))

    # ---------------------------------------------------------------- HTML body filters
    if f.startswith("filter/html_body_action/body_"):
        if k == "index" or (k == "sub" and "self.position -= 1" in t):
            return ("lemma", "cursor arithmetic of the body visitors, modelled with every index and the decrement checked in RIO.C07Models (v_enter / v_leave / v_first): for a non-empty element_tree (HtmlBodyVisitor::new returns None for an empty one, so position = 0 < len initially) every sequence of enter / leave / first calls returns and keeps position < len. Hand transliteration (a few lines per function), no correspondence harness of its own; BodyAppend::new / BodyPrepend::new / BodyReplace::new are only called by HtmlBodyVisitor::new", {"lemma": "C07_visitor_cursor_total"})
        if k == "index_unused":
            return S("element_tree[position] / element_tree[0]: HtmlBodyVisitor::new rejects an empty element_tree and enter/leave keep 0 <= position < len (enter increments only when position + 1 < len, leave decrements only when position > 0); the invariant spans several functions and is not proved. Exercised with element trees of length 1..4, repeated / unbalanced / truncated documents")
        if k == "cast":
            return G(CAST + "`self.position as i32 > 0` only compares; position < element_tree.len() (a Vec of Strings cannot reach 2^31 entries in practice)", "result only compared with 0")
        if k == "sub" and "self.position -= 1" in t:
            return G("position > 0 here", "`if self.position as i32 > 0 {` on the line above")
        if k == "sub" and "level -= 1" in t:
            return G("`level` is an i32 (integer literal default, never mixed with usize): no unsigned underflow; |level| <= number of tokens", "signed counter")
        if k == "unwrap" and "css_selector" in t:
            if "is_some() &&" in t or "is_none() ||" in t:
                return G("Option css_selector", "`is_some() &&` / `is_none() ||` short-circuit on the same line")
            return G("Option css_selector", "reached only after the `css_selector.is_none() || ..is_empty()` / `is_some() && ..` test a few lines above in the same function returned or failed")
        if k == "unwrap" and "tag_name.unwrap()" in t:
            return S("tag_name() of a StartTagToken: the tokenizer only emits a start tag after reading a name of at least one byte (first byte alphabetic), so data.start < data.end and the name is Some; a property of the tokenizer, not of this function")
        if k == "loop":
            return S("loop over tokenizer.next(): ends on ErrorToken, which the tokenizer returns once the input is exhausted (each token consumes at least one byte: C16 lossless / count clause)")
    if f == "filter/html_filter_body.rs":
        if k == "unwrap" and ("is_some() &&" in t):
            return G("Option field", "`is_some() &&` short-circuit on the same line")
        if k == "unwrap" and "current_buffer" in t:
            return G("Option current_buffer", "enclosing `if self.current_buffer.is_some()` (condition of the if one or two lines above, no assignment in between)")
        if k == "unwrap" and "tag_name" in t:
            return S("tag_name() of an EndTagToken / SelfClosingTagToken: Some because the tokenizer only emits these tokens with a non-empty name (`</` + letter, `<` + letter); tokenizer invariant, not proved. (The StartTagToken arm uses unwrap_or_default.)")
        if k == "loop" and fn.endswith("::held"):
            return G("walks the Box-owned chain current_buffer -> previous: finite and acyclic by ownership", "`while let Some(link) = buffer` over an owned linked list")
        if k == "loop":
            return S("loops over tokenizer.next(): left on ErrorToken / err(); termination is the tokenizer's progress property (C16)")
    if f == "filter/filter_body.rs" and k == "stdapi":
        return G("Vec::insert(0, _)", "index 0 <= len for every Vec")

    # ---------------------------------------------------------------- api
    if f in ("api/explain_request.rs", "api/impact.rs") and k == "unwrap" and "from_utf8" in t:
        return S("from_utf8(filtered body).unwrap(): the body is a fixed ASCII document, filter values are Rust Strings, and on an internal error the filter passes the input through; the text filter and the HTML filter only concatenate whole tokens and values in order, so the output is valid UTF-8. Not proved (C04 proves byte conservation for the model, not UTF-8 validity). Exercised with HTML/text filters carrying multi-byte values and selectors")
    if f == "api/impact.rs" and k == "unwrap":
        return G("Option examples", "`if examples.is_none() { return ImpactOutput { impacts }; }` directly above the for loop")
    if f == "api/impact.rs" and k == "stdapi":
        return G("not Vec::remove: Router::remove of this crate (returns None for an absent id)", "receiver is a Router")
    if f == "api/rule.rs" and fn == "Rule::from_json":
        return G("Result rule_result", "`if rule_result.is_err() { .. return None; }`: the first unwrap is inside that branch (err() is Some), the second after it (Ok)")
    if f == "api/rule.rs" and fn == "Rule::into_route":
        if k == "sub":
            return G("`0 - self.rank as i64`: i64 arithmetic on a widened u16, range -65535..=0", "operand types i64")
        return G(CAST + "u16 -> i64 widens", "widening cast")
    if f in ("api/test_examples.rs", "api/unit_ids.rs") and k == "unwrap" and "examples" in t:
        return G("Option examples", "`if examples.is_none() { continue; }` directly above")
    if f == "api/test_examples.rs" and k == "unwrap":
        return G("Option unit_ids_applied", "`if example.unit_ids_applied.is_none() { return; }` at the top of test_example()")
    if f == "api/transformer.rs" and k == "unwrap":
        return G("HashMap::get after contains_key", "`if !options.contains_key(..) || !options.contains_key(..) { return None; }` directly above")
    if f == "action/mod.rs" and k == "div":
        return G("`% 100`", "constant non-zero divisor")

    # ---------------------------------------------------------------- regex tree
    if f.startswith("regex_radix_tree/"):
        if k == "stdapi":
            if "self.children.remove(child_index)" in t:
                return G("Vec::remove(child_index)", "child_index = Some(i) was assigned inside `for i in 0..self.children.len()` and the Vec is not modified in between")
            return G("not Vec::remove: HashMap::remove or the crate's own Node/Leaf/Item/RegexTreeMap::remove", "receiver is a map / tree item")
        if k == "index" and "self.children[i]" in t:
            return G("self.children[i]", "`for i in 0..self.children.len()` and the Vec is not modified inside the loop")
        if k == "range" and "self.children[1..]" in t:
            return G("&self.children[1..]", "match arm `Some(..)` of `self.children.first()`: the slice has at least one element")
        if k == "unwrap" and "children.pop().unwrap()" in t:
            return G("Vec::pop", "`if children.len() == 1 {` on the line above")
        if k == "cast" and "as u64" in t:
            return G(CAST + "usize -> u64 does not narrow on targets of at most 64 bits", "widening cast")
        if k == "cast":
            return S(CAST + "chars().count() as u32 truncates for a node prefix of 2^32 characters or more: the comparison with prefix sizes would then be wrong, not a panic; unreachable with rule sizes the API accepts in practice")
        if k == "sub" and "group_level" in t:
            return G("`group_level` is an i32 (integer literal default): a ')' without '(' makes it negative, no unsigned underflow", "signed counter")
        if k == "sub":
            return S("`left - 1` / `left -= 1` on u64: Item::cache returns early when left == 0 and is the only caller of Node::cache / Leaf::cache, so left >= 1 here; the guard is in another function. " + WRAP + ". Exercised by Router::cache with limits 0, 1, 2, small and huge")
        if k == "loop" and f.endswith("prefix.rs"):
            return G("loop over two char iterators", "each iteration calls next() on both iterators and returns when either is exhausted (macro next_char_or_return)")
        if k == "loop":
            return S("`while left > 0` in RegexTreeMap::cache: leaves when a pass caches nothing (new_left == left), otherwise left strictly decreases; relies on Item::cache never returning more than it was given (C12 model)")
        if k == "recurse" and f.endswith("iter.rs"):
            return S("ItemIter::next re-enters itself after advancing to the next child / leaf / parent: one frame per skipped empty item unless the tail call is turned into a jump; depth bounded by the number of items of the tree, not by a proof")
        if k == "recurse":
            return S("recursion over the children of a tree / trace node: depth = depth of the regex tree (at most the number of rules sharing nested prefixes)")

    # ---------------------------------------------------------------- router
    if f == "router/mod.rs":
        if k == "stdapi":
            return G("not Vec::remove: HashMap::remove / the matcher chain's remove", "receiver is a map / matcher")
        if k == "cast":
            return S(CAST + "Router::cache converts the limit u64 -> i64 -> u64: a limit above i64::MAX becomes negative and the warm-up is skipped (no panic, the cache is an optimisation: C12). Exercised with limits 0, 1, u64::MAX")
        if k == "div":
            return G("`/ 10`", "constant non-zero divisor")
        if k == "sub":
            return G("`prev_cache_limit -= route.compile() as i64`: i64 minus 0..=255", "operand types i64, loop left when <= 0")
        if k == "loop":
            return S("`while prev_cache_limit > 0`: each pass either lowers the limit or counts one of at most 6 retries; relies on the matcher chain never returning more than it was given")
    if f.startswith("router/request_matcher/"):
        if k == "stdapi":
            return G("not Vec::remove: HashMap::remove / remove of a nested matcher or of the regex tree", "receiver is a map / matcher")
        if k == "cast":
            return G(CAST + "usize -> u64 does not narrow on targets of at most 64 bits", "widening cast")
        if k == "unwrap":
            return G("HashMap::get_mut after ensuring the key", "`if !map.contains_key(k) { map.insert(k, ..); }` directly above the get_mut(k).unwrap()")
        if k == "sub" and "self.count -= 1" in t:
            return S("`self.count -= 1` runs only when a stored route was actually removed (`removed.is_some()` / `Some(route)` two lines above) and every stored route incremented count on insert, so count >= 1; the pairing insert/remove spans functions and is not proved for the usize counter (the C02 model uses the list of live routes). " + WRAP + ". Exercised by insert / duplicate-id insert / remove / batch_remove / apply_change_set histories")
        if k == "recurse":
            return S("recursion over the children of a regex-tree trace: depth = depth of the tree")
    return None


def main():
    sites = ps.scan(REPO)
    try:
        led = json.load(open(ps.LEDGER, encoding="utf-8"))
    except OSError:
        led = {"version": 1, "entries": {}}
    entries = led["entries"]
    keys = {ps.key_of(s): s for s in sites}
    missing = [k for k in keys if k not in entries]
    stale = [k for k in entries if k not in keys]
    print(f"sites {len(sites)}  ledger entries {len(entries)}  uncovered {len(missing)}  stale {len(stale)}")
    if "--propose" not in sys.argv:
        for k in missing:
            print("  uncovered:", k, "  l.%d: %s" % (keys[k]["line"], keys[k]["text"][:100]))
        for k in stale:
            print("  stale:", k)
        return 1 if (missing or stale) else 0
    unknown = []
    for k in missing:
        s = keys[k]
        r = rule(s)
        if r is None:
            unknown.append(k)
            continue
        cls, why, extra = r
        e = {"class": cls, "why": why, "at_review": f"l.{s['line']}: {s['text'][:160]}"}
        e.update(extra)
        entries[k] = e
    for k in stale:
        del entries[k]
    led["note"] = ("C07 ledger: one entry per panic-capable site of /repo/src (tools/panic_sites.py). Hand-reviewed; "
                   "'at_review' quotes the line as it was when the entry was written (informative only, the key carries the hash).")
    led["entries"] = dict(sorted(entries.items()))
    json.dump(led, open(ps.LEDGER, "w", encoding="utf-8"), indent=1, ensure_ascii=False)
    print(f"written {ps.LEDGER}: {len(entries)} entries; dropped {len(stale)} stale")
    for k in unknown:
        print("  NO RULE:", k, "  l.%d: %s" % (keys[k]["line"], keys[k]["text"][:100]))
    return 1 if unknown else 0


if __name__ == "__main__":
    sys.exit(main())
