#!/usr/bin/env python3
"""Confirms a seeded change in a scratch worktree (never in /repo): the patch applies, the whole test suite still passes
with it, the demonstration fails with it and passes without it.  Writes <dir>/verified.json.
usage: seed_verify.py <worktree> <dir with patch.diff + demo.rs> [...more dirs]"""
import json, os, re, subprocess, sys, time

ENV = dict(os.environ, CARGO_NET_OFFLINE="true")


def sh(cmd, cwd=None, timeout=3000):
    return subprocess.run(cmd, shell=True, capture_output=True, text=True, cwd=cwd, env=ENV, timeout=timeout)


def suite(wt):
    r = sh("cargo test --workspace --no-fail-fast --offline -j 8 2>&1", cwd=wt)
    passed = sum(int(x) for x in re.findall(r"test result: \w+\. (\d+) passed", r.stdout))
    failed = sum(int(x) for x in re.findall(r"test result: \w+\. \d+ passed; (\d+) failed", r.stdout))
    compiled = "could not compile" not in r.stdout
    return {"passed": passed, "failed": failed, "compiled": compiled}


def demo(wt):
    r = sh("cargo test --offline -j 8 --test seed_demo 2>&1", cwd=wt)
    ok = r.returncode == 0
    m = re.findall(r"test result: \w+\. (\d+) passed; (\d+) failed", r.stdout)
    return {"ok": ok, "counts": m[-1] if m else None, "compiled": "could not compile" not in r.stdout}


def clean(wt):
    sh("git checkout -- . ; rm -f tests/seed_demo.rs", cwd=wt)


def main():
    wt = sys.argv[1]
    for d in sys.argv[2:]:
        t0 = time.time()
        clean(wt)
        res = {"worktree": wt}
        ap = sh(f"git apply {d}/patch.diff", cwd=wt)
        res["applies"] = ap.returncode == 0
        if not res["applies"]:
            res["error"] = ap.stderr[:300]
        else:
            files = sh("git diff --name-only", cwd=wt).stdout.split()
            res["files"] = files
            res["suite_with_patch"] = suite(wt)
            sh(f"cp {d}/demo.rs tests/seed_demo.rs", cwd=wt)
            res["demo_with_patch"] = demo(wt)
            sh("git checkout -- .", cwd=wt)
            res["demo_without_patch"] = demo(wt)
        clean(wt)
        s = res.get("suite_with_patch", {})
        res["confirmed"] = bool(res["applies"] and s.get("compiled") and s.get("failed") == 0 and s.get("passed", 0) >= 549
                                and res["demo_with_patch"]["compiled"] and not res["demo_with_patch"]["ok"]
                                and res["demo_without_patch"]["ok"])
        res["wall_s"] = round(time.time() - t0, 1)
        json.dump(res, open(os.path.join(d, "verified.json"), "w"), indent=1)
        print(d, "CONFIRMED" if res["confirmed"] else "NOT CONFIRMED", json.dumps(res)[:400])
        sys.stdout.flush()


if __name__ == "__main__":
    main()
