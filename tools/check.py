#!/usr/bin/env python3
"""Driver: decides one property per invocation.

  python3 tools/check.py Cxx [--replay FILE]        env: VERIF_TIER=quick|thorough  VERIF_SEED=<int>

Steps (DESIGN.md 1.3): regenerate coq/gen from /repo/src; build and audit the property's theorems
(Print Assumptions allow-list, forbidden-token grep, pinned statement hash); build the harness against
/repo's working tree; run the cases on the real crate; evaluate model and reference on the same cases
inside Coq (vm_compute, sharded); aggregate, shrink, write evidence and replays, print
KNOWN-FINDING / VIOLATION lines.
"""
import hashlib
import json
import os
import re
import subprocess
import sys
import time
from concurrent.futures import ThreadPoolExecutor

HERE = os.path.dirname(os.path.abspath(__file__))
ROOT = os.path.dirname(HERE)
sys.path.insert(0, HERE)
import shutil
import gen_tables  # noqa: E402
import props  # noqa: E402

COQ = os.path.join(ROOT, "coq")
BUILD = os.path.join(ROOT, "build")
CASES = os.path.join(BUILD, "cases")
REPO = os.environ.get("VERIF_REPO", "/repo")
HARNESS_BIN = os.path.join(BUILD, "target", "release", "rio-harness")
NCPU = 16

AXIOM_ALLOW = {
    # standard-library axioms that a used library may bring; each is named in DESIGN.md section 3
    "functional_extensionality_dep",
    "FunctionalExtensionality.functional_extensionality_dep",
    "Coq.Logic.FunctionalExtensionality.functional_extensionality_dep",
    "Eqdep.Eq_rect_eq.eq_rect_eq",
    "Coq.Logic.Eqdep.Eq_rect_eq.eq_rect_eq",
    "JMeq_eq", "JMeq.JMeq_eq", "Coq.Logic.JMeq.JMeq_eq",
    "proof_irrelevance", "ProofIrrelevance.proof_irrelevance",
    "propositional_extensionality",
    "Classical_Prop.classic",
}
FORBIDDEN = re.compile(r"\b(Admitted|admit|Axiom|Axioms|Parameter|Parameters|Conjecture|Conjectures|Abort All|Admit Obligations)\b|Unset\s+Guard|Unset\s+Positivity|Unset\s+Universe|bypass_check|type-in-type|impredicative-set|native_compute")


def log(msg):
    print(msg, flush=True)


def sh(cmd, timeout, cwd=None, env=None, inp=None):
    e = dict(os.environ)
    if env:
        e.update(env)
    try:
        r = subprocess.run(cmd, cwd=cwd, env=e, input=inp, capture_output=True, text=True, timeout=timeout)
        return r.returncode, r.stdout, r.stderr
    except subprocess.TimeoutExpired as ex:
        out = ex.stdout.decode() if isinstance(ex.stdout, bytes) else (ex.stdout or "")
        err = ex.stderr.decode() if isinstance(ex.stderr, bytes) else (ex.stderr or "")
        return 124, out, err + "\nTIMEOUT"


# ------------------------------------------------------------------------------- Coq side
def strip_comments(text):
    out = []
    depth = 0
    i = 0
    while i < len(text):
        if text.startswith("(*", i):
            depth += 1
            i += 2
        elif text.startswith("*)", i) and depth > 0:
            depth -= 1
            i += 2
        else:
            if depth == 0:
                out.append(text[i])
            i += 1
    return "".join(out)


def coq_sources():
    res = []
    for d in ("theories", "properties", "gen"):
        p = os.path.join(COQ, d)
        if os.path.isdir(p):
            for f in sorted(os.listdir(p)):
                if f.endswith(".v"):
                    res.append(os.path.join(d, f))
    return res


def ensure_makefile():
    files = coq_sources()
    stamp = os.path.join(COQ, ".filelist")
    want = "\n".join(files)
    have = open(stamp).read() if os.path.exists(stamp) else None
    if have != want or not os.path.exists(os.path.join(COQ, "Makefile")):
        rc, out, err = sh(["coq_makefile", "-f", "_CoqProject"] + files + ["-o", "Makefile"], 60, cwd=COQ)
        if rc != 0:
            raise RuntimeError("coq_makefile failed: " + err)
        open(stamp, "w").write(want)


def make_targets(targets, timeout=1500):
    """Serialised by a file lock: several checks (or agents) may run at the same time."""
    import fcntl
    os.makedirs(BUILD, exist_ok=True)
    with open(os.path.join(BUILD, ".coq.lock"), "w") as lk:
        fcntl.flock(lk, fcntl.LOCK_EX)
        try:
            ensure_makefile()
            rc, out, err = sh(["make", "-j%d" % NCPU, "-k"] + targets, timeout, cwd=COQ)
        finally:
            fcntl.flock(lk, fcntl.LOCK_UN)
    return rc, out + err


def forbidden_scan():
    """Admitted/Axiom/... anywhere in the hand-written development (comments stripped)."""
    hits = []
    for rel in coq_sources():
        if rel.startswith("gen/"):
            continue
        text = strip_comments(open(os.path.join(COQ, rel), encoding="utf-8").read())
        for m in FORBIDDEN.finditer(text):
            line = text.count("\n", 0, m.start()) + 1
            hits.append(f"{rel}:{line}: {m.group(0)}")
    return hits


def theorem_names(prop_file):
    text = strip_comments(open(prop_file, encoding="utf-8").read())
    return re.findall(r"^\s*(?:Theorem|Corollary)\s+([A-Za-z0-9_']+)", text, re.M)


def print_assumptions(pid, names):
    """Runs coqc on a generated file that prints the assumptions of each pinned theorem."""
    os.makedirs(CASES, exist_ok=True)
    path = os.path.join(CASES, f"assume_{pid}.v")
    with open(path, "w") as f:
        for mod in [pid] + list(props.PROPS.get(pid, {}).get("extra_props", [])):
            f.write(f"Require Import RIOProps.{mod}.\n")
        for n in names:
            f.write(f'Redirect "{os.path.join(CASES, "assume_" + pid + "_" + n)}" Print Assumptions {n}.\n')
    rc, out, err = sh(["coqc", "-noglob", "-Q", "theories", "RIO", "-Q", "gen", "RIOGen", "-Q", "properties", "RIOProps", path], 600, cwd=COQ)
    res = {}
    for n in names:
        p = os.path.join(CASES, f"assume_{pid}_{n}.out")
        res[n] = open(p).read().strip() if os.path.exists(p) else None
        if os.path.exists(p):
            os.remove(p)
    return rc, res, out + err


def audit_assumptions(text):
    """-> (ok, axioms list)"""
    if text is None:
        return False, ["<no output>"]
    if "Closed under the global context" in text:
        return True, []
    axioms = re.findall(r"^([A-Za-z_][A-Za-z0-9_.']*)\s*:", text, re.M)
    bad = [a for a in axioms if a not in AXIOM_ALLOW and a.split(".")[-1] not in AXIOM_ALLOW]
    return (len(bad) == 0 and len(axioms) > 0), axioms


def coqchk_audit(pid, timeout=1500):
    """thorough tier: re-check the compiled statement file and everything it depends on with the independent checker"""
    mods = [f"RIOProps.{m}" for m in [pid] + list(props.PROPS.get(pid, {}).get("extra_props", []))]
    rc, out, err = sh(["coqchk", "-o", "-silent", "-Q", "theories", "RIO", "-Q", "gen", "RIOGen", "-Q", "properties", "RIOProps"] + mods, timeout, cwd=COQ)
    text = (out or "") + (err or "")
    ok = rc == 0
    summary = {}
    for key, label in (("axioms", "* Axioms:"), ("type_in_type", "relying on type-in-type:"), ("unsafe_fix", "relying on unsafe (co)fixpoints:"), ("positivity", "whose positivity is assumed:")):
        i = text.find(label)
        val = text[i + len(label):].split("\n")[0].strip() if i >= 0 else "?"
        summary[key] = val
        if val != "<none>":
            ok = False
    return ok, summary, text[-1200:]


def failing_items(make_output):
    """Names the .v files (and the enclosing statement when it can be found) that failed."""
    res = []
    for m in re.finditer(r'File "\./([^"]+)", line (\d+), characters [^\n]*\n((?:.*\n){0,6})', make_output):
        rel, line, ctx = m.group(1), int(m.group(2)), m.group(3)
        name = None
        try:
            lines = open(os.path.join(COQ, rel), encoding="utf-8").read().split("\n")
            for i in range(min(line, len(lines)) - 1, -1, -1):
                mm = re.match(r"\s*(?:Theorem|Lemma|Corollary|Example|Definition|Fixpoint|Fact|Remark)\s+([A-Za-z0-9_']+)", lines[i])
                if mm:
                    name = mm.group(1)
                    break
        except OSError:
            pass
        res.append({"file": rel, "line": line, "statement": name, "message": " ".join(ctx.split())[:400]})
    return res


# ------------------------------------------------------------------------------- harness side
def build_harness():
    env = {"PUBLISH_SKIP_BUILD": "1", "CARGO_NET_OFFLINE": "true", "CARGO_TARGET_DIR": os.path.join(BUILD, "target")}
    hdir = os.path.join(ROOT, "harness")
    lock = os.path.join(hdir, "Cargo.lock")
    if not os.path.exists(lock):
        src = os.path.join(hdir, "Cargo.lock.pinned")
        if os.path.exists(src):
            open(lock, "w").write(open(src).read())
    rc, out, err = sh(["cargo", "build", "--release", "--offline", "-q"], 1800, cwd=hdir, env=env)
    return rc, (out + err)[-4000:]


def run_harness(pid, seed, tier, replay=None, timeout=1800):
    cmd = [HARNESS_BIN, pid, "--seed", str(seed), "--tier", tier]
    if replay:
        cmd += ["--replay", replay]
    rc, out, err = sh(cmd, timeout)
    lines = []
    for ln in out.split("\n"):
        if ln.startswith("{"):
            try:
                lines.append(json.loads(ln))
            except json.JSONDecodeError:
                pass
    return rc, lines, err[-40000:]


# ------------------------------------------------------------------------------- cases in Coq
def write_shard(pid, k, cfg, cases, mode):
    """mode: 'full' (model + reference, needs gen) or 'spec' (reference only)."""
    path = os.path.join(CASES, f"{pid}_{mode}_{k}.v")
    with open(path, "w") as f:
        f.write("Require Import RIO.Base " + " ".join(cfg["run_requires"]) + ".\n")
        if mode == "full":
            for g in cfg.get("gen_requires", []):
                f.write(f"Require Import {g}.\n")
        f.write("Open Scope N_scope.\n")
        chunk = 40
        names = []
        for j in range(0, len(cases), chunk):
            nm = f"chunk_{j // chunk}"
            names.append(nm)
            f.write(f"Definition {nm} : list {cfg['case_type']} := [\n")
            f.write(";\n".join("  " + c["coq"] for c in cases[j:j + chunk]))
            f.write("\n].\n")
        verdict = cfg["verdict_full"] if mode == "full" else cfg["verdict_spec"]
        f.write("Definition all_cases := " + " ++ ".join(names + ["[]"]) + ".\n")
        f.write(f'Redirect "{path[:-2]}" Eval vm_compute in (map ({verdict}) all_cases).\n')
    return path


def eval_shard(path):
    t0 = time.time()
    rc, out, err = sh(["coqc", "-noglob", "-Q", "theories", "RIO", "-Q", "gen", "RIOGen", path], int(os.environ.get("VERIF_SHARD_TIMEOUT", "420")), cwd=COQ)
    outp = path[:-2] + ".out"
    if rc != 0 or not os.path.exists(outp):
        return None, (out + err)[-2000:], time.time() - t0
    text = open(outp).read()
    m = re.search(r"=\s*(.*?):\s*list N", text, re.S)
    if not m:
        return None, "unparsable coq output: " + text[:300], time.time() - t0
    vals = [int(x) for x in re.findall(r"\d+", m.group(1))]
    for ext in (".out", ".vo", ".vok", ".vos", ".glob"):
        q = path[:-2] + ext
        if os.path.exists(q):
            os.remove(q)
    return vals, "", time.time() - t0


def eval_cases(pid, cfg, cases, mode):
    """-> list of verdict numbers aligned with cases (None where the shard failed), error text"""
    os.makedirs(CASES, exist_ok=True)
    if not cases:
        return [], ""
    per = max(1, min(cfg.get("shard_size", 400), (len(cases) + NCPU - 1) // NCPU))
    shards = [cases[i:i + per] for i in range(0, len(cases), per)]
    paths = [write_shard(pid, k, cfg, sh_, mode) for k, sh_ in enumerate(shards)]
    verdicts = []
    errors = []
    with ThreadPoolExecutor(max_workers=NCPU) as ex:
        results = list(ex.map(eval_shard, paths))
    for sh_, (vals, err, _) in zip(shards, results):
        if vals is None or len(vals) != len(sh_):
            verdicts.extend([None] * len(sh_))
            errors.append(err or f"verdict count mismatch: {len(vals) if vals else 0} vs {len(sh_)}")
        else:
            verdicts.extend(vals)
    return verdicts, "\n".join(errors)


# ------------------------------------------------------------------------------- shrinking
def shrink_candidates(inp):
    """Yields smaller variants of a JSON input: drop one element of any array, recursively."""
    def walk(node, path):
        if isinstance(node, list):
            for i in range(len(node)):
                yield path, i
            for i, x in enumerate(node):
                yield from walk(x, path + [i])
        elif isinstance(node, dict):
            for k, x in node.items():
                yield from walk(x, path + [k])
    for path, idx in walk(inp, []):
        c = json.loads(json.dumps(inp))
        node = c
        for p in path:
            node = node[p]
        if isinstance(node, list) and len(node) > 0:
            del node[idx]
            yield c


def shrink(pid, cfg, case, bad_bits, mode, seed, tier, budget=40):
    """Greedy delta-debugging: keep a smaller input while the same verdict bits stay set."""
    if cfg.get("no_shrink"):
        return case
    # an input that carries generator-side expectations ("expect") cannot be cut without recomputing them: a
    # shrunk variant could "fail" only because its expectation went stale, and the replay must be a genuine
    # failing input; such cases are reported as generated
    if isinstance(case.get("json"), dict) and case["json"].get("expect") is not None:
        return case
    cur = case
    tries = 0
    improved = True
    while improved and tries < budget:
        improved = False
        cands = []
        for c in shrink_candidates(cur["json"]):
            cands.append(c)
            if len(cands) >= 24:
                break
        if not cands:
            break
        tmp = os.path.join(CASES, f"{pid}_shrink_in.jsonl")
        with open(tmp, "w") as f:
            for c in cands:
                f.write(json.dumps(c) + "\n")
        rc, lines, err = run_harness(pid, seed, tier, replay=tmp, timeout=300)
        tries += 1
        ok = [ln for ln in lines if ln.get("coq")]
        if not ok:
            break
        vs, _ = eval_cases(pid + "_shrink", cfg, ok, mode)
        for ln, v in zip(ok, vs):
            if v is not None and (v & bad_bits) == bad_bits and len(json.dumps(ln["json"])) < len(json.dumps(cur["json"])):
                cur = ln
                improved = True
                break
    return cur


# ------------------------------------------------------------------------------- bulk runs (extracted model)
def run_bulk(pid, spec, tier):
    """spec: {"script": "tools/bulk16.py", "args": [...thorough...], "quick_args": [...], "kind": "c16" | "c03"}.
    Returns (summary, problem, violation)."""
    cmd = ["python3", os.path.join(ROOT, spec["script"])] + (spec.get("args", []) if tier == "thorough" else spec.get("quick_args", ["--quick"]))
    extra = os.environ.get("VERIF_BULK_ARGS")
    if extra:
        cmd = ["python3", os.path.join(ROOT, spec["script"])] + extra.split()
    try:
        r = subprocess.run(cmd, capture_output=True, text=True, timeout=int(os.environ.get("VERIF_BULK_TIMEOUT", "3000")), cwd=ROOT)
    except subprocess.TimeoutExpired:
        return None, {"kind": "bulk", "what": spec["script"], "detail": "timed out"}, None
    try:
        summ = json.loads(r.stdout[r.stdout.index("{"):])
    except Exception:
        return None, {"kind": "bulk", "what": spec["script"], "detail": (r.stdout[-400:] + r.stderr[-800:])}, None
    keep = {k: summ.get(k) for k in ("cases", "mismatches", "specfail", "impl_panics", "errors", "wall_s")}
    keep["jobs"] = [{k: j.get(k) for k in ("job", "alphabet", "max_len", "ctx", "filters", "cuts", "cases", "random") if k in j} for j in summ.get("jobs", [])]
    keep["what"] = spec.get("what", "") if tier == "thorough" else spec.get("quick_what", "")
    keep["extraction"] = "Require Extraction; Require ExtrOcamlBasic; Extraction of the run modules only (mlrun/Extract*.v): no Extract Constant, no Extract Inductive of our own; N / positive / nat stay the extracted inductives; drivers mlrun/main*.ml (hex and int conversions, rendering) are hand-written glue"
    errs = summ.get("errors") or 0
    bad = (summ.get("mismatches") or 0) + (summ.get("specfail") or 0) + (summ.get("impl_panics") or 0) + (errs if isinstance(errs, int) else len(errs))
    if r.returncode == 0 and not bad:
        return keep, None, None
    lines = summ.get("first_mismatches") or []
    keep["first_reports"] = lines[:5]
    # a feeder that stopped on a non-returning call names the input (hex) on stderr
    job_errors = " ".join(str(e) for j in summ.get("jobs", []) for e in (j.get("errors") or [])) + " " + (r.stderr or "")
    mh = re.search(r"HANG [^\n]*?\(hex\) ([0-9a-f]*)", job_errors)
    if mh and spec.get("kind") == "c16":
        case = {"bytes": list(bytes.fromhex(mh.group(1)))}
        return keep, None, {"case": {"json": case, "extra": {"bulk": "feeder stopped: " + mh.group(0)[:300]}}, "why": "bulk run: the tokenizer did not return within 20 s on this input (non-termination; the property demands termination after at most one token per byte)"}
    # a SPECFAIL / implementation panic line carries a concrete input on which the property fails
    for ln in lines:
        parts = ln.split("\t")
        if parts and parts[0] in ("SPECFAIL", "IMPLPANIC") and len(parts) > 1:
            case = bulk_case_json(spec.get("kind"), parts[1])
            if case is not None:
                return keep, None, {"case": {"json": case, "extra": {"bulk_line": ln[:2000]}}, "why": "bulk run (extracted model): " + spec.get("spec_text", "the property fails on the implementation's observation of this input")}
    # C03: the implementation's observation is "<output fed whole>,<output fed in chunks>"; when the two differ on a MISMATCH
    # line the implementation itself breaks chunk invariance on that case, whatever the model says
    if spec.get("kind") == "c03":
        for ln in lines:
            parts = ln.split("\t")
            if parts and parts[0] == "MISMATCH" and len(parts) > 2 and parts[2].startswith("impl=") and not parts[2].startswith("impl=!"):
                obs = parts[2][5:].split(",")
                if len(obs) == 2 and obs[0] != obs[1]:
                    try:
                        whole, chunked = bytes.fromhex(obs[0]), bytes.fromhex(obs[1])
                    except ValueError:
                        continue
                    case = bulk_case_json("c03", parts[1])
                    case["impl_output_whole"] = whole.decode("utf-8", "replace")
                    case["impl_output_chunked"] = chunked.decode("utf-8", "replace")
                    return keep, None, {"case": {"json": case, "extra": {"bulk_line": ln[:2000]}}, "why": "bulk run: the implementation's output for the body fed whole differs from its output for the same body fed in these chunks (chunk invariance)"}
    detail = "; ".join(l[:400] for l in lines[:3]) or (job_errors[-600:])
    return keep, {"kind": "correspondence", "what": "bulk run: extracted model and implementation disagree", "detail": detail, "count": summ.get("mismatches")}, None


def bulk_case_json(kind, case_line):
    try:
        f = case_line.split(";")
        if kind == "c16":
            d = {"bytes": list(bytes.fromhex(f[0]))}
            if len(f) > 1 and f[1]:
                d["ctx"] = bytes.fromhex(f[1]).decode("utf-8", "replace")
            return d
        return {"bulk_case": case_line}
    except Exception:
        return None


# ------------------------------------------------------------------------------- known findings
def load_known():
    p = os.path.join(ROOT, "known_findings.json")
    if not os.path.exists(p):
        return []
    return json.load(open(p)).get("findings", [])


# ------------------------------------------------------------------------------- main
def main():
    args = sys.argv[1:]
    if not args:
        print("usage: check.py Cxx [--replay FILE]")
        return 2
    pid = args[0]
    replay = None
    if "--replay" in args:
        replay = args[args.index("--replay") + 1]
    tier = os.environ.get("VERIF_TIER", "quick")
    if tier not in ("quick", "thorough"):
        tier = "quick"
    try:
        seed = int(os.environ.get("VERIF_SEED", "1"))
    except ValueError:
        seed = 1
    if pid not in props.PROPS:
        print(f"unknown property {pid}")
        return 2
    cfg = props.PROPS[pid]
    t0 = time.time()
    os.makedirs(CASES, exist_ok=True)
    os.makedirs(os.path.join(ROOT, "evidence"), exist_ok=True)
    os.makedirs(os.path.join(ROOT, "replays", pid), exist_ok=True)

    problems = []      # things that break the proof/tie: each {kind, detail}
    violations = []    # concrete failing inputs: {input, ...}
    known_hits = {}
    notes = []

    # 1. translators
    gen_res = gen_tables.generate()
    gen_needed = cfg.get("gen_sections", [])
    gen_ok = True
    for sec in gen_needed:
        if gen_res.get(sec):
            gen_ok = False
            problems.append({"kind": "translator", "what": f"gen_tables section {sec}", "detail": gen_res[sec]})

    # the tables of the last run in which every translator section succeeded are kept (build/gen_good): when a section fails
    # now, the SEARCH for a failing input (never the proofs) may still run the model with them
    gen_dir = os.path.join(COQ, "gen")
    good_dir = os.path.join(ROOT, "build", "gen_good")
    if all(not v for v in gen_res.values()):
        os.makedirs(good_dir, exist_ok=True)
        for fn in os.listdir(gen_dir):
            if fn.startswith("Ext") and fn.endswith(".v"):
                txt = open(os.path.join(gen_dir, fn), encoding="utf-8").read()
                dst = os.path.join(good_dir, fn)
                if not os.path.exists(dst) or open(dst, encoding="utf-8").read() != txt:
                    open(dst, "w", encoding="utf-8").write(txt)

    # 2. proofs
    prop_mods = [pid] + list(cfg.get("extra_props", []))      # further statement files of the same property
    names = []
    pins = json.load(open(os.path.join(HERE, "pins.json"))) if os.path.exists(os.path.join(HERE, "pins.json")) else {}
    for mod in prop_mods:
        prop_file = os.path.join(COQ, "properties", f"{mod}.v")
        names += theorem_names(prop_file)
        sha = hashlib.sha256(open(prop_file, "rb").read()).hexdigest()
        if pins.get(mod) and pins[mod] != sha:
            problems.append({"kind": "pin", "what": f"properties/{mod}.v", "detail": f"statement file hash {sha} differs from pinned {pins[mod]}"})
    forb = forbidden_scan()
    if forb:
        problems.append({"kind": "forbidden-token", "what": "coq development", "detail": "; ".join(forb[:10])})
    run_targets = [r.replace("RIO.", "theories/") + ".vo" for r in cfg["run_requires"]]
    rc, mk_out = make_targets([f"properties/{m}.vo" for m in prop_mods] + run_targets)
    proofs_ok = rc == 0
    coqchk_report = {"ran": False}
    assumptions = {}
    discharged = 0
    if proofs_ok:
        rc2, assumptions, a_out = print_assumptions(pid, names)
        for n in names:
            ok, axs = audit_assumptions(assumptions.get(n))
            if ok:
                discharged += 1
            else:
                problems.append({"kind": "assumptions", "what": n, "detail": f"Print Assumptions {n}: {assumptions.get(n)}"})
        if tier == "thorough" and os.environ.get("VERIF_COQCHK", "1") != "0":
            ck_ok, ck_summary, ck_tail = coqchk_audit(pid)
            coqchk_report = {"ran": True, "ok": ck_ok, "summary": ck_summary}
            if not ck_ok:
                problems.append({"kind": "coqchk", "what": f"coqchk RIOProps.{pid}", "detail": ck_tail})
    else:
        items = failing_items(mk_out)
        if not items:
            items = [{"file": f"properties/{pid}.v", "line": 0, "statement": None, "message": mk_out[-600:]}]
        for it in items:
            problems.append({"kind": "proof", "what": f"{it['file']}:{it['line']} {it['statement'] or ''}".strip(), "detail": it["message"]})
    # a failed translator section: the proofs above are reported as they are; for the search only, put the last good tables back
    stale_tables = []
    if not all(not v for v in gen_res.values()):
        failed = [k for k, v in gen_res.items() if v]
        if all(os.path.exists(os.path.join(good_dir, f"Ext{k}.v")) for k in failed):
            for k in failed:
                shutil.copyfile(os.path.join(good_dir, f"Ext{k}.v"), os.path.join(gen_dir, f"Ext{k}.v"))
                stale_tables.append(k)
            make_targets(run_targets)
            if not gen_ok:
                notes.append("search for a failing input run with the tables of the last run in which the translator succeeded: " + ", ".join(stale_tables))
    # can the model / reference still be evaluated?
    run_ok = all(os.path.exists(os.path.join(COQ, t)) and os.path.getmtime(os.path.join(COQ, t)) >= os.path.getmtime(os.path.join(COQ, t[:-1])) for t in run_targets)
    gen_vo_ok = True
    for g in cfg.get("gen_requires", []):
        gv = os.path.join(COQ, "gen", g.split(".")[-1] + ".vo")
        src = gv[:-1]
        if not (os.path.exists(gv) and os.path.getmtime(gv) >= os.path.getmtime(src)):
            rcg, _ = make_targets([os.path.relpath(gv, COQ)])
            if rcg != 0:
                gen_vo_ok = False
    mode = "full" if ((gen_ok or stale_tables) and gen_vo_ok) else "spec"
    if not run_ok:
        problems.append({"kind": "model-build", "what": ",".join(run_targets), "detail": mk_out[-800:]})

    # 3. harness
    rc, herr = build_harness()
    cases = []
    coverage_extra = {}
    if rc != 0:
        problems.append({"kind": "harness-build", "what": "cargo build of the harness against /repo", "detail": herr})
    else:
        corpus_dir = os.path.join(ROOT, "corpus", pid)
        corpus_cases = []
        if replay is None and os.path.isdir(corpus_dir):
            tmp = os.path.join(CASES, f"{pid}_corpus.jsonl")
            n = 0
            corpus_meta = []
            with open(tmp, "w") as f:
                for fn in sorted(os.listdir(corpus_dir)):
                    if fn.endswith(".json"):
                        j = json.load(open(os.path.join(corpus_dir, fn)))
                        f.write(json.dumps(j.get("input", j)) + "\n")
                        corpus_meta.append({"file": fn, "known_finding": j.get("known_finding")})
                        n += 1
            if n:
                _, corpus_cases, _ = run_harness(pid, seed, tier, replay=tmp)
                for c in corpus_cases:
                    c.setdefault("tags", []).append("corpus")
                    if c.get("id") is not None and c["id"] < len(corpus_meta):
                        c["corpus_file"] = corpus_meta[c["id"]]["file"]
                        c["known_finding"] = corpus_meta[c["id"]]["known_finding"]
        rc, gen_cases, herr = run_harness(pid, seed, tier, replay=replay)
        if rc != 0:
            problems.append({"kind": "harness-run", "what": f"rio-harness {pid} exited {rc}", "detail": herr})
            # the harness names the input it was running when the process was killed (invalid free, stack overflow, abort)
            mcr = re.search(r"CRASHED-ON (\w+) (\{.*\}|\[.*\])\s*$", herr, re.M)
            if mcr:
                try:
                    violations.append({"case": {"json": json.loads(mcr.group(2)), "extra": {"signal": mcr.group(1)}},
                                       "why": f"the process running the crate was killed by {mcr.group(1)} on this input (memory fault, stack overflow or abort inside the library or at the release of something it handed out)"})
                except json.JSONDecodeError:
                    pass
        cases = corpus_cases + gen_cases

    # 4. evaluate in Coq
    evaluated = 0
    model_diff = []
    spec_diff = []
    panics = [c for c in cases if not c.get("coq")]
    live = [c for c in cases if c.get("coq")]
    for c in panics:
        if cfg.get("panic_is_violation", True):
            violations.append({"case": c, "why": "the implementation panicked: " + str(c.get("extra", {}).get("panic"))})
    verdicts = []
    if live and run_ok:
        verdicts, verr = eval_cases(pid, cfg, live, mode)
        if verr:
            problems.append({"kind": "coq-eval", "what": "cases evaluation", "detail": verr[-800:]})
        known = [k for k in load_known() if k.get("property") == pid and k.get("status") == "open"]
        for c, v in zip(live, verdicts):
            if v is None:
                continue
            evaluated += 1
            if v == 0:
                continue
            if c.get("known_finding") and (v & cfg.get("spec_bits", 4)):
                # a committed corpus case that reproduces a LISTED open finding: reported, not an alarm
                k = next((k for k in known if k.get("name") == c["known_finding"]), None)
                if k is not None:
                    known_hits.setdefault(k["name"], {"finding": k, "count": 0, "example": c["json"]})
                    known_hits[k["name"]]["count"] += 1
                    continue
            kcode = v >> 8
            if kcode:
                k = next((k for k in known if k.get("code") == kcode), None)
                if k is not None:
                    known_hits.setdefault(k["name"], {"finding": k, "count": 0, "example": c["json"]})
                    known_hits[k["name"]]["count"] += 1
                    continue
            if v & cfg.get("spec_bits", 4):
                spec_diff.append((c, v))
            elif v & cfg.get("model_bits", 3):
                model_diff.append((c, v))

    # 5. classify
    for c, v in spec_diff[:1]:
        small = shrink(pid, cfg, c, v & cfg.get("spec_bits", 4), mode, seed, tier)
        violations.append({"case": small, "why": cfg["spec_diff_text"], "verdict": v, "original": c["json"]})
    if model_diff and not spec_diff:
        c, v = model_diff[0]
        small = shrink(pid, cfg, c, v & cfg.get("model_bits", 3), mode, seed, tier)
        problems.append({"kind": "correspondence", "what": "model and implementation disagree", "detail": json.dumps(small["json"])[:1500], "count": len(model_diff)})

    # 5b. bulk correspondence with the model EXTRACTED to OCaml (mlrun/; a small job list in the quick tier): orders of magnitude more
    # cases than the vm_compute route, exhaustive over small alphabets; supports the tie, never replaces a theorem
    bulk_summary = None
    if cfg.get("bulk") and rc == 0 and run_ok and replay is None and os.environ.get("VERIF_BULK", "1") != "0":
        bulk_summary, bulk_problem, bulk_violation = run_bulk(pid, cfg["bulk"], tier)
        if bulk_violation and not violations:
            violations.append(bulk_violation)
        elif bulk_problem:
            problems.append(bulk_problem)

    # 6. report
    wall = time.time() - t0
    distinct = set()
    tag_hist = {}
    for c in live:
        if c.get("nontrivial"):
            distinct.add(hashlib.sha1(json.dumps(c["json"], sort_keys=True).encode()).hexdigest())
        for tg in c.get("tags", []):
            tag_hist[tg] = tag_hist.get(tg, 0) + 1
    translator_obl = len(gen_needed)
    obligations = len(names) + translator_obl + 1
    corr_ok = (rc == 0 and evaluated == len(live) and evaluated > 0 and not model_diff and not spec_diff and not panics) or (evaluated > 0 and not model_diff and not spec_diff and all(p["kind"] not in ("correspondence", "coq-eval", "harness-run", "harness-build") for p in problems) and not [x for x in violations])
    disc = discharged + sum(1 for s in gen_needed if not gen_res.get(s)) + (1 if corr_ok else 0)
    trusted = list(props.TRUSTED_COMMON) + cfg.get("trusted", [])
    for n in names:
        trusted.append(f"Print Assumptions {n}: " + (" ".join((assumptions.get(n) or '<not built>').split())))
    samples = [{"input": c["json"], "impl": c.get("extra")} for c in (live[:1] + live[len(live) // 2: len(live) // 2 + 1] + live[-1:])]
    ev = {
        "property_id": pid, "tier": tier, "seed": seed, "level": "proof",
        "coverage": {
            "obligations": obligations, "discharged": disc,
            "checker_cmd": f"make -C coq properties/{pid}.vo (coqc 8.16.1) ; coqc Print Assumptions per theorem ; vm_compute verdicts over harness cases" + (f" ; coqchk -o RIOProps.{pid}: {coqchk_report.get('summary')}" if coqchk_report.get("ran") else ""),
            "trusted_base": trusted,
            "theorems": names,
            "evaluations": len(cases), "distinct_nontrivial": len(distinct),
            "rule": cfg["rule"],
            "samples": samples,
            "traces_validated_against_impl": evaluated,
            "model_vs_impl_disagreements": len(model_diff),
            "reference_vs_impl_disagreements": len(spec_diff),
            "known_findings_hit": {k: v["count"] for k, v in known_hits.items()},
            "generator_distribution": dict(sorted(tag_hist.items())),
            "mode": mode,
            "exhaustive": False,
            "explanation": cfg.get("explanation", ""),
        },
        "assumptions": cfg.get("assumptions", []),
        "wall_s": round(wall, 2),
        "violations": len(violations) + (1 if (problems and not violations) else 0),
    }
    ev["coverage"].update(cfg.get("coverage_extra", {}))
    if bulk_summary is not None:
        ev["coverage"]["bulk_extracted_model"] = bulk_summary
    if tier == "thorough" and cfg.get("exhaustive_note_thorough"):
        ev["coverage"]["exhaustive_subspace"] = cfg["exhaustive_note_thorough"]
    elif cfg.get("exhaustive_note_quick"):
        ev["coverage"]["exhaustive_subspace"] = cfg["exhaustive_note_quick"]
    json.dump(ev, open(os.path.join(ROOT, "evidence", f"{pid}.json"), "w"), indent=1, ensure_ascii=False)

    for name, kh in known_hits.items():
        log(f"KNOWN-FINDING: property={pid} {name}: {kh['finding'].get('what', '')} ({kh['count']} cases, e.g. {json.dumps(kh['example'])[:200]})")
    # listed findings that are decided statically (witness lemmas) are printed by cfg hook
    for line in cfg.get("static_known", []):
        log(f"KNOWN-FINDING: property={pid} {line}")

    status = 0
    if violations:
        v = violations[0]
        rp = os.path.join(ROOT, "replays", pid, f"seed{seed}-{int(time.time())}.json")
        json.dump({"property": pid, "input": v["case"]["json"], "impl": v["case"].get("extra"), "why": v["why"],
                   "original_input": v.get("original"), "problems": problems,
                   "replay_cmd": f"python3 tools/check.py {pid} --replay {rp}"}, open(rp, "w"), indent=1, ensure_ascii=False)
        log(f"VIOLATION property={pid} replay={rp}")
        status = 1
    elif problems:
        rp = os.path.join(ROOT, "replays", pid, f"seed{seed}-{int(time.time())}-unproved.json")
        json.dump({"property": pid, "no_failing_input_found": True,
                   "no_longer_checks": problems,
                   "searched": {"cases": len(cases), "evaluated_in_coq": evaluated, "mode": mode + (" (tables of the last good translator run: " + ",".join(stale_tables) + ")" if stale_tables else "")},
                   "replay_cmd": f"python3 tools/check.py {pid}"}, open(rp, "w"), indent=1, ensure_ascii=False)
        for p in problems[:5]:
            log(f"  broken: {p['kind']}: {p['what']}: {str(p['detail'])[:300]}")
        log(f"VIOLATION property={pid} replay={rp} no-failing-input-found")
        status = 1
    else:
        log(f"OK property={pid} tier={tier} theorems={len(names)} obligations={disc}/{obligations} cases={len(cases)} evaluated={evaluated} nontrivial={len(distinct)} wall={wall:.1f}s")
    return status


if __name__ == "__main__":
    sys.exit(main())
