#!/bin/sh
# Runs the quick check of every property registered in MANIFEST.json (refreshes evidence/*.json); prints a summary.
cd "$(dirname "$0")/.."
fail=0
for id in $(python3 -c "import json; print(' '.join(c['property_id'] for c in json.load(open('MANIFEST.json'))['checks']))") "$@"; do
  out=$(python3 tools/check.py "$id" 2>&1 | grep -E "^(OK|VIOLATION)" | tail -1)
  echo "$id: $out"
  case "$out" in OK*) ;; *) fail=1;; esac
done
exit $fail
