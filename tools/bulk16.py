#!/usr/bin/env python3
"""bulk16.py — bulk correspondence check of C16 (HTML tokenizer) against the Coq model EXTRACTED to OCaml.

For every job it launches k pipelines   rio-harness bulk16 ... --shard i/k  |  mlrun/_build/tokrun --check
(the harness runs the real Tokenizer on every string, tokrun recomputes the observation with the extracted Coq
definitions RIO.C16Run.tokenize / spec_ok and prints only the disagreements), aggregates, prints a JSON summary and
exits 0 iff there is no mismatch, no spec failure, no implementation panic and every count is the expected one.

usage: tools/bulk16.py [--shards K] [--job ALPHABET:LEN[:CTX[:MINLEN]]]... [--random ALPHABET:MINLEN:LEN:N[:CTX]]...
                       [--seed S] [--max-report M] [--no-build] [--quick] [--snapshot]
  ALPHABET  c16 | markup12 | xmp12 | script12 | hex,hex,...   (see harness/src/bulk16.rs)
  --job     exhaustive: every string of MINLEN..LEN symbols;  --random: N random strings of MINLEN..LEN symbols
  without --job/--random: the default job list below (env BULK16_JOBS / BULK16_RANDOM: space separated specs)
  --quick   a 10 second version of the defaults
  --snapshot  build/run the harness against a private copy of the crate's HEAD commit (not its working tree)
env: BULK16_SHARDS, BULK16_SEED, CARGO_TARGET_DIR (default <root>/build/target if <root>/build exists, else <root>/target)
"""
import json
import os
import subprocess
import sys
import time

ROOT = os.path.dirname(os.path.dirname(os.path.abspath(__file__)))
TARGET = os.environ.get("CARGO_TARGET_DIR") or (
    os.path.join(ROOT, "build", "target") if os.path.isdir(os.path.join(ROOT, "build")) else os.path.join(ROOT, "target"))
HARNESS = os.path.join(TARGET, "release", "rio-harness")
TOKRUN = os.path.join(ROOT, "mlrun", "_build", "tokrun")
BODYRUN = os.path.join(ROOT, "mlrun", "_build", "bodyrun")

# Defaults, chosen from the measured throughput: 1.1e9 cases, about 7.5 min measured on 16 cores SHARED with other jobs
# (load average 6..25): c16:6 36 s, markup12:8 200 s, xmp12:7 15 s, script12:8 178 s, random 40 s.  On a smaller machine
# lower markup12 / script12 to 7 (39 M strings, 15 s each here).
DEFAULT_JOBS = ["c16:6", "markup12:8", "xmp12:7:xmp", "script12:8:script"]
DEFAULT_RANDOM = ["c16:8:40:20000000", "script12:8:40:10000000:script"]
QUICK_JOBS = ["c16:5", "markup12:6", "xmp12:6:xmp", "script12:6:script"]
QUICK_RANDOM = ["c16:6:40:1000000"]

ALPHABET_SIZES = {"c16": 21, "markup12": 12, "xmp12": 12, "script12": 12, "body10": 10, "tag6": 6, "frag18": 18}


def build(snapshot=False):
    """mlrun (extraction + ocamlopt) and the harness.  snapshot=True: the harness is built against a private copy of the
    crate's HEAD commit (git archive into <root>/repo_head, cargo --config paths=[..], target dir <target>_head) instead of
    the crate's working tree, so that the result does not depend on uncommitted or concurrent edits of the crate."""
    global HARNESS
    env = dict(os.environ, PUBLISH_SKIP_BUILD="1", CARGO_NET_OFFLINE="true", CARGO_TARGET_DIR=TARGET)
    subprocess.run([os.path.join(ROOT, "mlrun", "build.sh")], check=True, stdout=sys.stderr)
    hdir = os.path.join(ROOT, "harness")
    lock = os.path.join(hdir, "Cargo.lock")
    if not os.path.exists(lock):
        open(lock, "w").write(open(os.path.join(hdir, "Cargo.lock.pinned")).read())
    cmd = ["cargo", "build", "--release", "--offline", "-q"]
    if snapshot:
        import re
        import shutil
        crate = re.search(r'redirectionio\s*=\s*\{\s*path\s*=\s*"([^"]+)"', open(os.path.join(hdir, "Cargo.toml")).read()).group(1)
        snap = os.path.join(ROOT, "repo_head")
        shutil.rmtree(snap, ignore_errors=True)
        os.makedirs(snap)
        subprocess.run(f'git -C "{crate}" archive HEAD | tar -x -C "{snap}"', shell=True, check=True)
        commit = subprocess.run(["git", "-C", crate, "rev-parse", "HEAD"], capture_output=True, text=True, check=True).stdout.strip()
        open(os.path.join(snap, ".snapshot_commit"), "w").write(commit + "\n")
        sys.stderr.write(f"harness built against a snapshot of {crate} at {commit}\n")
        env["CARGO_TARGET_DIR"] = TARGET + "_head"
        cmd += ["--config", f'paths=["{snap}"]']
        HARNESS = os.path.join(TARGET + "_head", "release", "rio-harness")
    subprocess.run(cmd, cwd=hdir, env=env, check=True, stdout=sys.stderr, stderr=subprocess.DEVNULL)


def alphabet_size(name):
    return ALPHABET_SIZES.get(name) or len(name.split(","))


def run_pipelines(feed_cmd, checker, stat_prefix, shards, max_report):
    """k pipelines  feed_cmd(i) | checker --check ; returns the aggregated counters.
    feed stderr carries one line '<stat_prefix> shard=i/k key=value ...', checker stdout the reports and 'checked=..'."""
    t0 = time.time()
    procs = []
    for i in range(shards):
        h = subprocess.Popen(feed_cmd(i), stdout=subprocess.PIPE, stderr=subprocess.PIPE)
        t = subprocess.Popen([checker, "--check"], stdin=h.stdout, stdout=subprocess.PIPE, stderr=subprocess.PIPE,
                             env=dict(os.environ, TOKRUN_MAXREPORT=str(max_report)))
        h.stdout.close()
        procs.append((h, t))
    res = {"cases": 0, "fed": 0, "mismatches": 0, "specfail": 0, "impl_panics": 0, "first_mismatches": [], "errors": [], "feed_stats": {}}
    for i, (h, t) in enumerate(procs):
        out, terr = t.communicate()
        herr = h.stderr.read().decode("utf-8", "replace")
        h.wait()
        final = None
        for ln in out.decode("utf-8", "replace").split("\n"):
            if ln.startswith("checked="):
                final = dict(kv.split("=") for kv in ln.split())
            elif ln and len(res["first_mismatches"]) < max_report:
                res["first_mismatches"].append(ln)
        if final is None or t.returncode not in (0, 1):
            res["errors"].append(f"shard {i}: checker rc={t.returncode} {terr.decode('utf-8', 'replace')[-300:]}")
        else:
            res["cases"] += int(final["checked"])
            res["mismatches"] += int(final["mismatches"])
            res["specfail"] += int(final["specfail"])
        stats = None
        for ln in herr.split("\n"):
            if ln.startswith(stat_prefix + " shard="):
                stats = dict(kv.split("=") for kv in ln.split()[1:])
        if h.returncode != 0 or stats is None:
            res["errors"].append(f"shard {i}: harness rc={h.returncode} {herr[-300:]}")
        else:
            res["fed"] += int(stats["cases"])
            res["impl_panics"] += int(stats["panics"])
            for k, v in stats.items():
                if k in ("shard", "cases", "panics"):
                    continue
                if v.isdigit():
                    res["feed_stats"][k] = res["feed_stats"].get(k, 0) + int(v)
                else:
                    res["feed_stats"][k] = v
    res["wall_s"] = round(time.time() - t0, 2)
    res["cases_per_s"] = int(res["cases"] / max(res["wall_s"], 1e-3))
    return res


def finish(res, expected):
    """count checks and the verdict of one job"""
    if expected is not None:
        res["expected_cases"] = expected
        if res["cases"] != expected or res["fed"] != expected:
            res["errors"].append(f"count: expected {expected}, harness fed {res['fed']}, checker checked {res['cases']}")
    elif res["cases"] != res["fed"]:
        res["errors"].append(f"count: harness fed {res['fed']}, checker checked {res['cases']}")
    res["ok"] = not res["errors"] and res["mismatches"] == 0 and res["specfail"] == 0 and res["impl_panics"] == 0
    return res


def run_job(job, shards, max_report):
    """job: dict(alphabet, min_len, max_len, ctx, random (None or N), seed)"""
    def cmd(i):
        c = [HARNESS, "bulk16", "--alphabet", job["alphabet"], "--len", str(job["max_len"]), "--minlen", str(job["min_len"]),
             "--shard", f"{i}/{shards}"]
        if job["ctx"]:
            c += ["--ctx", job["ctx"]]
        if job["random"] is not None:
            c += ["--random", str(job["random"]), "--seed", str(job["seed"])]
        return c
    res = {"alphabet": job["alphabet"], "min_len": job["min_len"], "max_len": job["max_len"], "ctx": job["ctx"],
           "mode": "exhaustive" if job["random"] is None else f"random seed={job['seed']}"}
    res.update(run_pipelines(cmd, TOKRUN, "bulk16", shards, max_report))
    if job["random"] is None:
        a = alphabet_size(job["alphabet"])
        expected = sum(a ** l for l in range(job["min_len"], job["max_len"] + 1))
    else:
        expected = job["random"]
    return finish(res, expected)


def parse_job(spec):
    p = spec.split(":")
    return {"alphabet": p[0], "max_len": int(p[1]), "ctx": p[2] if len(p) > 2 else "", "min_len": int(p[3]) if len(p) > 3 else 0,
            "random": None, "seed": 0}


def parse_random(spec, seed):
    p = spec.split(":")
    return {"alphabet": p[0], "min_len": int(p[1]), "max_len": int(p[2]), "random": int(p[3]), "ctx": p[4] if len(p) > 4 else "",
            "seed": seed}


def summary_of(prop, shards, results, max_report, t0):
    first = []
    for r in results:
        first += r["first_mismatches"]
    return {
        "property": prop, "shards": shards,
        "alphabet": [r["alphabet"] + (":ctx=" + r["ctx"] if r.get("ctx") else "") for r in results],
        "max_len": [r["max_len"] for r in results],
        "cases": sum(r["cases"] for r in results),
        "mismatches": sum(r["mismatches"] for r in results),
        "specfail": sum(r["specfail"] for r in results),
        "impl_panics": sum(r["impl_panics"] for r in results),
        "errors": sum(len(r["errors"]) for r in results),
        "first_mismatches": first[:max_report],
        "wall_s": round(time.time() - t0, 2),
        "jobs": results,
    }


def main(argv):
    shards = int(os.environ.get("BULK16_SHARDS", os.cpu_count() or 1))
    seed = int(os.environ.get("BULK16_SEED", "1"))
    max_report = 20
    jobs, rnd, do_build, quick, snapshot = [], [], True, False, False
    i = 1
    while i < len(argv):
        a = argv[i]
        if a == "--shards":
            shards = int(argv[i + 1]); i += 2
        elif a == "--job":
            jobs.append(argv[i + 1]); i += 2
        elif a == "--random":
            rnd.append(argv[i + 1]); i += 2
        elif a == "--seed":
            seed = int(argv[i + 1]); i += 2
        elif a == "--max-report":
            max_report = int(argv[i + 1]); i += 2
        elif a == "--no-build":
            do_build = False; i += 1
        elif a == "--quick":
            quick = True; i += 1
        elif a == "--snapshot":
            snapshot = True; i += 1
        else:
            sys.stderr.write(__doc__)
            return 2
    if not jobs and not rnd:
        jobs = os.environ.get("BULK16_JOBS", " ".join(QUICK_JOBS if quick else DEFAULT_JOBS)).split()
        rnd = os.environ.get("BULK16_RANDOM", " ".join(QUICK_RANDOM if quick else DEFAULT_RANDOM)).split()
    if do_build:
        build(snapshot)
    elif snapshot:
        global HARNESS
        HARNESS = os.path.join(TARGET + "_head", "release", "rio-harness")
    t0 = time.time()
    results = []
    for spec in jobs:
        results.append(run_job(parse_job(spec), shards, max_report))
        sys.stderr.write(f"job {spec}: {results[-1]['cases']} cases, {results[-1]['mismatches']} mismatches, {results[-1]['wall_s']} s\n")
    for spec in rnd:
        results.append(run_job(parse_random(spec, seed), shards, max_report))
        sys.stderr.write(f"random {spec}: {results[-1]['cases']} cases, {results[-1]['mismatches']} mismatches, {results[-1]['wall_s']} s\n")
    print(json.dumps(summary_of("C16", shards, results, max_report, t0), indent=1))
    return 0 if all(r["ok"] for r in results) else 1


if __name__ == "__main__":
    sys.exit(main(sys.argv))
