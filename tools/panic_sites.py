#!/usr/bin/env python3
"""C07: source-derived inventory of the syntactic sites of /repo/src that can panic, abort or diverge.

Pure text -> data.  Deterministic, no line numbers in the key:

    key = (file, enclosing fn, kind, ordinal of that kind within the fn, hash of the whitespace-normalised line)

`file` is relative to /repo/src; the enclosing fn is `Type::name` inside an `impl` block (closures and inner blocks
belong to the fn around them; code outside any fn is `<top>`); the hash is the first 32 bits of the SHA-1 of the
source line holding the first character of the site, comments removed and runs of white space collapsed.  So an edit
changes the inventory exactly when it adds / removes a site, or rewrites a line that carries one (or renames the fn):
comments, new lines without a site and edits of other lines do not.

What is scanned: every .rs file under src/ except the build script (src/build.rs; Cargo.toml `build = `), with the
items under `#[cfg(test)]` / `#[test]` removed.  tests/ and benches/ are outside src/.

Kinds (code, name, what the pattern is):
   1 unwrap    .unwrap() / .unwrap_err()
   2 expect    .expect( / .expect_err(
   3 macro     unreachable! panic! todo! unimplemented! assert! assert_eq! assert_ne! debug_assert*!
   4 index     e[i]      `[` directly after an identifier, `)`, `]`, `?` or a closing `"` (so: not a type, an attribute, a macro
                          bracket or an array literal: rustfmt separates those with a space or a sigil), no `..` at depth 0
   5 range     e[a..b]   the same with `..` at depth 0 of the brackets
   6 sub       binary `-` (a `-` followed by white space: rustfmt writes unary minus without it) and `-=`; the operand
                          types are not resolved: signed / float subtractions are listed too (conservative)
   7 cast      `as` u8 u16 u32 u64 usize i8 i16 i32 i64 isize (possibly narrowing; never panics by itself, the truncated
                          value flows into later sites)
   8 loop      `loop` / `while` (termination)
   9 rawptr    from_raw( from_raw_parts( from_raw_parts_mut( from_ptr(  (pointer contracts)
  10 copy      clone_from_slice( / copy_from_slice( (length contract)
  11 div       binary `/` `%` (followed by white space) and `/=` `%=`
  12 unsafe    `unsafe` block / fn / impl (not the attribute #[unsafe(..)])
  13 stdapi    method calls of std whose contract violation panics and that can be told by name:
               .swap_remove( .drain( .split_off( .split_at( .split_at_mut( .replace_range( .truncate( .copy_within(
               .rotate_left( .rotate_right( .borrow_mut( .remove(   and .insert(<digit>   (`.remove(` cannot be told from
               HashMap::remove syntactically: listed, the ledger says which is which)
  14 recurse   a call `self.g(`, `Self::g(` or a bare `g(` inside fn f where f and g (fns of the same file, by name) lie on
               a cycle of that call graph, f = g included (stack depth).  Recursion through another receiver (regex tree:
               Node::f -> child Item::f -> Node::f, depth = tree depth) has no syntactic handle and is NOT listed

NOT inventoried (no syntactic handle): panics inside callees of other crates and of std reached through ordinary calls
(Regex::new, RwLock poisoning, Vec::insert with a computed index, arithmetic overflow of + and * in builds with
overflow-checks, allocation failure).  They are covered by the search only.
"""
import hashlib
import json
import os
import re
from bisect import bisect_right

KINDS = {
    "unwrap": 1, "expect": 2, "macro": 3, "index": 4, "range": 5, "sub": 6, "cast": 7, "loop": 8, "rawptr": 9,
    "copy": 10, "div": 11, "unsafe": 12, "stdapi": 13, "recurse": 14,
}
KIND_NAMES = {v: k for k, v in KINDS.items()}
SKIP_FILES = {"build.rs"}
IDENT = set("abcdefghijklmnopqrstuvwxyzABCDEFGHIJKLMNOPQRSTUVWXYZ0123456789_")


class ScanError(Exception):
    pass


def blank(src):
    """-> (code, nocomment): same length as src; in `code` comments AND the contents of string/char literals are spaces,
    in `nocomment` only comments are."""
    n = len(src)
    code = list(src)
    noc = list(src)
    i = 0

    def fill(arr, a, b):
        for k in range(a, b):
            if arr[k] != "\n":
                arr[k] = " "

    while i < n:
        c = src[i]
        if c == "/" and i + 1 < n and src[i + 1] == "/":
            j = src.find("\n", i)
            j = n if j < 0 else j
            fill(code, i, j)
            fill(noc, i, j)
            i = j
        elif c == "/" and i + 1 < n and src[i + 1] == "*":
            depth = 1
            j = i + 2
            while j < n and depth:
                if src.startswith("/*", j):
                    depth += 1
                    j += 2
                elif src.startswith("*/", j):
                    depth -= 1
                    j += 2
                else:
                    j += 1
            fill(code, i, j)
            fill(noc, i, j)
            i = j
        elif c == '"' or (c in "rb" and (i == 0 or src[i - 1] not in IDENT) and re.match(r'(?:r#*"|br#*"|b")', src[i:i + 12])):
            m = re.match(r'(b?)(r?)(#*)"', src[i:i + 12])
            raw, hashes = m.group(2) == "r", m.group(3)
            j = i + m.end()
            if raw:
                end = src.find('"' + hashes, j)
                if end < 0:
                    raise ScanError("unterminated raw string")
                fill(code, j, end)
                i = end + 1 + len(hashes)
            else:
                while j < n and src[j] != '"':
                    j += 2 if src[j] == "\\" else 1
                if j >= n:
                    raise ScanError("unterminated string")
                fill(code, i + m.end(), j)
                i = j + 1
        elif c == "'" or (c == "b" and i + 1 < n and src[i + 1] == "'" and (i == 0 or src[i - 1] not in IDENT)):
            q = i if c == "'" else i + 1
            if q + 1 < n and src[q + 1] == "\\":
                j = src.find("'", q + 3)
                if j < 0:
                    raise ScanError("unterminated char literal")
                fill(code, q + 1, j)
                i = j + 1
            elif q + 2 < n and src[q + 2] == "'":
                fill(code, q + 1, q + 2)
                i = q + 3
            elif q + 1 < n and ord(src[q + 1]) >= 0x80:
                j = src.find("'", q + 1)
                fill(code, q + 1, j)
                i = j + 1
            else:
                i = q + 1  # a lifetime or a loop label
        else:
            i += 1
    return "".join(code), "".join(noc)


def match_close(code, p, op, cl):
    depth = 0
    n = len(code)
    while p < n:
        ch = code[p]
        if ch == op:
            depth += 1
        elif ch == cl:
            depth -= 1
            if depth == 0:
                return p
        p += 1
    raise ScanError(f"unbalanced {op}{cl}")


def drop_test_items(code):
    """Blanks every item that carries #[cfg(test)] or #[test]."""
    out = list(code)
    for m in re.finditer(r"#\[(?:cfg\(test\)|test)\]", code):
        if out[m.start()] == " ":
            continue  # already inside a removed item
        p = m.end()
        while True:
            mm = re.compile(r"\s*#!?\[").match(code, p)
            if not mm:
                break
            p = match_close(code, mm.end() - 1, "[", "]") + 1
        q = p
        depth = 0
        end = None
        while q < len(code):
            ch = code[q]
            if ch in "(<" and not (ch == "<" and code[q - 1] in " =<"):
                depth += 1 if ch == "(" else 0
            elif ch == ")":
                depth -= 1
            elif ch == ";" and depth == 0:
                end = q + 1
                break
            elif ch == "{" and depth == 0:
                end = match_close(code, q, "{", "}") + 1
                break
            q += 1
        if end is None:
            raise ScanError("cannot find the end of a #[cfg(test)] item")
        for k in range(m.start(), end):
            if out[k] != "\n":
                out[k] = " "
    return "".join(out)


TOKEN = re.compile(r"[A-Za-z_][A-Za-z0-9_]*|[{};]")


def contexts(code):
    """-> sorted list of (position, fn name) change points: the enclosing fn of every position."""
    stack = []  # entries: ("fn", name) | ("impl", type) | ("other", None)
    pending = None
    points = [(0, "<top>")]

    def current():
        fn = None
        for k in range(len(stack) - 1, -1, -1):
            if stack[k][0] == "fn":
                fn = k
                break
        if fn is None:
            return "<top>"
        for k in range(fn - 1, -1, -1):
            if stack[k][0] == "impl":
                return stack[k][1] + "::" + stack[fn][1]
            if stack[k][0] == "fn":
                break
        return stack[fn][1]

    pos = 0
    n = len(code)
    while True:
        m = TOKEN.search(code, pos)
        if not m:
            break
        t = m.group(0)
        pos = m.end()
        if t == "fn":
            mm = re.compile(r"\s+([A-Za-z_][A-Za-z0-9_]*)").match(code, pos)
            if mm:
                pending = ("fn", mm.group(1))
                pos = mm.end()
        elif t == "impl" and pending is None:
            # an item-level impl: header up to the opening brace (`impl Trait` in a signature comes after `fn name`,
            # i.e. with a pending fn, and is not looked at)
            q = code.find("{", pos)
            s = code.find(";", pos)
            if q >= 0 and (s < 0 or q < s) and code[pos:q].count("(") == code[pos:q].count(")"):
                pending = ("impl", impl_type(code[pos:q]))
                pos = q
        elif t == "{":
            if pending is not None:
                stack.append(pending)
                pending = None
            else:
                stack.append(("other", None))
            points.append((m.start(), current()))
        elif t == "}":
            if not stack:
                raise ScanError("unbalanced braces")
            stack.pop()
            points.append((m.end(), current()))
        elif t == ";":
            if pending is not None and pending[0] == "fn":
                pending = None  # a declaration without body
    if stack:
        raise ScanError("unbalanced braces at end of file")
    return points


def strip_generics(s):
    out = []
    depth = 0
    for ch in s:
        if ch == "<":
            depth += 1
        elif ch == ">":
            depth -= 1
        elif depth == 0:
            out.append(ch)
    return "".join(out)


def impl_type(header):
    h = strip_generics(re.split(r"\bwhere\b", " ".join(header.split()))[0])
    if " for " in h:
        h = h.split(" for ")[-1]
    ids = re.findall(r"[A-Za-z_][A-Za-z0-9_]*", h)
    ids = [x for x in ids if x not in ("dyn", "mut", "const", "unsafe")]
    return ids[-1] if ids else "?"


PATTERNS = [
    ("unwrap", re.compile(r"\.unwrap(?:_err)?\s*\(\s*\)")),
    ("expect", re.compile(r"\.expect(?:_err)?\s*\(")),
    ("macro", re.compile(r"\b(?:unreachable|panic|todo|unimplemented|assert|assert_eq|assert_ne|debug_assert|debug_assert_eq|debug_assert_ne)\s*!")),
    ("sub", re.compile(r"(?<![-=<>!&|+*/%^])-(?:=|(?=\s))")),
    ("cast", re.compile(r"\bas\s+(?:u8|u16|u32|u64|usize|i8|i16|i32|i64|isize)\b")),
    ("loop", re.compile(r"\b(?:loop|while)\b")),
    ("rawptr", re.compile(r"\b(?:from_raw|from_raw_parts|from_raw_parts_mut|from_ptr)\s*\(")),
    ("copy", re.compile(r"\b(?:clone_from_slice|copy_from_slice)\s*\(")),
    ("div", re.compile(r"(?<![/*])[/%](?:=|(?=\s))")),
    ("unsafe", re.compile(r"(?<!#\[)\bunsafe\b(?!\s*\()")),
    ("stdapi", re.compile(r"\.(?:swap_remove|drain|split_off|split_at|split_at_mut|replace_range|truncate|copy_within|rotate_left|rotate_right|borrow_mut|remove)\s*\(|\.insert\s*\(\s*\d")),
]


def sccs(nodes, edges):
    """Tarjan; -> dict node -> component id (iterative enough for the sizes here: recursion depth <= number of fns)."""
    adj = {n: [] for n in nodes}
    for f, g, _ in edges:
        adj[f].append(g)
    index = {}
    low = {}
    comp = {}
    stack = []
    on = set()
    counter = [0]

    def visit(v):
        index[v] = low[v] = counter[0]
        counter[0] += 1
        stack.append(v)
        on.add(v)
        for w in adj[v]:
            if w not in index:
                visit(w)
                low[v] = min(low[v], low[w])
            elif w in on:
                low[v] = min(low[v], index[w])
        if low[v] == index[v]:
            while True:
                w = stack.pop()
                on.discard(w)
                comp[w] = v
                if w == v:
                    break

    for n in nodes:
        if n not in index:
            visit(n)
    return comp


def scan_file(rel, src):
    code, noc = blank(src)
    code = drop_test_items(code)
    points = contexts(code)
    starts = [p for p, _ in points]
    line_starts = [0]
    for m in re.finditer("\n", src):
        line_starts.append(m.end())

    def fn_at(p):
        return points[bisect_right(starts, p) - 1][1]

    def line_hash(p):
        k = bisect_right(line_starts, p) - 1
        a = line_starts[k]
        b = line_starts[k + 1] if k + 1 < len(line_starts) else len(src)
        text = " ".join(noc[a:b].split())
        return int(hashlib.sha1(text.encode("utf-8")).hexdigest()[:8], 16), k + 1, text

    found = []  # (pos, kind)
    for kind, rx in PATTERNS:
        for m in rx.finditer(code):
            found.append((m.start(), kind))
    # index / range expressions
    for m in re.finditer(r"\[", code):
        p = m.start()
        if p == 0 or code[p - 1] not in IDENT and code[p - 1] not in ")]?\"":
            continue
        if code[p - 1] in IDENT:
            w = re.search(r"[A-Za-z_][A-Za-z0-9_]*$", code[max(0, p - 40):p])
            if w and w.group(0) in ("in", "return", "break", "else", "match", "if", "mut", "ref", "dyn", "as", "let", "const", "static", "where", "for", "impl"):
                continue
        q = match_close(code, p, "[", "]")
        inner = code[p + 1:q]
        depth = 0
        is_range = False
        for k, ch in enumerate(inner):
            if ch in "([{":
                depth += 1
            elif ch in ")]}":
                depth -= 1
            elif ch == "." and depth == 0 and inner[k:k + 2] == "..":
                is_range = True
        found.append((p, "range" if is_range else "index"))
    # recursion: call edges (direct forms only) between fns of this file that lie on a cycle of the call graph
    bodies = {}  # short name -> list of (start, end)
    for i, (p, name) in enumerate(points):
        if name == "<top>":
            continue
        end = points[i + 1][0] if i + 1 < len(points) else len(code)
        bodies.setdefault(name.split("::")[-1], []).append((p, end))
    if bodies:
        names_rx = re.compile(r"(?:\bself\s*\.\s*|\bSelf\s*::\s*|(?<![\w.:]))(" + "|".join(sorted(map(re.escape, bodies), key=len, reverse=True)) + r")\s*\(")
        edges = []  # (caller, callee, pos)
        for f, spans in bodies.items():
            for a, b in spans:
                for m in names_rx.finditer(code, a, b):
                    if code[max(0, m.start() - 3):m.start()] == "fn ":
                        continue
                    edges.append((f, m.group(1), m.start()))
        comp = sccs(sorted(bodies), edges)
        for f, g, p in edges:
            if comp[f] == comp[g]:
                found.append((p, "recurse"))
    found.sort()
    sites = []
    counters = {}
    for p, kind in found:
        fn = fn_at(p)
        k = (fn, kind)
        counters[k] = counters.get(k, 0) + 1
        h, line, text = line_hash(p)
        sites.append({"file": rel, "fn": fn, "kind": kind, "ord": counters[k], "hash": h, "line": line, "text": text})
    return sites


def scan(repo):
    root = os.path.join(repo, "src")
    files = []
    for d, dirs, fs in os.walk(root):
        dirs.sort()
        for f in sorted(fs):
            if f.endswith(".rs"):
                rel = os.path.relpath(os.path.join(d, f), root)
                if rel not in SKIP_FILES:
                    files.append(rel)
    files.sort()
    sites = []
    for rel in files:
        with open(os.path.join(root, rel), encoding="utf-8") as fh:
            src = fh.read()
        try:
            sites.extend(scan_file(rel, src))
        except ScanError as e:
            raise ScanError(f"{rel}: {e}")
    return sites


def key_of(s):
    return f"{s['file']}|{s['fn']}|{s['kind']}|{s['ord']}|{s['hash']:08x}"


def parse_key(k):
    parts = k.split("|")
    if len(parts) != 5 or parts[2] not in KINDS:
        raise ScanError(f"malformed ledger key {k!r}")
    return parts[0], parts[1], parts[2], int(parts[3]), int(parts[4], 16)


CLASSES = {"lemma": 1, "guard": 2, "out-of-model": 3, "searched": 4}
HERE = os.path.dirname(os.path.abspath(__file__))
LEDGER = os.path.join(HERE, "panic_ledger.json")
C07_STATEMENTS = os.path.join(HERE, "..", "coq", "properties", "C07.v")
SUMMARY = os.path.join(HERE, "..", "build", "panic_sites.json")


def load_ledger(path=LEDGER):
    try:
        with open(path, encoding="utf-8") as f:
            led = json.load(f)
    except (OSError, ValueError) as e:
        raise ScanError(f"cannot read the ledger {path}: {e}")
    entries = led.get("entries")
    if not isinstance(entries, dict):
        raise ScanError("ledger: no 'entries' object")
    try:
        with open(C07_STATEMENTS, encoding="utf-8") as f:
            theorems = set(re.findall(r"^\s*(?:Theorem|Corollary)\s+([A-Za-z0-9_']+)", f.read(), re.M))
    except OSError:
        theorems = set()
    for k, e in entries.items():
        parse_key(k)
        if e.get("class") not in CLASSES:
            raise ScanError(f"ledger entry {k}: class must be one of {sorted(CLASSES)}")
        if not str(e.get("why", "")).strip():
            raise ScanError(f"ledger entry {k}: empty justification")
        if e["class"] == "lemma" and e.get("lemma") not in theorems:
            raise ScanError(f"ledger entry {k}: lemma {e.get('lemma')!r} is not a Theorem of coq/properties/C07.v")
        if e["class"] == "guard" and not str(e.get("guard", "")).strip():
            raise ScanError(f"ledger entry {k}: a guard entry must say which guard")
    return entries


def _coq_str(s):
    return "[" + ";".join(str(x) for x in s.encode("utf-8")) + "]"


def _coq_key(file, fn, kind, ordinal, h):
    return f"({_coq_str(file)}, {_coq_str(fn)}, {KINDS[kind]}, {ordinal}, {h})"


def summary(repo, entries=None):
    sites = scan(repo)
    if entries is None:
        entries = load_ledger()
    keys = [key_of(s) for s in sites]
    keyset = set(keys)
    by_kind, by_class, by_file = {}, {}, {}
    for s, k in zip(sites, keys):
        by_kind[s["kind"]] = by_kind.get(s["kind"], 0) + 1
        by_file[s["file"]] = by_file.get(s["file"], 0) + 1
        c = entries[k]["class"] if k in entries else "UNCOVERED"
        by_class[c] = by_class.get(c, 0) + 1
    return {
        "sites": len(sites), "by_kind": dict(sorted(by_kind.items())), "by_ledger_class": dict(sorted(by_class.items())),
        "by_file": dict(sorted(by_file.items())),
        "uncovered": [{"key": k, "line": s["line"], "text": s["text"]} for s, k in zip(sites, keys) if k not in entries],
        "stale_ledger_keys": sorted(k for k in entries if k not in keyset),
        "lemmas": sorted({e["lemma"] for e in entries.values() if e["class"] == "lemma"}),
    }, sites


def coq_section(repo):
    """Body of coq/gen/ExtPanicSites.v (data only)."""
    entries = load_ledger()
    summ, sites = summary(repo, entries)
    try:
        os.makedirs(os.path.dirname(SUMMARY), exist_ok=True)
        with open(SUMMARY, "w", encoding="utf-8") as f:
            json.dump(summ, f, indent=1)
    except OSError:
        pass
    out = ["(* key = (file under src/, enclosing fn, kind code, ordinal of the kind within the fn, hash of the normalised line).",
           "   kind codes: " + ", ".join(f"{v} {k}" for k, v in sorted(KINDS.items(), key=lambda x: x[1])) + ".",
           "   ledger class codes: " + ", ".join(f"{v} {k}" for k, v in sorted(CLASSES.items(), key=lambda x: x[1])) + ". *)",
           "Definition site_key := (str * str * N * N * N)%type.", ""]
    if summ["uncovered"]:
        out.append("(* sites of the current source WITHOUT a ledger entry (C07_inventory_covered fails):")
        for u in summ["uncovered"]:
            out.append(f"     {u['key']}   l.{u['line']}: {u['text'][:100].replace('*)', '* )').replace('(*', '( *')}")
        out.append("*)")
    if summ["stale_ledger_keys"]:
        out.append("(* ledger keys that are no site of the current source (C07_ledger_not_stale fails):")
        for k in summ["stale_ledger_keys"]:
            out.append(f"     {k}")
        out.append("*)")
    out.append("Definition panic_sites : list site_key := [")
    out.append(";\n".join("  " + _coq_key(s["file"], s["fn"], s["kind"], s["ord"], s["hash"]) for s in sites))
    out.append("]%N.\n")
    ks = sorted(entries)
    out.append("(* from tools/panic_ledger.json *)")
    out.append("Definition ledger_keys : list site_key := [")
    out.append(";\n".join("  " + _coq_key(*parse_key(k)) for k in ks))
    out.append("]%N.\n")
    out.append("Definition ledger_classes : list N := [" + "; ".join(str(CLASSES[entries[k]["class"]]) for k in ks) + "]%N.\n")
    return "\n".join(out)


if __name__ == "__main__":
    import sys
    import time
    t0 = time.time()
    ss = scan(sys.argv[1] if len(sys.argv) > 1 else os.environ.get("VERIF_REPO", "/repo"))
    dt = time.time() - t0
    by = {}
    for s in ss:
        by[s["kind"]] = by.get(s["kind"], 0) + 1
    if "-v" in sys.argv:
        for s in ss:
            print(f"{key_of(s)}\t{s['line']}\t{s['text'][:110]}")
    print(json.dumps({"sites": len(ss), "by_kind": dict(sorted(by.items())), "seconds": round(dt, 2)}))
