#!/bin/sh
# Builds the framework from files on disk only (offline): translator output, Coq development, harness.
set -e
cd "$(dirname "$0")/.."
export PUBLISH_SKIP_BUILD=1 CARGO_NET_OFFLINE=true CARGO_TARGET_DIR="$PWD/build/target"
mkdir -p build/cases evidence replays
python3 tools/gen_tables.py || true
( cd coq && coq_makefile -f _CoqProject $(ls theories/*.v gen/*.v properties/*.v) -o Makefile >/dev/null 2>&1 && ls theories/*.v properties/*.v gen/*.v | sort > /dev/null && timeout 3000 make -j16 -k ) || true
# the models of C16 / C03 extracted to OCaml (bulk correspondence runs)
( timeout 600 sh mlrun/build.sh ) || true
[ -f harness/Cargo.lock ] || cp harness/Cargo.lock.pinned harness/Cargo.lock
( cd harness && timeout 3000 cargo build --release --offline -q ) || true
echo setup done
