#!/usr/bin/env python3
"""Applies seeded property-breaking patches (produced by outside agents) to /repo one at a time, runs the checks,
undoes the patch, and records the outcome under /verif/seeded/<P>-<k>/.
usage: seed_run.py <srcdir> P/k [P/k ...] [--also Q,R]   (srcdir holds P/k/{patch.diff,demonstration.md,demo.rs,meta.json})"""
import json, os, shutil, subprocess, sys, time
ROOT = os.path.dirname(os.path.dirname(os.path.abspath(__file__)))

def sh(cmd, **kw):
    return subprocess.run(cmd, shell=True, capture_output=True, text=True, **kw)

def run_check(pid, tier):
    env = dict(os.environ, VERIF_TIER=tier)
    t0 = time.time()
    r = subprocess.run(["python3", os.path.join(ROOT, "tools", "check.py"), pid], capture_output=True, text=True, env=env, cwd=ROOT)
    lines = [l for l in r.stdout.splitlines() if l.startswith(("OK", "VIOLATION", "KNOWN-FINDING"))]
    return r.returncode, lines, round(time.time() - t0, 1)

def main():
    src = sys.argv[1]
    items = [a for a in sys.argv[2:] if not a.startswith("--")]
    also = []
    tag = ""
    for a in sys.argv[2:]:
        if a.startswith("--also="):
            also = a.split("=", 1)[1].split(",")
        if a.startswith("--tag="):
            tag = a.split("=", 1)[1] + "-"
    for it in items:
        pid, k = it.split("/")
        d = os.path.join(src, pid, k)
        if sh("git -C /repo status --porcelain -- src").stdout.strip():
            print("repo not clean; abort"); sys.exit(2)
        ap = sh(f"git -C /repo apply {d}/patch.diff")
        if ap.returncode != 0:
            print(f"{it}: patch does not apply: {ap.stderr.strip()[:200]}"); continue
        res = {}
        try:
            for p in [pid] + also:
                rc, lines, wall = run_check(p, "quick")
                res[p] = {"tier": "quick", "exit": rc, "lines": lines, "wall_s": wall}
                if rc == 0 and p == pid:
                    rc2, lines2, wall2 = run_check(p, "thorough")
                    res[p + ":thorough"] = {"tier": "thorough", "exit": rc2, "lines": lines2, "wall_s": wall2}
        finally:
            sh("git -C /repo checkout -- .")
        detected = "quick" if res[pid]["exit"] != 0 else ("thorough" if res.get(pid + ":thorough", {}).get("exit", 0) != 0 else "missed")
        out = os.path.join(ROOT, "seeded", f"{pid}-{tag}{k}")
        os.makedirs(out, exist_ok=True)
        for f in ("patch.diff", "demonstration.md", "demo.rs"):
            if os.path.exists(os.path.join(d, f)):
                shutil.copy(os.path.join(d, f), os.path.join(out, f))
        meta = {}
        try:
            meta = json.load(open(os.path.join(d, "meta.json")))
        except Exception:
            pass
        meta["verif_result"] = {"detected": detected, "runs": res}
        # keep the replay that exposed it, if any
        for p, r in res.items():
            for l in r["lines"]:
                if l.startswith("VIOLATION") and "replay=" in l:
                    rp = l.split("replay=")[1].split()[0]
                    if os.path.exists(rp) and p.split(":")[0] == pid:
                        shutil.copy(rp, os.path.join(out, "replay_found.json"))
        json.dump(meta, open(os.path.join(out, "meta.json"), "w"), indent=1)
        print(f"{it}: {detected} :: " + " | ".join(f"{p}: {' ; '.join(r['lines'])[:160]}" for p, r in res.items()))
        sys.stdout.flush()

if __name__ == "__main__":
    main()
