#!/bin/sh
# Builds mlrun/_build/tokrun  (C16: extraction of RIO.C16Run, Extract.v   + hand-written driver main.ml)
#    and mlrun/_build/bodyrun (C03: extraction of RIO.C03Run, Extract03.v + hand-written driver main03.ml).
# Needs the compiled development ../coq/theories/*.vo (tools/coqmake.sh).  Offline.
# Rebuilds only when a source or one of the .vo files is newer than the executables.
set -e
cd "$(dirname "$0")"
mkdir -p _build
fresh=1
for x in tokrun bodyrun; do
  for src in build.sh Extract.v Extract03.v main.ml main03.ml ../coq/theories/C16Run.vo ../coq/theories/C03Run.vo \
             ../coq/theories/HtmlFilter.vo ../coq/theories/BodyText.vo ../coq/theories/HtmlTok.vo ../coq/theories/TokMonad.vo \
             ../coq/theories/Base.vo; do
    [ _build/$x -nt $src ] || fresh=0
  done
done
[ $fresh = 1 ] && exit 0
# 1. extraction: coqc writes tokmodel.ml(i) / bodymodel.ml(i) into the current directory (_build)
( cd _build && coqc -Q ../../coq/theories RIO -Q ../../coq/gen RIOGen -o Extract.vo ../Extract.v )
( cd _build && coqc -Q ../../coq/theories RIO -Q ../../coq/gen RIOGen -o Extract03.vo ../Extract03.v )
# the generated code must be free of unsafe casts and of axioms realised by exceptions
if grep -n "Obj.magic\|AXIOM\|assert false" _build/tokmodel.ml _build/bodymodel.ml; then
  echo "unexpected construct in extracted code" >&2; exit 1
fi
# 2. native executables (-O3 is accepted and ignored by a non-flambda compiler; -w -a silences the warnings of generated code)
cp main.ml main03.ml _build/
( cd _build && ocamlfind ocamlopt -O3 -inline 200 -w -a tokmodel.mli tokmodel.ml main.ml -o tokrun )
( cd _build && ocamlfind ocamlopt -O3 -inline 200 -w -a bodymodel.mli bodymodel.ml main03.ml -o bodyrun )
echo "built $(pwd)/_build/tokrun $(pwd)/_build/bodyrun"
