(* Extract03.v — OCaml extraction of the C03 run module (RIO.C03Run: body filter chain, chunk invariance).

   Extraction directives used in this file (complete list):
     Require Extraction.
     Require ExtrOcamlBasic.
     Extraction "bodymodel.ml" check03 mk_html.
   No Extract Constant / Extract Inductive of our own: nat, positive, N, Z are the extracted inductives.

   check03 is a thin wrapper: it calls C03Run.model_out twice (whole body in one chunk; the given chunks) exactly as
   C03Run.verdict03 does, and evaluates C03Run.property_ok (mode 0: chunk invariance on valid UTF-8) on the MODEL's two
   outputs.  When the model's outputs equal the implementation's (the textual comparison made by bodyrun --check), that is
   the property's verdict on the implementation. *)
Require Import RIO.Base RIO.TokMonad RIO.HtmlTok RIO.BodyText RIO.HtmlFilter RIO.C03Run.
Require Extraction.
Require ExtrOcamlBasic.

Definition case_of (sel : list (str * str * bool)) (ctok : bool) (fs : list body_filter) (chunks : list (list N))
                   (single chunked : list N) : case03 :=
  {| c_ctok := ctok; c_filters := fs; c_chunks := chunks; c_sel := sel; c_mode := 0%N; c_values := []; c_expect := [];
     c_spans_single_ok := true; c_spans_ok := true; o_single := single; o_chunked := chunked |}.

Definition check03 (sel : list (str * str * bool)) (ctok : bool) (fs : list body_filter) (chunks : list (list N))
  : (list N * list N) * bool :=
  let c0 := case_of sel ctok fs chunks [] [] in
  let s := model_out c0 [concat chunks] in
  let k := model_out c0 chunks in
  ((s, k), property_ok (case_of sel ctok fs chunks s k)).

(* the two outputs are the two terms that verdict03 compares with the implementation's outputs *)
Lemma check03_model : forall c,
  fst (check03 (c_sel c) (c_ctok c) (c_filters c) (c_chunks c))
  = (model_out c [concat (c_chunks c)], model_out c (c_chunks c)).
Proof. intros []; reflexivity. Qed.

Extraction "bodymodel.ml" check03 mk_html.
