(* main03.ml — driver of the extracted C03 model (Bodymodel = extraction of RIO.C03Run.model_out / property_ok, Extract03.v).

   EVERYTHING in this file is hand-written glue (trusted): int <-> extracted N, hex <-> list N, the parser of the case
   line into the model's filter values, the rendering of the two outputs, string comparison and counting.

   CASE line      FILTERS;CTOK;CHUNKS;SEL
                    FILTERS  filter+filter+...   (empty = no filter)
                               T<a|p|r>:CONTENT                 text filter   append | prepend | replace
                               H<a|p|r|o>:VALUE:TREE:CSS        html filter   append_child | prepend_child | replace | other action
                                                                TREE = name.name.name (hex names, empty = empty tree)
                                                                CSS  = - (none) | =HEX
                    CTOK     1 = no Content-Type or one containing text/html, 0 otherwise
                    CHUNKS   - (no chunk at all) | HEX,HEX,...  (an empty HEX is an empty chunk)
                    SEL      selector oracle: DATA:SELECTOR:b,...  what the crate's selector engine answered (empty = nothing asked)
   OBSERVATION    SINGLE,CHUNKED     hex of the output for [whole body] and for the chunks;  implementation panic: !<message>
   usage: bodyrun (prints observations) | bodyrun --check (reads CASE \t OBSERVATION; prints MISMATCH / SPECFAIL lines and
          checked=<n> mismatches=<m> specfail=<s>; exit 1 iff m + s > 0).  SPECFAIL: C03Run.property_ok (chunk invariance
          for valid UTF-8 bodies) is false on the model's outputs.  env TOKRUN_MAXREPORT as for tokrun. *)
open Bodymodel

let rec pos_of_int (i : int) : positive =
  if i = 1 then XH else if i land 1 = 0 then XO (pos_of_int (i lsr 1)) else XI (pos_of_int (i lsr 1))
let n_of_int (i : int) : n = if i <= 0 then N0 else Npos (pos_of_int i)
let rec int_of_pos (p : positive) : int =
  match p with XH -> 1 | XO q -> 2 * int_of_pos q | XI q -> 2 * int_of_pos q + 1
let int_of_n (x : n) : int = match x with N0 -> 0 | Npos p -> int_of_pos p
let byte_tbl : n array = Array.init 256 n_of_int

let hexval (c : char) : int =
  match c with
  | '0' .. '9' -> Char.code c - 48
  | 'a' .. 'f' -> Char.code c - 87
  | 'A' .. 'F' -> Char.code c - 55
  | _ -> failwith "bad hex digit"
let bytes_of_hex (s : string) : n list =
  let l = String.length s in
  if l land 1 = 1 then failwith "odd hex length";
  let rec go i acc = if i < 0 then acc else go (i - 2) (byte_tbl.(16 * hexval s.[i] + hexval s.[i + 1]) :: acc) in
  go (l - 2) []
let hexdigits = "0123456789abcdef"
let hex (b : Buffer.t) (l : n list) : unit =
  List.iter (fun x -> let i = int_of_n x in
                      if i > 255 then failwith "byte > 255";
                      Buffer.add_char b hexdigits.[i lsr 4]; Buffer.add_char b hexdigits.[i land 15]) l

let split c s = if s = "" then [] else String.split_on_char c s
let bool_of s = match s with "1" -> true | "0" -> false | _ -> failwith "bad bool"

let parse_filter (s : string) : body_filter =
  match String.split_on_char ':' s with
  | [k; c] when String.length k = 2 && k.[0] = 'T' ->
      BFText ((match k.[1] with 'a' -> TAppend | 'p' -> TPrepend | 'r' -> TReplace | _ -> failwith "bad text action"), bytes_of_hex c)
  | [k; v; tree; css] when String.length k = 2 && k.[0] = 'H' ->
      mk_html (match k.[1] with 'a' -> HAppendChild | 'p' -> HPrependChild | 'r' -> HReplace | 'o' -> HOther | _ -> failwith "bad html action")
        (bytes_of_hex v) (List.map bytes_of_hex (split '.' tree))
        (if css = "-" then None else if css <> "" && css.[0] = '=' then Some (bytes_of_hex (String.sub css 1 (String.length css - 1)))
         else failwith "bad css")
  | _ -> failwith "bad filter"

let parse_sel (s : string) : ((n list * n list) * bool) list =
  List.map (fun e -> match String.split_on_char ':' e with
                     | [d; x; b] -> ((bytes_of_hex d, bytes_of_hex x), bool_of b)
                     | _ -> failwith "bad selector entry") (split ',' s)

let run_case (b : Buffer.t) (case : string) : bool =
  match String.split_on_char ';' case with
  | [fs; ctok; chunks; sel] ->
      let chunks = if chunks = "-" then [] else List.map bytes_of_hex (String.split_on_char ',' chunks) in
      let ((s, k), ok) = check03 (parse_sel sel) (bool_of ctok) (List.map parse_filter (split '+' fs)) chunks in
      hex b s; Buffer.add_char b ','; hex b k; ok
  | _ -> failwith "bad case line"

let () =
  let check = Array.length Sys.argv > 1 && Sys.argv.(1) = "--check" in
  let maxrep = match Sys.getenv_opt "TOKRUN_MAXREPORT" with Some s -> int_of_string s | None -> 20 in
  let b = Buffer.create 4096 in
  let checked = ref 0 and mism = ref 0 and specfail = ref 0 and reported = ref 0 in
  let report s = if !reported < maxrep then (incr reported; print_string s; print_newline ()) in
  (try
     while true do
       let line = input_line stdin in
       Buffer.clear b;
       if not check then begin
         ignore (run_case b line);
         Buffer.add_char b '\n';
         print_string (Buffer.contents b)
       end else begin
         let tab = String.index line '\t' in
         let case = String.sub line 0 tab in
         let impl = String.sub line (tab + 1) (String.length line - tab - 1) in
         let spec = run_case b case in
         let model = Buffer.contents b in
         incr checked;
         if model <> impl then (incr mism; report ("MISMATCH\t" ^ case ^ "\timpl=" ^ impl ^ "\tmodel=" ^ model));
         if not spec then (incr specfail; report ("SPECFAIL\t" ^ case ^ "\t" ^ model))
       end
     done
   with End_of_file -> ());
  if check then begin
    Printf.printf "checked=%d mismatches=%d specfail=%d\n" !checked !mism !specfail;
    if !mism + !specfail > 0 then exit 1
  end
