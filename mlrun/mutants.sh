#!/bin/sh
# Sanity check of the bulk checker: builds MUTANTS of the extracted model (sed on a COPY of _build/tokmodel.ml, never on the
# Coq sources or on /repo) and feeds each the same harness stream; every mutant must be reported (mismatches > 0).
# usage: mlrun/mutants.sh <path to rio-harness>
set -e
cd "$(dirname "$0")"
H="$1"
./build.sh >/dev/null
rm -rf _mut && mkdir -p _mut
run() { # name, sed expression, alphabet, len, ctx
  d=_mut/$1; mkdir -p $d
  cp _build/tokmodel.mli _build/main.ml $d/
  sed "$2" _build/tokmodel.ml > $d/tokmodel.ml
  if cmp -s $d/tokmodel.ml _build/tokmodel.ml; then echo "$1: sed expression changed nothing"; exit 1; fi
  ( cd $d && ocamlfind ocamlopt -O3 -inline 200 -w -a tokmodel.mli tokmodel.ml main.ml -o tokrun )
  printf "%s: " "$1"
  "$H" bulk16 --alphabet "$3" --len "$4" --shard 0/1 ${5:+--ctx $5} 2>/dev/null | TOKRUN_MAXREPORT=1 $d/tokrun --check | tr '\n' ' ' || true
  echo
}
# M1: ascii_lower lower-cases 'B'..'Z' only (65 -> 66 in its lower bound)
run M1_ascii_lower 's/(N.leb (Npos (XI (XO (XO (XO (XO (XO XH))))))) c)/(N.leb (Npos (XO (XI (XO (XO (XO (XO XH))))))) c)/' markup12 4
# M2: is_ws forgets the space (32 -> 34 in the first disjunct)
run M2_is_ws 's/((||) (is b (Npos (XO (XO (XO (XO (XO XH)))))))/((||) (is b (Npos (XO (XI (XO (XO (XO XH)))))))/' c16 4
# M3: raw_end is advanced by 2 instead of 1 in read_byte
run M3_read_byte 's/| Some byte -> (byte, (set_raw_end (S s.raw_end) s))/| Some byte -> (byte, (set_raw_end (S (S s.raw_end)) s))/' c16 3
# M4: the checked usize subtraction never fails (a model blind to underflow; only visible if an input reaches one)
run M4_sub_usize 's/if Nat.leb b a then ret (sub a b) else bind (fail_at site) (fun _ -> ret O)/ret (sub a b)/' c16 4
# M5: under --ctx xmp: is_ws mutant again, now in the raw-text end tag matcher
run M5_is_ws_xmp 's/((||) (is b (Npos (XO (XO (XO (XO (XO XH)))))))/((||) (is b (Npos (XO (XI (XO (XO (XO XH)))))))/' xmp12 6 xmp

# ------------------------------------------------------------------------------------------------ C03 (bodyrun)
run03() { # name, sed expression, filter spec, alphabet, len, cuts
  d=_mut/$1; mkdir -p $d
  cp _build/bodymodel.mli _build/main03.ml $d/
  sed "$2" _build/bodymodel.ml > $d/bodymodel.ml
  if cmp -s $d/bodymodel.ml _build/bodymodel.ml; then echo "$1: sed expression changed nothing"; exit 1; fi
  ( cd $d && ocamlfind ocamlopt -O3 -inline 200 -w -a bodymodel.mli bodymodel.ml main03.ml -o bodyrun )
  printf "%s: " "$1"
  "$H" bulk03 --filters "$3" --alphabet "$4" --len "$5" --cuts "$6" --shard 0/1 2>/dev/null | TOKRUN_MAXREPORT=1 $d/bodyrun --check | tr '\n' ' ' || true
  echo
}
APPEND_A="Ha:3c693e563c2f693e:61:-"          # append_child "<i>V</i>" to html path [a]
CHAIN="Tp:5b505d+Ha:3c693e563c2f693e:61:-"   # prepend_text "[P]", then the same html filter
# B1: a token that reached the end of the chunk is NOT held back (the crate's behaviour before its repair): err flag ignored
run03 B1_no_hold_at_eof 's/if (||) (token_eqb tk ErrorToken) s1.err/if (token_eqb tk ErrorToken)/' "$APPEND_A" tag6 7 single
# B1b: the redundant-looking test "held text contains '<'" looks for '>' instead (60 -> 62): NOT detected (body10, length 4, all chunkings):
#      every token that reaches the end of the data is held back anyway (an equivalent mutant on this domain)
run03 B1b_contains_lt 's/memN (Npos (XO (XO (XI (XI (XI XH)))))) s/memN (Npos (XO (XI (XI (XI (XI XH)))))) s/' "$APPEND_A" body10 4 all
# B2: prepend_text puts its content AFTER the first chunk
run03 B2_text_prepend 's/true }, (app s.ts_content data))/true }, (app data s.ts_content))/' "$CHAIN" body10 3 single
# B3: the ascii_lower mutant of M1 ('A' is in body10: "<A>" must match the path [a])
run03 B3_ascii_lower 's/(N.leb (Npos (XI (XO (XO (XO (XO (XO XH))))))) c)/(N.leb (Npos (XO (XI (XO (XO (XO (XO XH))))))) c)/' "$APPEND_A" body10 4 single
