(* main.ml — driver of the extracted C16 model (Tokmodel = extraction of RIO.C16Run.tokenize, see Extract.v).

   EVERYTHING in this file is hand-written glue and belongs to the trusted base of the bulk check:
     - int <-> extracted N, OCaml string (hex) <-> extracted list N            (n_of_int, int_of_n, bytes_of_hex, hex)
     - the text rendering of the model's observation                             (the render functions)
     - the comparison of two renderings (string equality) and the counting       (check mode)
   It contains no tokenizer logic.

   CASE line      INPUT[;CTX[;TABLE]]
                    INPUT, CTX : hex bytes (two lower-case hex digits per byte, empty = no byte)
                    TABLE      : to_lowercase oracle, K:V,K:V,... (hex : hex), empty = ASCII lower-casing only
   OBSERVATION    TOK|TOK|...|Fend,ers,ere,ERRRAW,REST          (no TOK: just the F part)
                    TOK  = kind,rs,re,RAW,TEXT,NAME,ATTR+ATTR+...
                    TEXT = E | - | =HEX                          Err | Ok(None) | Ok(Some s)
                    NAME = E | -.b | =HEX.b                      Err | Ok((None,b)) | Ok((Some s,b))       b = 0|1
                    ATTR = E | K:V.b   with K, V = - | =HEX      Err | Ok((k,v,b))
                  model only:           P<site> (a checked Rust operation would panic) | OOF (out of fuel)
                  implementation only:  !<panic message>
   usage
     tokrun                 reads case lines, prints one observation line per case
     tokrun --check         reads CASE \t OBSERVATION lines, prints
                              MISMATCH \t case \t impl=<obs> \t model=<obs>     when the two renderings differ
                              SPECFAIL \t case \t <model obs>                   when C16Run.spec_ok is false on the model's observation
                            and a final line  checked=<n> mismatches=<m> specfail=<s>; exit 1 iff m + s > 0
     env TOKRUN_MAXREPORT   maximum number of MISMATCH/SPECFAIL lines printed (default 20; all are counted) *)
open Tokmodel

(* ---------------------------------------------------------------------------------- numbers *)
let rec pos_of_int (i : int) : positive =
  if i = 1 then XH else if i land 1 = 0 then XO (pos_of_int (i lsr 1)) else XI (pos_of_int (i lsr 1))
let n_of_int (i : int) : n = if i <= 0 then N0 else Npos (pos_of_int i)
let rec int_of_pos (p : positive) : int =
  match p with XH -> 1 | XO q -> 2 * int_of_pos q | XI q -> 2 * int_of_pos q + 1
let int_of_n (x : n) : int = match x with N0 -> 0 | Npos p -> int_of_pos p

let byte_tbl : n array = Array.init 256 n_of_int

(* ---------------------------------------------------------------------------------- bytes *)
let hexval (c : char) : int =
  match c with
  | '0' .. '9' -> Char.code c - 48
  | 'a' .. 'f' -> Char.code c - 87
  | 'A' .. 'F' -> Char.code c - 55
  | _ -> failwith "bad hex digit"

(* hex string -> list N *)
let bytes_of_hex (s : string) : n list =
  let l = String.length s in
  if l land 1 = 1 then failwith "odd hex length";
  let rec go i acc = if i < 0 then acc else go (i - 2) (byte_tbl.(16 * hexval s.[i] + hexval s.[i + 1]) :: acc) in
  go (l - 2) []

let hexdigits = "0123456789abcdef"
let hex (b : Buffer.t) (l : n list) : unit =
  List.iter (fun x -> let i = int_of_n x in
                      if i > 255 then failwith "byte > 255";
                      Buffer.add_char b hexdigits.[i lsr 4]; Buffer.add_char b hexdigits.[i land 15]) l

(* ---------------------------------------------------------------------------------- case lines *)
let parse_table (s : string) : (n list * n list) list =
  if s = "" then [] else
  List.map (fun kv -> match String.split_on_char ':' kv with
                      | [k; v] -> (bytes_of_hex k, bytes_of_hex v)
                      | _ -> failwith "bad table entry") (String.split_on_char ',' s)

(* -> (table, ctx, input) *)
let parse_case (s : string) : (n list * n list) list * n list * n list =
  match String.split_on_char ';' s with
  | [i] -> ([], [], bytes_of_hex i)
  | [i; c] -> ([], bytes_of_hex c, bytes_of_hex i)
  | [i; c; t] -> (parse_table t, bytes_of_hex c, bytes_of_hex i)
  | _ -> failwith "bad case line"

(* ---------------------------------------------------------------------------------- rendering *)
let num b (x : n) = Buffer.add_string b (string_of_int (int_of_n x))
let bit b (x : bool) = Buffer.add_char b (if x then '1' else '0')
let opt b (o : n list option) =
  match o with None -> Buffer.add_char b '-' | Some s -> Buffer.add_char b '='; hex b s

let render_text b (r : text_res) =
  match r with RErr -> Buffer.add_char b 'E' | ROk o -> opt b o
let render_name b (r : name_res) =
  match r with RErr -> Buffer.add_char b 'E' | ROk (o, m) -> opt b o; Buffer.add_char b '.'; bit b m
let render_attr b (r : attr_res) =
  match r with
  | RErr -> Buffer.add_char b 'E'
  | ROk ((k, v), m) -> opt b k; Buffer.add_char b ':'; opt b v; Buffer.add_char b '.'; bit b m

let render_tok b (t : tok_obs) =
  num b t.o_kind; Buffer.add_char b ',';
  num b t.o_rs; Buffer.add_char b ',';
  num b t.o_re; Buffer.add_char b ',';
  hex b t.o_raw; Buffer.add_char b ',';
  render_text b t.o_text; Buffer.add_char b ',';
  render_name b t.o_name; Buffer.add_char b ',';
  List.iteri (fun i a -> if i > 0 then Buffer.add_char b '+'; render_attr b a) t.o_attrs;
  Buffer.add_char b '|'

let render_fin b (f : final_obs) =
  Buffer.add_char b 'F';
  num b f.f_end; Buffer.add_char b ',';
  num b f.f_ers; Buffer.add_char b ',';
  num b f.f_ere; Buffer.add_char b ',';
  hex b f.f_err_raw; Buffer.add_char b ',';
  hex b f.f_rest

let render b (o : (tok_obs list * final_obs) outcome) =
  match o with
  | Ok (toks, fin) -> List.iter (render_tok b) toks; render_fin b fin
  | Panic site -> Buffer.add_char b 'P'; num b site
  | OutOfFuel -> Buffer.add_string b "OOF"

(* ---------------------------------------------------------------------------------- main *)
let () =
  let check = Array.length Sys.argv > 1 && Sys.argv.(1) = "--check" in
  let maxrep = match Sys.getenv_opt "TOKRUN_MAXREPORT" with Some s -> int_of_string s | None -> 20 in
  let b = Buffer.create 4096 in
  let checked = ref 0 and mism = ref 0 and specfail = ref 0 and reported = ref 0 in
  let report s = if !reported < maxrep then (incr reported; print_string s; print_newline ()) in
  (try
     while true do
       let line = input_line stdin in
       Buffer.clear b;
       if not check then begin
         let (tbl, ctx, inp) = parse_case line in
         render b (run16 tbl ctx inp);
         Buffer.add_char b '\n';
         print_string (Buffer.contents b)
       end else begin
         let tab = String.index line '\t' in
         let case = String.sub line 0 tab in
         let impl = String.sub line (tab + 1) (String.length line - tab - 1) in
         let (tbl, ctx, inp) = parse_case case in
         let (o, spec) = check16 tbl ctx inp in
         render b o;
         let model = Buffer.contents b in
         incr checked;
         if model <> impl then (incr mism; report ("MISMATCH\t" ^ case ^ "\timpl=" ^ impl ^ "\tmodel=" ^ model));
         if not spec then (incr specfail; report ("SPECFAIL\t" ^ case ^ "\t" ^ model))
       end
     done
   with End_of_file -> ());
  if check then begin
    Printf.printf "checked=%d mismatches=%d specfail=%d\n" !checked !mism !specfail;
    if !mism + !specfail > 0 then exit 1
  end
