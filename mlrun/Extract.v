(* Extract.v — OCaml extraction of the C16 run module (RIO.C16Run) for the bulk correspondence runner.

   Extraction directives used in this file (complete list):
     Require Extraction.
     Require ExtrOcamlBasic.        (standard library: bool, option, unit, list, prod, sumbool, sumor -> OCaml's own)
     Extraction "tokmodel.ml" run16 spec16 check16.
   No Extract Constant, no Extract Inductive, no Extraction Inline/NoInline/Implicit of our own:
   nat, positive, N stay the extracted inductive types, every function is the extracted Coq definition.

   run16 / spec16 are thin wrappers (no new logic):
     run16 tbl ctx input  is literally the term that C16Run.model_agrees evaluates and then compares with the
                          implementation's observation: tokenize (lower_of tbl) ctx input.
     spec16 tbl ctx input evaluates C16Run.spec_ok (the PROPERTY) on the MODEL's observation of that input.  When the
                          model's observation is equal to the implementation's (which is what tokrun --check tests),
                          this is the property's verdict on the implementation's observation.
     check16              both at once (one evaluation of the model): (run16 .., spec_ok on its result). *)
Require Import RIO.Base RIO.TokMonad RIO.HtmlTok RIO.C16Run.
Require Extraction.
Require ExtrOcamlBasic.

Definition run16 (tbl : list (str * str)) (ctx : str) (input : str) : outcome (list tok_obs * final_obs) :=
  tokenize (lower_of tbl) ctx input.

Definition spec16 (tbl : list (str * str)) (ctx : str) (input : str) : bool :=
  match run16 tbl ctx input with
  | Ok (toks, fin) => spec_ok (mk16 ctx tbl input toks fin)
  | Panic _ => false
  | OutOfFuel => false
  end.

Definition check16 (tbl : list (str * str)) (ctx : str) (input : str)
  : outcome (list tok_obs * final_obs) * bool :=
  let r := run16 tbl ctx input in
  (r, match r with
      | Ok (toks, fin) => spec_ok (mk16 ctx tbl input toks fin)
      | Panic _ => false
      | OutOfFuel => false
      end).

Lemma check16_fst : forall t c i, fst (check16 t c i) = run16 t c i.
Proof. reflexivity. Qed.
Lemma check16_snd : forall t c i, snd (check16 t c i) = spec16 t c i.
Proof. reflexivity. Qed.

(* run16 is definitionally what model_agrees runs *)
Lemma model_agrees_run16 : forall c,
  model_agrees c =
  match run16 (c_lower c) (c_ctx c) (c_input c) with
  | Ok (toks, fin) => list_eqb tok_eqb toks (c_toks c) && fin_eqb fin (c_fin c)
  | Panic _ => false
  | OutOfFuel => false
  end.
Proof. reflexivity. Qed.

Extraction "tokmodel.ml" run16 spec16 check16.
