//! C09: URL normalisation is canonical.  One rule without markers, one request, every router configuration.
//! Input: {"cfg":{"ihc","ihdc","ipqc","imqp","pass","amah":bool,"mk":[str]}, "family":"self|perm|marketing|case|differ|idem|witness",
//!         "rule":{"path":S,"query":null|S}, "target":str, "url":S, "host":null|str,
//!         "expect":{"match":bool,"skipped":null|str,"location":null|str}, "how":{...free text for readers...}}
//! where S is a string or a list of parts, each part a string or [string, repeat-count] (long inputs).
//! The "expect" object is written by the GENERATOR from the way it built the case (or, for family
//! "witness", is the recorded behaviour of the crate on an input outside the stated domain); run_case never
//! computes it.
use crate::common::*;
use redirectionio::action::Action;
use redirectionio::api::Rule;
use redirectionio::http::{Header, Request};
use redirectionio::marker::StaticOrDynamic;
use redirectionio::router::{IntoRoute, Router};
use redirectionio::RouterConfig;
use serde_json::{json, Value};
use std::cmp::Ordering;
use std::collections::HashSet;

// ------------------------------------------------------------------------------------------- vocabulary
const SEGS: &[&str] = &[
    "a", "B", "Ab", "aB", "foo", "Bar-1", "x.y", "~u", "0", "Zz9", "a b", "\"q\"", "<t>", "\u{e9}", "%41", "%2f", "%2F",
    "a+b", "[1]", "{x}", "a|b", "^c", "%C3%A9", "%c3%a9", "a%20b", "caf\u{e9}", "x_y", "a:b;c,d", "(1)", "$&'*=@!", "a\tb", "\u{1F600}",
];
const KEYS: &[&str] = &[
    "a", "b", "c", "A", "B", "k1", "Key", "kEY", "a+b", "a%20b", "a b", "\u{e9}", "%C3%A9", "k%5B%5D", "k[]", "x.y", "ref",
    "utm_source", "utm_medium", "gclid", "z", "%41", "a%2Bb", "\"k\"", "a%26b", "a%3Db", "a%25b", "a%", "q?", "", "\u{1F600}",
];
const VALUES: &[&str] = &[
    "", "1", "2", "a+b", "a%20b", "a b", "%26", "\u{e9}", "%C3%A9", "%c3%a9", "x=y", "Val", "vAL", "a%2Bb", "\"q\"", "<t>",
    "%41", "%2f", "%2F", "100%", "%2520", "a%26b", "a/b", "a?b", "a%23b", "%E2%82%AC", "a\tb", "\u{1F600}", "b`q", "%F0%9F%98%80",
];
const HOSTS: &[&str] = &["example.com", "Example.COM", "WWW.Example.org"];
const TARGETS: &[&str] = &["/t", "/t?x=1"];
/// marketing values with the text the normaliser has to forward for them (decoded, then percent-encoded
/// with CONTROLS + space " # < > +); written by hand
const MVALUES: &[(&str, &str)] = &[
    ("news", "news"), ("Big", "Big"), ("a+b", "a%20b"), ("a%20b", "a%20b"), ("\u{e9}", "%C3%A9"), ("1%2B1", "1%2B1"), ("x=y", "x=y"),
];
const JUNK: &[&str] = &[
    "", "*", "?b=1&a=2", "a?b=1&a=2", "/a`b?b=1&a=2", "/a?=&b=1", "/a?=v&b=1", "//", "/a#f?x=1#g", "/?", "?", "#", "/a?&&",
    "/a?b&&a", "/%", "/a?%", "/a?%zz=%4", "/\u{7f}\u{1}?\t=1", "/a?b=2&b=1&a", "/A?B=1&utm_source=Q&a=2", "/`", "/a?x=`",
];
const MK_DEFAULT: &[&str] = &["utm_source", "utm_medium", "utm_campaign", "utm_term", "utm_content"];
const MK_CUSTOM: &[&str] = &["ref", "gclid"];
const FLAGS: &[&str] = &["ihc", "ihdc", "ipqc", "imqp", "pass", "amah"];

// ------------------------------------------------------------------------------------------- helpers
/// the generator's own application/x-www-form-urlencoded piece decoder ('+' -> space, %XX -> byte); used
/// ONLY to enforce the domain restrictions of the families and for tags, never for an expectation
fn fdecode(raw: &str) -> Vec<u8> {
    let b = raw.as_bytes();
    let hex = |c: u8| (c as char).to_digit(16);
    let mut out = Vec::new();
    let mut i = 0;
    while i < b.len() {
        if b[i] == b'+' { out.push(b' '); i += 1; }
        else if b[i] == b'%' && i + 2 < b.len() && hex(b[i + 1]).is_some() && hex(b[i + 2]).is_some() {
            out.push((hex(b[i + 1]).unwrap() * 16 + hex(b[i + 2]).unwrap()) as u8); i += 3;
        } else { out.push(b[i]); i += 1; }
    }
    out
}
fn lower(b: &[u8]) -> Vec<u8> { b.iter().map(|c| c.to_ascii_lowercase()).collect() }
fn swap_case(s: &str) -> String {
    s.chars().map(|c| if c.is_ascii_lowercase() { c.to_ascii_uppercase() } else if c.is_ascii_uppercase() { c.to_ascii_lowercase() } else { c }).collect()
}
/// has an ASCII letter outside %XX escapes
fn letter_outside_escape(raw: &str) -> bool {
    let b = raw.as_bytes();
    let mut i = 0;
    while i < b.len() {
        if b[i] == b'%' && i + 2 < b.len() && b[i + 1].is_ascii_hexdigit() && b[i + 2].is_ascii_hexdigit() { i += 3; continue; }
        if b[i].is_ascii_alphabetic() { return true; }
        i += 1;
    }
    false
}

#[derive(Clone, Debug)]
struct Param { k: String, v: Option<String> }
impl Param {
    fn text(&self) -> String { match &self.v { None => self.k.clone(), Some(v) => format!("{}={}", self.k, v) } }
    fn dk(&self) -> Vec<u8> { fdecode(&self.k) }
    fn dv(&self) -> Vec<u8> { fdecode(self.v.as_deref().unwrap_or("")) }
}
#[derive(Clone, Debug)]
struct Url { segs: Vec<String>, has_q: bool, params: Vec<Param> }
impl Url {
    fn path(&self) -> String { format!("/{}", self.segs.join("/")) }
    fn query(&self) -> Option<String> { if self.has_q { Some(self.params.iter().map(|p| p.text()).collect::<Vec<_>>().join("&")) } else { None } }
    fn render(&self) -> String { match self.query() { None => self.path(), Some(q) => format!("{}?{}", self.path(), q) } }
}

struct Cfg { flags: [bool; 6], mk: Vec<String>, mk_name: &'static str }
impl Cfg {
    fn json(&self) -> Value {
        json!({"ihc": self.flags[0], "ihdc": self.flags[1], "ipqc": self.flags[2], "imqp": self.flags[3], "pass": self.flags[4], "amah": self.flags[5], "mk": self.mk})
    }
    fn ipqc(&self) -> bool { self.flags[2] }
    fn imqp(&self) -> bool { self.flags[3] }
    fn pass(&self) -> bool { self.flags[4] }
    fn is_mk(&self, dk: &[u8]) -> bool { self.mk.iter().any(|m| m.as_bytes() == dk) }
}

/// `clean`: the vocabulary of the `differ` family (decoded keys free of % & =, decoded values free of % &)
fn gen_url(rng: &mut Rng, cfg: &Cfg, clean: bool, distinct_keys: bool) -> Url {
    let nseg = match rng.below(10) { 0 => 0, 1..=4 => 1, 5..=7 => 2, _ => 3 };
    let mut segs: Vec<String> = (0..nseg).map(|_| rng.pick(SEGS).to_string()).collect();
    if nseg > 0 && rng.chance(1, 10) { segs.push(String::new()); } // trailing slash
    let has_q = rng.chance(4, 5);
    let mut params: Vec<Param> = Vec::new();
    if has_q {
        let np = match rng.below(10) { 0 => 0, 1 | 2 => 1, 3..=5 => 2, 6 | 7 => 3, _ => 4 };
        let mut tries = 0;
        while params.len() < np && tries < 40 {
            tries += 1;
            let k = if !distinct_keys && !params.is_empty() && rng.chance(1, 6) { params[rng.below(params.len())].k.clone() } else { rng.pick(KEYS).to_string() };
            let v = if rng.chance(1, 6) { None } else { Some(rng.pick(VALUES).to_string()) };
            // domain: no bare "=" piece (empty key AND empty value); "=v" is generated
            let v = if k.is_empty() && v.as_deref().unwrap_or("").is_empty() { Some("v0".to_string()) } else { v };
            let p = Param { k, v };
            let (dk, dv) = (p.dk(), p.dv());
            // domain: the rule's own URL has no parameter of the marketing set when such parameters are ignored
            if cfg.imqp() && cfg.is_mk(&dk) { continue; }
            if clean && (dk.iter().any(|c| b"%&=".contains(c)) || dv.iter().any(|c| b"%&".contains(c))) { continue; }
            if distinct_keys && params.iter().any(|q| lower(&q.dk()) == lower(&dk)) { continue; }
            params.push(p);
        }
    }
    let mut u = Url { segs, has_q, params };
    // "#frag": neither side treats it as a fragment (sanitize_url encodes '#'); it is literal text of the last component
    if rng.chance(1, 8) {
        if let Some(p) = u.params.last_mut() {
            match &mut p.v { Some(v) => v.push_str("#frag"), None => p.k.push_str("#frag") }
        } else if u.has_q { u.params.push(Param { k: "#frag".into(), v: None }); }
        else if let Some(s) = u.segs.last_mut() { s.push_str("#frag"); } else { u.segs.push("#frag".into()); }
    }
    u
}

/// permutation of the parameters that keeps the relative order of parameters with the same decoded key
fn permute_stable(rng: &mut Rng, params: &[Param]) -> Vec<Param> {
    let n = params.len();
    let mut idx: Vec<usize> = (0..n).collect();
    for i in (1..n).rev() { let j = rng.below(i + 1); idx.swap(i, j); }
    let mut out: Vec<Param> = idx.iter().map(|i| params[*i].clone()).collect();
    // positions now held by one decoded key receive that key's parameters in their original order
    let mut seen: Vec<Vec<u8>> = Vec::new();
    for p in params {
        let dk = p.dk();
        if seen.contains(&dk) { continue; }
        seen.push(dk.clone());
        let originals: Vec<Param> = params.iter().filter(|q| q.dk() == dk).cloned().collect();
        let mut it = originals.into_iter();
        for slot in out.iter_mut() { if slot.dk() == dk { *slot = it.next().unwrap(); } }
    }
    out
}

fn with_target(target: &str, skipped: &Option<String>) -> String {
    match skipped { None => target.to_string(), Some(s) => format!("{}{}{}", target, if target.contains('?') { '&' } else { '?' }, s) }
}

fn gen_case(rng: &mut Rng, cfg: &Cfg, family: &str) -> Value {
    let mut family = family.to_string();
    let target = rng.pick(TARGETS).to_string();
    let host: Value = if rng.chance(1, 2) { Value::Null } else { json!(*rng.pick(HOSTS)) };
    let clean = family == "differ";
    let distinct = family == "differ" || family == "case";
    let mut base = gen_url(rng, cfg, clean, distinct);
    let mut how = json!({});
    let url: String;
    let mut expect_match = true;
    let mut expect_skipped: Option<String> = None;
    match family.as_str() {
        "perm" => {
            let mut u = base.clone();
            u.params = permute_stable(rng, &base.params);
            url = u.render();
        }
        "marketing" if !cfg.mk.is_empty() => {
            let n = 1 + rng.below(2.min(cfg.mk.len()));
            // the added parameters have keys the URL does not carry yet (a later parameter of the same key would replace them)
            let mut keys: Vec<String> = cfg.mk.iter().filter(|k| !base.params.iter().any(|p| p.dk() == k.as_bytes())).cloned().collect();
            let n = n.min(keys.len());
            let mut extras: Vec<(String, &str, &str)> = Vec::new();
            for _ in 0..n { let i = rng.below(keys.len()); let k = keys.remove(i); let (raw, canon) = *rng.pick(MVALUES); extras.push((k, raw, canon)); }
            let mut u = base.clone();
            if !u.has_q { u.has_q = true; }
            for (k, raw, _) in &extras {
                let pos = rng.below(u.params.len() + 1);
                let v = if rng.chance(1, 8) { None } else { Some(raw.to_string()) };
                u.params.insert(pos, Param { k: k.clone(), v });
            }
            // what has to be forwarded: the added parameters, ascending keys, "k" alone for an empty value
            let mut fw: Vec<(String, String)> = Vec::new();
            for p in &u.params {
                if let Some((k, _, canon)) = extras.iter().find(|(k, _, _)| *k == p.k) {
                    fw.push((k.clone(), if p.v.is_none() { k.clone() } else { format!("{}={}", k, canon) }));
                }
            }
            fw.sort();
            url = u.render();
            expect_match = cfg.imqp() || extras.is_empty();
            if cfg.imqp() && cfg.pass() { expect_skipped = Some(fw.iter().map(|x| x.1.clone()).collect::<Vec<_>>().join("&")); }
            how = json!({"added": extras.iter().map(|e| e.0.clone()).collect::<Vec<_>>()});
        }
        "case" => {
            // domain: bytewise order of the decoded keys is not changed by the swap nor by lowercasing
            let mut tries = 0;
            loop {
                let sw: Vec<Vec<u8>> = base.params.iter().map(|p| fdecode(&swap_case(&p.k))).collect();
                let ks: Vec<Vec<u8>> = base.params.iter().map(|p| p.dk()).collect();
                let mut ok = true;
                for i in 0..ks.len() { for j in 0..i {
                    let c = ks[i].cmp(&ks[j]);
                    if c == Ordering::Equal || c != sw[i].cmp(&sw[j]) || c != lower(&ks[i]).cmp(&lower(&ks[j])) { ok = false; }
                } }
                if cfg.imqp() && sw.iter().any(|k| cfg.is_mk(k)) { ok = false; }
                if ok || tries > 50 { if !ok { base.params.clear(); } break; }
                tries += 1;
                base = gen_url(rng, cfg, false, true);
            }
            url = swap_case(&base.render());
            let significant = letter_outside_escape_path(&base.path()) || base.params.iter().any(|p| letter_outside_escape(&p.k) || letter_outside_escape(p.v.as_deref().unwrap_or("")));
            expect_match = cfg.ipqc() || !significant;
            how = json!({"significant_letters": significant});
        }
        "differ" => {
            let mut u = base.clone();
            let mut tries = 0;
            loop {
                tries += 1;
                let m = rng.below(7);
                let np = u.params.len();
                let what: &str;
                match m {
                    0 if !u.segs.is_empty() => { let i = rng.below(u.segs.len()); u.segs[i].push_str("-9"); what = "segment text"; }
                    1 => { u.segs.push("x9".into()); what = "segment added"; }
                    2 if u.segs.len() >= 2 => { u.segs.pop(); what = "segment removed"; }
                    3 => { u.has_q = true; let pos = rng.below(np + 1); u.params.insert(pos, Param { k: "zq9".into(), v: Some("1".into()) }); what = "parameter added"; }
                    4 if np > 0 => { let i = rng.below(np); u.params.remove(i); what = "parameter removed"; }
                    5 if np > 0 => { let i = rng.below(np); let p = &mut u.params[i]; p.v = Some(format!("{}7", p.v.clone().unwrap_or_default())); what = "value changed"; }
                    6 if np > 0 => {
                        let i = rng.below(np);
                        let nk = format!("{}7", u.params[i].k);
                        if u.params.iter().any(|q| lower(&q.dk()) == lower(&fdecode(&nk))) { if tries < 20 { continue; } else { u.segs.push("x9".into()); what = "segment added"; } }
                        else { u.params[i].k = nk; what = "key changed"; }
                    }
                    _ => { if tries < 20 { continue; } u.segs.push("x9".into()); what = "segment added"; }
                }
                how = json!({"mutation": what});
                break;
            }
            if rng.chance(1, 3) { u.params = permute_stable(rng, &u.params); }
            url = u.render();
            expect_match = false;
        }
        "idem" => {
            url = if rng.chance(1, 3) { rng.pick(JUNK).to_string() } else {
                let mut u = gen_url(rng, cfg, false, false);
                if !cfg.mk.is_empty() && rng.chance(1, 3) { u.has_q = true; u.params.push(Param { k: rng.pick(&cfg.mk).clone(), v: Some(rng.pick(VALUES).to_string()) }); }
                u.render()
            };
        }
        _ => { family = "self".into(); url = base.render(); }
    }
    let expect_location = with_target(&target, &expect_skipped);
    json!({"cfg": cfg.json(), "family": family, "rule": {"path": base.path(), "query": base.query()}, "target": target, "url": url, "host": host,
           "expect": {"match": expect_match, "skipped": expect_skipped, "location": expect_location}, "how": how, "mk_name": cfg.mk_name})
}

fn letter_outside_escape_path(path: &str) -> bool {
    // the path is literal text on both sides: the hex digits of an escape count as letters
    path.bytes().any(|b| b.is_ascii_alphabetic())
}

pub fn generate(seed: u64, thorough: bool) -> Vec<Value> {
    let mut rng = Rng::new(seed ^ 0x09);
    let rounds = if thorough { 160 } else { 16 };
    let families = ["self", "perm", "marketing", "case", "differ", "idem"];
    let mut out = Vec::new();
    let mut f = rng.below(families.len());
    for _ in 0..rounds {
        for bits in 0..64usize {
            for (mk_name, mk) in [("default", MK_DEFAULT), ("empty", &[][..]), ("custom", MK_CUSTOM)] {
                let mut flags = [false; 6];
                for (i, fl) in flags.iter_mut().enumerate() { *fl = (bits >> i) & 1 == 1; }
                let cfg = Cfg { flags, mk: mk.iter().map(|s| s.to_string()).collect(), mk_name };
                f = (f + 1 + rng.below(2)) % families.len();
                let mut r = rng.fork();
                out.push(gen_case(&mut r, &cfg, families[f]));
            }
        }
    }
    out
}

// ------------------------------------------------------------------------------------------- running
/// S: a string or a list of parts (string | [string, count])
fn jtext(v: &Value) -> Option<String> {
    match v {
        Value::Null => None,
        Value::String(s) => Some(s.clone()),
        Value::Array(parts) => {
            let mut s = String::new();
            for p in parts {
                match p {
                    Value::String(t) => s.push_str(t),
                    Value::Array(tc) if tc.len() == 2 => { let t = tc[0].as_str().unwrap_or(""); for _ in 0..tc[1].as_u64().unwrap_or(1) { s.push_str(t); } }
                    _ => {}
                }
            }
            Some(s)
        }
        _ => None,
    }
}

/// bytes -> Coq `list N`, long runs of one byte as `rep k b tail`
pub fn cq_bytes_rle(b: &[u8]) -> String {
    if b.len() < 400 { return cq_bytes(b); }
    let mut parts: Vec<(bool, usize, usize)> = Vec::new(); // (is_run, start, end)
    let mut i = 0;
    let mut lit_start = 0;
    while i < b.len() {
        let mut j = i;
        while j < b.len() && b[j] == b[i] { j += 1; }
        if j - i >= 64 {
            if lit_start < i { parts.push((false, lit_start, i)); }
            parts.push((true, i, j));
            lit_start = j;
        }
        i = j;
    }
    if lit_start < b.len() { parts.push((false, lit_start, b.len())); }
    let mut acc = String::from("[]");
    for (is_run, s, e) in parts.iter().rev() {
        acc = if *is_run { format!("(rep {} {} {})", e - s, b[*s], acc) } else { format!("({} ++ {})", cq_bytes(&b[*s..*e]), acc) };
    }
    acc
}
fn cq_s(s: &str) -> String { cq_bytes_rle(s.as_bytes()) }
fn cq_os(s: &Option<String>) -> String { match s { None => "None".into(), Some(x) => format!("(Some {})", cq_s(x)) } }

fn cq_family(f: &str) -> &'static str {
    match f { "self" => "FSelf", "perm" => "FPerm", "marketing" => "FMarketing", "case" => "FCase", "differ" => "FDiffer", "idem" => "FIdem", _ => "FWitness" }
}

pub fn run_case(id: usize, input: &Value) {
    let c = &input["cfg"];
    let flag = |n: &str| c[n].as_bool().unwrap_or(false);
    let mk: Vec<String> = c["mk"].as_array().map(|a| a.iter().filter_map(|x| x.as_str().map(|s| s.to_string())).collect()).unwrap_or_default();
    let config = RouterConfig {
        ignore_host_case: flag("ihc"), ignore_header_case: flag("ihdc"), ignore_path_and_query_case: flag("ipqc"),
        ignore_marketing_query_params: flag("imqp"), marketing_query_params: mk.iter().cloned().collect::<HashSet<String>>(),
        pass_marketing_query_params_to_target: flag("pass"), always_match_any_host: flag("amah"),
    };
    let family = input["family"].as_str().unwrap_or("witness").to_string();
    let rule_path = jtext(&input["rule"]["path"]).unwrap_or_default();
    let rule_query = jtext(&input["rule"]["query"]);
    let target = input["target"].as_str().unwrap_or("/t").to_string();
    let url = jtext(&input["url"]).unwrap_or_default();
    let host = input["host"].as_str().map(|s| s.to_string());
    let expect_match = input["expect"]["match"].as_bool().unwrap_or(true);
    let expect_skipped = input["expect"]["skipped"].as_str().map(|s| s.to_string());
    let expect_location = input["expect"]["location"].as_str().map(|s| s.to_string());

    let (cfg2, rp, rq, tg, u2, h2) = (config.clone(), rule_path.clone(), rule_query.clone(), target.clone(), url.clone(), host.clone());
    let res = catch(move || {
        // half of the cases (decided by the input itself): the rule declares a marker which its path and query do not use
        // (markers used by the host or the target only are common); the literal source must be normalised all the same
        let unused_marker = (rp.len() + rq.as_ref().map(|q: &String| q.len()).unwrap_or(0)) % 2 == 1;
        let mut rule_json = json!({"id": "r", "rank": 0, "source": {"path": rp, "query": rq}, "target": tg, "status_code": 301});
        if unused_marker { rule_json["markers"] = json!([{"name": "qqq9", "regex": "[a-z]+"}]); }
        let rule: Rule = serde_json::from_value(rule_json).expect("rule json");
        let route = rule.clone().into_route(&cfg2);
        let rule_static = match route.path_and_query() { StaticOrDynamic::Static(s) => Some(s.clone()), StaticOrDynamic::Dynamic(_) => None };
        let req = Request::from_config(&cfg2, u2, h2, None, None, None, None);
        let o_req = req.path_and_query();
        let mut router = Router::<Rule>::from_config(cfg2.clone());
        router.insert(rule);
        let reb = router.rebuild_request(&req);
        let reb2 = router.rebuild_request(&reb);
        let matched = router.match_request(&reb);
        let o_match = !matched.is_empty();
        // the callers in src/api match the request of from_config/from_example without rebuilding it: same verdict expected
        let direct = !router.match_request(&req).is_empty();
        let o_idem = serde_json::to_string(&reb).unwrap() == serde_json::to_string(&reb2).unwrap() && direct == o_match;
        let mut location: Option<String> = None;
        if o_match {
            let mut action = Action::from_routes_rule(matched, &reb, None);
            let hs: Vec<Header> = action.filter_headers(Vec::new(), 200, false, None);
            let locs: Vec<&Header> = hs.iter().filter(|h| h.name.to_lowercase() == "location").collect();
            if locs.len() > 1 { panic!("more than one Location header"); }
            location = locs.first().map(|h| h.value.clone());
        }
        (rule_static, o_req, reb.path_and_query(), reb2.path_and_query(), o_idem, reb.host.clone(), reb.path_and_query_skipped.skipped_query_params.clone(), o_match, location)
    });
    let (rule_static, o_req, o_reb, o_reb2, o_idem, o_host, o_skipped, o_match, o_location) = match res {
        Ok(x) => x,
        Err(e) => { emit(id, "", input.clone(), &["panic".to_string()], false, json!({"panic": e})); return; }
    };
    let cq_cfg = format!("(mk_cfg {} {} {} {} {} {} {})", cq_bool(flag("ihc")), cq_bool(flag("ihdc")), cq_bool(flag("ipqc")), cq_bool(flag("imqp")),
        cq_bool(flag("pass")), cq_bool(flag("amah")), cq_list(&mk, |s| cq_str(s)));
    let coq = format!("{{| c_cfg := {}; c_family := {}; c_rule_path := {}; c_rule_query := {}; c_target := {}; c_url := {}; c_host := {}; c_expect_match := {}; c_expect_skipped := {}; c_expect_location := {}; o_rule_static := {}; o_req := {}; o_req_rebuilt := {}; o_req_rebuilt2 := {}; o_idem := {}; o_host_rebuilt := {}; o_skipped := {}; o_match := {}; o_location := {} |}}",
        cq_cfg, cq_family(&family), cq_s(&rule_path), cq_os(&rule_query), cq_s(&target), cq_s(&url), cq_os(&host),
        cq_bool(expect_match), cq_os(&expect_skipped), cq_os(&expect_location),
        cq_os(&rule_static), cq_s(&o_req), cq_s(&o_reb), cq_s(&o_reb2), cq_bool(o_idem), cq_os(&o_host), cq_os(&o_skipped), cq_bool(o_match), cq_os(&o_location));

    let mut tags = vec![format!("family:{}", family)];
    for f in FLAGS { if flag(f) { tags.push(format!("flag:{}", f)); } }
    if let Some(n) = input["mk_name"].as_str() { tags.push(format!("mk:{}", n)); }
    let has_query = url.contains('?');
    if has_query { tags.push("has-query".into()); }
    if !url.is_ascii() { tags.push("non-ascii".into()); }
    if url.contains('%') { tags.push("pct-escape".into()); }
    if url.contains('+') { tags.push("plus".into()); }
    if url.contains('#') { tags.push("fragment".into()); }
    if host.is_some() { tags.push("host".into()); }
    if let Some(q) = url.splitn(2, '?').nth(1) {
        let ks: Vec<Vec<u8>> = q.split('&').filter(|p| !p.is_empty()).map(|p| fdecode(p.splitn(2, '=').next().unwrap())).collect();
        if (0..ks.len()).any(|i| (0..i).any(|j| ks[i] == ks[j])) { tags.push("repeated-key".into()); }
        if ks.len() >= 2 { tags.push("params>=2".into()); }
    }
    tags.push(if o_match { "matched".into() } else { "not-matched".into() });
    if o_skipped.is_some() { tags.push("skipped-forwarded".into()); }
    let nontrivial = family != "idem" && has_query;
    let short = |s: &str| if s.len() > 300 { format!("{}...({} bytes)", s.chars().take(120).collect::<String>(), s.len()) } else { s.to_string() };
    emit(id, &coq, input.clone(), &tags, nontrivial, json!({"rule_static": rule_static.as_deref().map(short), "request": short(&o_req), "rebuilt": short(&o_reb),
        "idempotent": o_idem, "host": o_host, "skipped": o_skipped, "match": o_match, "location": o_location}));
}
