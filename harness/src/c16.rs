//! C16: the HTML tokenizer (src/html/mod.rs) is lossless and total.
//! Input: {"bytes":[u8...], "ctx":"<context tag for new_fragment, optional, default empty>"}
//!
//! Driver program (the Coq side, RIO.C16Run.tokenize_all, runs the same one on the model):
//!   t = Tokenizer::new_fragment(bytes, ctx); loop { tt = t.next()?; if tt == ErrorToken {break}
//!   raw(), span from buffered().len() and raw().len(), text(), tag_name(), tag_attr() until (None,None,false) }
//!   final: raw() of the ErrorToken and buffered().
//! The raw/data Span fields are private: the raw span is derived from the lengths of raw() and buffered(),
//! the data span is only visible through text()/tag_name().
//! to_lowercase oracle: for every tag token, every candidate name substring (see `lower_candidates`) whose
//! real String::to_lowercase differs from ASCII lowercasing is reported in c_lower.
use crate::common::*;
use redirectionio::html::{TokenType, Tokenizer};
use serde_json::{json, Value};
use std::collections::BTreeMap;
use std::collections::BTreeSet;

// bulk feed for the extracted model (mlrun/): a child module, so that it runs this module's private `observe`
#[path = "bulk16.rs"]
pub mod bulk16;

type TextRes = Result<Option<Vec<u8>>, ()>;
type NameRes = Result<(Option<Vec<u8>>, bool), ()>;
type AttrRes = Result<(Option<Vec<u8>>, Option<Vec<u8>>, bool), ()>;

struct Tok {
    kind: TokenType,
    rs: usize,
    re: usize,
    raw: Vec<u8>,
    text: TextRes,
    name: NameRes,
    attrs: Vec<AttrRes>,
}

struct Obs {
    toks: Vec<Tok>,
    end: u8,
    ers: usize,
    ere: usize,
    err_raw: Vec<u8>,
    rest: Vec<u8>,
}

fn kind_code(t: TokenType) -> u8 {
    match t {
        TokenType::NoneToken => 0,
        TokenType::ErrorToken => 1,
        TokenType::TextToken => 2,
        TokenType::StartTagToken => 3,
        TokenType::EndTagToken => 4,
        TokenType::SelfClosingTagToken => 5,
        TokenType::CommentToken => 6,
        TokenType::DoctypeToken => 7,
    }
}
fn kind_name(t: TokenType) -> &'static str {
    match t {
        TokenType::NoneToken => "None",
        TokenType::ErrorToken => "Error",
        TokenType::TextToken => "Text",
        TokenType::StartTagToken => "StartTag",
        TokenType::EndTagToken => "EndTag",
        TokenType::SelfClosingTagToken => "SelfClosingTag",
        TokenType::CommentToken => "Comment",
        TokenType::DoctypeToken => "Doctype",
    }
}

fn observe(bytes: Vec<u8>, ctx: String) -> Obs {
    let n = bytes.len();
    let mut t = Tokenizer::new_fragment(bytes, ctx);
    let mut toks = Vec::new();
    let end;
    loop {
        let tt = match t.next() {
            Err(_) => {
                end = 1;
                break;
            }
            Ok(tt) => tt,
        };
        if tt == TokenType::ErrorToken {
            end = 0;
            break;
        }
        let raw = t.raw();
        let re = n.wrapping_sub(t.buffered().len());
        let rs = re.wrapping_sub(raw.len());
        let text: TextRes = t.text().map(|o| o.map(String::into_bytes)).map_err(|_| ());
        let name: NameRes = t.tag_name().map(|(o, b)| (o.map(String::into_bytes), b)).map_err(|_| ());
        let mut attrs: Vec<AttrRes> = Vec::new();
        for _ in 0..n + 2 {
            let a: AttrRes = t.tag_attr().map(|(k, v, b)| (k.map(String::into_bytes), v.map(String::into_bytes), b)).map_err(|_| ());
            let stop = matches!(&a, Ok((None, None, false)));
            attrs.push(a);
            if stop {
                break;
            }
        }
        toks.push(Tok { kind: tt, rs, re, raw, text, name, attrs });
        // a tokenizer that never reaches the ErrorToken would be a totality violation: bounded here, the
        // count check of the specification then fails on the observation
        if toks.len() > n + 3 {
            end = 2;
            break;
        }
    }
    let err_raw = t.raw();
    let rest = t.buffered();
    let ere = n.wrapping_sub(rest.len());
    let ers = ere.wrapping_sub(err_raw.len());
    Obs { toks, end, ers, ere, err_raw, rest }
}

// ------------------------------------------------------------------------------------------ printers
fn cq_optb(o: &Option<Vec<u8>>) -> String {
    match o {
        None => "None".to_string(),
        Some(v) => format!("(Some {})", cq_bytes(v)),
    }
}
fn cq_text(r: &TextRes) -> String {
    match r {
        Err(()) => "E".to_string(),
        Ok(None) => "TN".to_string(),
        Ok(Some(s)) => format!("(TS {})", cq_bytes(s)),
    }
}
fn cq_name(r: &NameRes) -> String {
    match r {
        Err(()) => "E".to_string(),
        Ok((None, false)) => "NN".to_string(),
        Ok((Some(s), b)) => format!("(NS {} {})", cq_bytes(s), cq_bool(*b)),
        Ok((o, b)) => format!("(ROk ({}, {}))", cq_optb(o), cq_bool(*b)),
    }
}
fn cq_attr(r: &AttrRes) -> String {
    match r {
        Err(()) => "E".to_string(),
        Ok((None, None, false)) => "AN".to_string(),
        Ok((Some(k), Some(v), b)) => format!("AS {} {} {}", cq_bytes(k), cq_bytes(v), cq_bool(*b)),
        Ok((k, v, b)) => format!("ROk ({}, {}, {})", cq_optb(k), cq_optb(v), cq_bool(*b)),
    }
}
fn cq_tok(t: &Tok) -> String {
    format!(
        "T {} {} {} {} {} {} {}",
        kind_code(t.kind),
        t.rs,
        t.re,
        cq_bytes(&t.raw),
        cq_text(&t.text),
        cq_name(&t.name),
        cq_list(&t.attrs, cq_attr)
    )
}

// -------------------------------------------------------------------------------- to_lowercase oracle
fn ascii_lower(b: &[u8]) -> Vec<u8> {
    b.iter().map(|c| c.to_ascii_lowercase()).collect()
}
fn is_ws(c: u8) -> bool {
    c == b' ' || c == b'\n' || c == b'\r' || c == b'\t' || c == 0x0c
}
/// Every substring of a tag token that can be a tag name or an attribute key (a superset: starts after
/// any delimiter-like byte, ends before white space, '/', '>', '=' or at the end), valid UTF-8, non-ASCII,
/// and on which the real to_lowercase differs from ASCII lowercasing.
fn lower_candidates(raw: &[u8], table: &mut BTreeMap<Vec<u8>, Vec<u8>>) {
    if raw.is_ascii() {
        return;
    }
    let mut starts = vec![0usize];
    let mut ends = vec![raw.len()];
    for (i, c) in raw.iter().enumerate() {
        if is_ws(*c) || matches!(*c, b'/' | b'=' | b'>' | b'"' | b'\'' | b'<') {
            starts.push(i + 1);
        }
        if is_ws(*c) || matches!(*c, b'/' | b'=' | b'>') {
            ends.push(i);
        }
    }
    for s in &starts {
        for e in &ends {
            if s < e {
                let sub = &raw[*s..*e];
                if sub.is_ascii() {
                    continue;
                }
                if let Ok(st) = std::str::from_utf8(sub) {
                    let l = st.to_lowercase().into_bytes();
                    if l != ascii_lower(sub) {
                        table.insert(sub.to_vec(), l);
                    }
                }
            }
        }
    }
}

// ------------------------------------------------------------------------------------ coverage tags
const RAW_NAMES: &[&str] = &["iframe", "noembed", "noframes", "noscript", "plaintext", "script", "style", "title", "textarea", "xmp"];

/// COVERAGE ONLY (never compared with anything): which script-data states of the WHATWG machine, as cut
/// into functions by the crate, a script body visits.  Returns the visited states and the way out.
fn script_trace(body: &[u8], tags: &mut BTreeSet<String>) {
    #[derive(Clone, Copy, PartialEq, Debug)]
    enum S {
        Data,
        Lt,
        EndTagOpen,
        EscStart,
        EscStartDash,
        Esc,
        EscDash,
        EscDashDash,
        EscLt,
        EscEndTagOpen,
        DblEscStart,
        DblEsc,
        DblEscDash,
        DblEscDashDash,
        DblEscLt,
        DblEscEnd,
    }
    fn end_tag(b: &[u8], p: usize) -> (Option<usize>, bool) {
        // after "</": (Some(new position) when not an end tag | None when it is, hit_eof)
        let name = b"script";
        let mut q = p;
        for c in name.iter() {
            if q >= b.len() {
                return (Some(q), true);
            }
            if b[q].to_ascii_lowercase() != *c {
                return (Some(q), false);
            }
            q += 1;
        }
        if q >= b.len() {
            return (Some(q), true);
        }
        if is_ws(b[q]) || b[q] == b'/' || b[q] == b'>' {
            (None, false)
        } else {
            (Some(q), false)
        }
    }
    let mut st = S::Data;
    let mut p = 0usize;
    let mut steps = 0;
    loop {
        steps += 1;
        if steps > 10 * body.len() + 50 {
            tags.insert("ss-trace-gave-up".to_string());
            return;
        }
        tags.insert(format!("ss:{:?}", st));
        match st {
            S::EndTagOpen | S::EscEndTagOpen | S::DblEscEnd => {
                let (r, eof) = end_tag(body, p);
                match r {
                    None => {
                        if st == S::DblEscEnd {
                            tags.insert("ss:DblEscEnd-matched".to_string());
                            p += 7;
                            st = S::Esc;
                            continue;
                        }
                        tags.insert(format!("ss-exit:endtag@{:?}", st));
                        return;
                    }
                    Some(q) => {
                        if eof {
                            tags.insert(format!("ss-exit:eof@{:?}", st));
                            return;
                        }
                        p = q;
                        st = match st {
                            S::EndTagOpen => S::Data,
                            S::EscEndTagOpen => S::Esc,
                            _ => S::DblEsc,
                        };
                        continue;
                    }
                }
            }
            S::DblEscStart => {
                p -= 1;
                let mut ok = true;
                for c in b"script".iter() {
                    if p >= body.len() {
                        tags.insert(format!("ss-exit:eof@{:?}", st));
                        return;
                    }
                    if body[p].to_ascii_lowercase() != *c {
                        ok = false;
                        break;
                    }
                    p += 1;
                }
                if !ok {
                    st = S::Esc;
                    continue;
                }
                if p >= body.len() {
                    tags.insert(format!("ss-exit:eof@{:?}", st));
                    return;
                }
                if is_ws(body[p]) || body[p] == b'/' || body[p] == b'>' {
                    p += 1;
                    st = S::DblEsc;
                } else {
                    st = S::Esc;
                }
                continue;
            }
            _ => {}
        }
        if p >= body.len() {
            tags.insert(format!("ss-exit:eof@{:?}", st));
            return;
        }
        let c = body[p];
        p += 1;
        st = match st {
            S::Data => if c == b'<' { S::Lt } else { S::Data },
            S::Lt => match c {
                b'/' => S::EndTagOpen,
                b'!' => S::EscStart,
                _ => { p -= 1; S::Data }
            },
            S::EscStart => if c == b'-' { S::EscStartDash } else { p -= 1; S::Data },
            S::EscStartDash => if c == b'-' { S::EscDashDash } else { p -= 1; S::Data },
            S::Esc | S::EscDash => match c {
                b'-' => if st == S::Esc { S::EscDash } else { S::EscDashDash },
                b'<' => S::EscLt,
                _ => S::Esc,
            },
            S::EscDashDash => match c {
                b'-' => S::EscDashDash,
                b'<' => S::EscLt,
                b'>' => S::Data,
                _ => S::Esc,
            },
            S::EscLt => if c == b'/' { S::EscEndTagOpen } else if c.is_ascii_alphabetic() { S::DblEscStart } else { p -= 1; S::Data },
            S::DblEsc | S::DblEscDash => match c {
                b'-' => if st == S::DblEsc { S::DblEscDash } else { S::DblEscDashDash },
                b'<' => S::DblEscLt,
                _ => S::DblEsc,
            },
            S::DblEscDashDash => match c {
                b'-' => S::DblEscDashDash,
                b'<' => S::DblEscLt,
                b'>' => S::Data,
                _ => S::DblEsc,
            },
            S::DblEscLt => if c == b'/' { S::DblEscEnd } else { p -= 1; S::DblEsc },
            S::EndTagOpen | S::EscEndTagOpen | S::DblEscEnd | S::DblEscStart => unreachable!(),
        };
    }
}

fn coverage_tags(bytes: &[u8], ctx: &str, o: &Obs, lower_n: usize) -> Vec<String> {
    let mut tags: BTreeSet<String> = BTreeSet::new();
    let n = bytes.len();
    for t in &o.toks {
        tags.insert(format!("tok:{}", kind_name(t.kind)));
    }
    tags.insert(format!("ntok:{}", match o.toks.len() { 0 => "0", 1 => "1", 2..=3 => "2-3", 4..=7 => "4-7", _ => "8+" }));
    tags.insert(format!("len:{}", match n { 0..=3 => "0-3", 4 => "4", 5..=15 => "5-15", 16..=31 => "16-31", _ => "32+" }));
    if std::str::from_utf8(bytes).is_err() {
        tags.insert("invalid-utf8".to_string());
    } else if !bytes.is_ascii() {
        tags.insert("non-ascii".to_string());
    }
    if bytes.contains(&0) {
        tags.insert("nul".to_string());
    }
    if !ctx.is_empty() {
        tags.insert(format!("ctx:{}", ctx.to_ascii_lowercase()));
    }
    if lower_n > 0 {
        tags.insert("lower-oracle".to_string());
    }
    if o.end == 1 {
        tags.insert("next-err".to_string());
    }
    if !o.err_raw.is_empty() {
        tags.insert("eof-in-tag".to_string());
    }
    if !o.rest.is_empty() {
        tags.insert("rest-nonempty".to_string());
    }
    // raw-text mode: which element opened it (a start tag in the list, or the context tag on the first token)
    let mut raw_mode: Option<String> = if RAW_NAMES.contains(&ctx.to_lowercase().as_str()) { Some(ctx.to_lowercase()) } else { None };
    for (i, t) in o.toks.iter().enumerate() {
        let last = i + 1 == o.toks.len() && o.err_raw.is_empty() && t.re == n;
        if t.text.is_err() || t.name.is_err() || t.attrs.iter().any(|a| a.is_err()) {
            tags.insert("accessor-err".to_string());
        }
        if t.attrs.len() > 1 {
            tags.insert(format!("attrs:{}", std::cmp::min(t.attrs.len() - 1, 4)));
        }
        match t.kind {
            TokenType::TextToken => {
                if let Some(name) = raw_mode.take() {
                    match name.as_str() {
                        "script" => {
                            tags.insert("script".to_string());
                            // the script body starts at this token; the trace continues to the end of input
                            script_trace(&bytes[t.rs..], &mut tags);
                        }
                        "plaintext" => {
                            tags.insert("plaintext".to_string());
                        }
                        _ => {
                            tags.insert("rawtext".to_string());
                            tags.insert(format!("rawtext:{}", name));
                        }
                    }
                    if last {
                        tags.insert("eof-in-rawtext".to_string());
                    }
                } else if t.raw.starts_with(b"<![CDATA[") {
                    tags.insert("cdata".to_string());
                    if last && !t.raw.ends_with(b"]]]>") {
                        tags.insert("eof-in-cdata".to_string());
                    }
                } else if last {
                    tags.insert("eof-in-text".to_string());
                }
            }
            TokenType::StartTagToken | TokenType::SelfClosingTagToken => {
                raw_mode = None;
                if let Ok((Some(nm), _)) = &t.name {
                    if let Ok(s) = std::str::from_utf8(nm) {
                        if RAW_NAMES.contains(&s) {
                            raw_mode = Some(s.to_string());
                        }
                    }
                }
            }
            TokenType::CommentToken => {
                raw_mode = None;
                tags.insert("comment".to_string());
                if last && !t.raw.ends_with(b">") {
                    tags.insert("eof-in-comment".to_string());
                }
            }
            TokenType::DoctypeToken => {
                raw_mode = None;
                tags.insert("doctype".to_string());
                if last && !t.raw.ends_with(b">") {
                    tags.insert("eof-in-doctype".to_string());
                }
            }
            _ => {
                raw_mode = None;
            }
        }
    }
    tags.into_iter().collect()
}

// ------------------------------------------------------------------------------------------ run_case
pub fn run_case(id: usize, input: &Value) {
    let bytes: Vec<u8> = input["bytes"].as_array().map(|a| a.iter().map(|x| x.as_u64().unwrap_or(0) as u8).collect()).unwrap_or_default();
    let ctx: String = input.get("ctx").and_then(|c| c.as_str()).unwrap_or("").to_string();
    let b2 = bytes.clone();
    let c2 = ctx.clone();
    // "tokenisation terminates" is part of the property: the tokenizer runs in a watched thread; a call that does not
    // return within 10 s is reported with its input and the harness stops (the thread cannot be killed)
    let (tx, rx) = std::sync::mpsc::channel();
    std::thread::spawn(move || { let _ = tx.send(catch(move || observe(b2, c2))); });
    let o = match rx.recv_timeout(std::time::Duration::from_secs(10)) {
        Ok(Ok(o)) => o,
        Ok(Err(msg)) => {
            emit(id, "", input.clone(), &["panic".to_string()], false, json!({"panic": msg}));
            return;
        }
        Err(_) => {
            emit(id, "", input.clone(), &["panic".to_string(), "timeout".to_string()], false, json!({"panic": "TIMEOUT: the tokenizer did not return within 10 s on this input (non-termination)"}));
            use std::io::Write; let _ = std::io::stdout().flush();
            std::process::exit(3);
        }
    };
    let mut table: BTreeMap<Vec<u8>, Vec<u8>> = BTreeMap::new();
    for t in &o.toks {
        match t.kind {
            TokenType::StartTagToken | TokenType::EndTagToken | TokenType::SelfClosingTagToken => lower_candidates(&t.raw, &mut table),
            _ => {}
        }
    }
    if ctx.to_lowercase().as_bytes() != ascii_lower(ctx.as_bytes()).as_slice() {
        table.insert(ctx.as_bytes().to_vec(), ctx.to_lowercase().into_bytes());
    }
    let lower: Vec<(Vec<u8>, Vec<u8>)> = table.into_iter().collect();
    let coq = format!(
        "mk16 {} {} {} {} (F {} {} {} {} {})",
        cq_bytes(ctx.as_bytes()),
        cq_list(&lower, |(a, b)| format!("({}, {})", cq_bytes(a), cq_bytes(b))),
        cq_bytes(&bytes),
        cq_list(&o.toks, cq_tok),
        o.end,
        o.ers,
        o.ere,
        cq_bytes(&o.err_raw),
        cq_bytes(&o.rest)
    );
    let tags = coverage_tags(&bytes, &ctx, &o, lower.len());
    let kinds: BTreeSet<u8> = o.toks.iter().map(|t| kind_code(t.kind)).collect();
    let nontrivial = o.toks.len() >= 2 && kinds.len() >= 2;
    let extra = json!({
        "input_lossy": String::from_utf8_lossy(&bytes),
        "tokens": o.toks.iter().map(|t| json!([kind_name(t.kind), t.rs, t.re])).collect::<Vec<_>>(),
        "end": o.end, "error_token_raw": [o.ers, o.ere], "buffered": o.rest.len()
    });
    emit(id, &coq, input.clone(), &tags, nontrivial, extra);
}

// ------------------------------------------------------------------------------------------ generators
/// 20 ASCII symbols + the two bytes of U+00E9 counted as one symbol
const ALPHABET: &[&[u8]] = &[
    b"<", b">", b"/", b"!", b"-", b"=", b"\"", b"'", b" ", b"a", b"s", b"c", b"r", b"i", b"p", b"t", b"[", b"]", b"?", b"x", b"\xc3\xa9",
];

const FRAGMENTS: &[&[u8]] = &[
    b"<script>", b"</script>", b"<!--", b"-->", b"<![CDATA[", b"]]>", b"]]]>", b"<!DOCTYPE", b"<!doctype html>", b"<title>", b"</title>",
    b"<textarea>", b"</textarea>", b"<plaintext>", b"<style>", b"</style>", b"<xmp>", b"</xmp>", b"<iframe>", b"<noscript>", b"<noembed>",
    b"<noframes>", b"<a b=c d='e' f=\"g\" h>", b"<a b=c>", b" d='e'", b" f=\"g\"", b" h", b"<SCRIPT>", b"</SCRIPT>", b"<TITLE>", b"</Title>",
    b"<TextArea>", b"<PLAINTEXT>", b"<!DocType", b"<A B=C>", b"</A>", b"\x00", b"<br/>", b"<p/ >", b"</p>", b"</ p>", b"--!>", b"<script", b"</scrip",
    b"</script ", b"</script/", b"<!", b"<?", b"<?xml?>", b"</>", b"< ", b"<<", b"<</title>", b"\xc3\x89", b"<a\xc3\x89 \xc3\x89=\xc3\x89>", b"</\xc3\x89>",
    b"<b\xc4\xb0>", b"<title></title>", b"<script src=x></script>", b"<textarea></textarea>", b"<style></style>", b"<a href=/\xc3\xa0-propos>", b" t=\xc3\x85", b" u=\xe2\x80\xa0 ", b"</\xe2\x82\xac", b"</ti\xf0\x9f\x98\x80", b"</\xe9", b" x = \"y\"", b"='", b"=\"", b"= >", b"\t", b"\n", b"\x0c", b"\r", b"<!-", b"<!>", b"<!-->", b"<!--->", b"<![cdata[", b"<![CDATA",
];

const SCRIPT_FRAGMENTS: &[&[u8]] = &[
    b"<!--", b"-->", b"<script", b"<script>", b"<script ", b"</script", b"</script>", b"</script ", b"<SCRIPT>", b"</SCRIPT>", b"<!-", b"--", b"-", b"<", b"/",
    b">", b" ", b"x", b"<a", b"</", b"</s", b"<s", b"<scrip", b"<scriptx", b"</scriptx", b"!", b"<!--<script>", b"</script>-->", b"1<2", b"\xc3\xa9", b"</\xe2\x82\xac", b"</scr\xf0\x9f\x98\x80", b"</\xff",
    b"<!-- -", b"x-", b"-x", b"<!--<", b"<!--<s", b"<!--<script>-", b"<!--<script>--", b"<!--<script><", b"<!--<script></", b"<!--x-<", b"<!--<script>x-<",
];

const CONTEXTS: &[&str] = &[
    "script", "title", "textarea", "plaintext", "style", "SCRIPT", "Title", "div", "xmp", "iframe", "noscript", "noembed", "noframes", "\u{c9}", "a",
];

fn case(bytes: &[u8], ctx: &str) -> Value {
    if ctx.is_empty() {
        json!({ "bytes": bytes })
    } else {
        json!({ "bytes": bytes, "ctx": ctx })
    }
}

/// Templates with a hole (0xFF marks it; 0xFF never occurs otherwise): the hole is filled with every single byte, every
/// two-byte UTF-8 character of U+0080..U+00FF and U+0100..U+017F, and a few three / four byte characters, so that a
/// byte-class decision of ANY tokenizer state (white space, letter, quote, high byte, continuation bytes that coincide
/// with Latin-1 white space such as 0x85 / 0xA0) is exercised in place, followed by ordinary markup.
const HOLES: &[&[u8]] = &[
    b"\xff", b"<\xff", b"<a\xff>", b"<a \xff=1>", b"<a b=\xff>", b"<a b=c\xffd e=f>", b"<a b='\xff'>", b"<a b=\"\xff\">", b"<a b \xff>", b"<a/\xff>",
    b"</\xff>", b"</a\xff>", b"<!--\xff-->", b"<!\xff>", b"<!DOCTYPE\xff>", b"<?\xff>", b"<![CDATA[\xff]]>",
    b"<title></\xff", b"<title></ti\xff", b"<title>\xff</title>", b"<script></\xff", b"<script></scr\xff", b"<script><!--\xff", b"<script><!--<script></\xff",
    b"<textarea></\xfftextarea>", b"<style>\xff</style>x", b"<a b=\xff", b"<a b=x\xff", b"<a \xff",
];
fn hole_fillers() -> Vec<Vec<u8>> {
    let mut v: Vec<Vec<u8>> = (0u16..256).map(|b| vec![b as u8]).collect();
    for cp in 0x80u32..0x180 { v.push(char::from_u32(cp).unwrap().to_string().into_bytes()); }
    for c in ["\u{2020}", "\u{20ac}", "\u{5805}", "\u{2028}", "\u{3000}", "\u{feff}", "\u{1f600}", "\u{10ffff}", "\u{0130}", "\u{212a}"] { v.push(c.as_bytes().to_vec()); }
    v
}
fn gen_byte_sweep(thorough: bool) -> Vec<Value> {
    let fillers = hole_fillers();
    let mut out = Vec::new();
    for (ti, t) in HOLES.iter().enumerate() {
        let pos = t.iter().position(|b| *b == 0xff).unwrap();
        for (fi, f) in fillers.iter().enumerate() {
            // quick tier: every single byte everywhere; the multi-byte fillers on a rotating third of the templates
            if !thorough && fi >= 256 && (fi + ti) % 3 != 0 { continue; }
            let mut s = t[..pos].to_vec(); s.extend_from_slice(f); s.extend_from_slice(&t[pos + 1..]);
            let ctx = if ti % 7 == 6 && fi % 5 == 0 { "title" } else { "" };
            out.push(case(&s, ctx));
        }
    }
    out
}

fn gen_exhaustive(max_len: usize) -> Vec<Value> {
    let mut out = vec![case(&[], "")];
    let mut frontier: Vec<Vec<u8>> = vec![vec![]];
    for _ in 0..max_len {
        let mut next = Vec::with_capacity(frontier.len() * ALPHABET.len());
        for s in &frontier {
            for sym in ALPHABET {
                let mut t = s.clone();
                t.extend_from_slice(sym);
                out.push(case(&t, ""));
                next.push(t);
            }
        }
        frontier = next;
    }
    out
}

fn pickb<'a>(rng: &mut Rng, xs: &'a [&'a [u8]]) -> &'a [u8] {
    xs[rng.below(xs.len())]
}

fn gen_markup(rng: &mut Rng) -> Vec<u8> {
    let target = 4 + rng.below(37);
    let mut s: Vec<u8> = Vec::new();
    let script_mode = rng.chance(1, 3);
    if script_mode {
        s.extend_from_slice(if rng.chance(3, 4) { b"<script>" } else { b"<ScRiPt x>" });
    }
    let frag_bias = 2 + rng.below(5); // out of 8
    while s.len() < target {
        let piece: &[u8] = if script_mode && rng.chance(3, 4) {
            pickb(rng, SCRIPT_FRAGMENTS)
        } else if rng.below(8) < frag_bias {
            pickb(rng, FRAGMENTS)
        } else {
            pickb(rng, ALPHABET)
        };
        if s.len() + piece.len() > 48 {
            break;
        }
        s.extend_from_slice(piece);
    }
    // cut script bodies at an arbitrary character boundary: reaches the EOF exit of every script state
    if script_mode && rng.chance(1, 2) && s.len() > 9 {
        let mut cut = 8 + rng.below(s.len() - 8);
        while cut > 8 && (s[cut] & 0xc0) == 0x80 {
            cut -= 1;
        }
        s.truncate(cut);
    }
    s
}

fn gen_bytes(rng: &mut Rng) -> Vec<u8> {
    let n = rng.below(41);
    let mut s: Vec<u8> = Vec::new();
    let style = rng.below(3);
    while s.len() < n {
        match style {
            0 => s.push(rng.below(256) as u8),
            1 => {
                // markup with stray bytes
                if rng.chance(1, 2) {
                    s.extend_from_slice(pickb(rng, FRAGMENTS));
                } else if rng.chance(1, 2) {
                    s.extend_from_slice(pickb(rng, ALPHABET));
                } else {
                    s.push(128 + rng.below(128) as u8);
                }
            }
            _ => {
                // UTF-8 edge cases: overlongs, surrogates, > U+10FFFF, truncated sequences, valid 2-4 byte characters
                const EDGES: &[&[u8]] = &[
                    b"\xc0\x80", b"\xc1\xbf", b"\xc2\x80", b"\xdf\xbf", b"\xe0\x80\x80", b"\xe0\x9f\xbf", b"\xe0\xa0\x80", b"\xed\x9f\xbf", b"\xed\xa0\x80",
                    b"\xed\xbf\xbf", b"\xee\x80\x80", b"\xef\xbf\xbd", b"\xf0\x8f\xbf\xbf", b"\xf0\x90\x80\x80", b"\xf4\x8f\xbf\xbf", b"\xf4\x90\x80\x80",
                    b"\xf5\x80\x80\x80", b"\xff", b"\xe2\x82", b"\xf0\x9f\x98", b"\xf0\x9f\x98\x80", b"\x80", b"\xe2\x82\xac", b"<", b">", b"<a ", b"=", b"'", b"\"", b"</", b"<!--",
                ];
                s.extend_from_slice(pickb(rng, EDGES));
            }
        }
    }
    s.truncate(48);
    s
}

pub fn generate(seed: u64, thorough: bool) -> Vec<Value> {
    let mut rng = Rng::new(seed ^ 0x16);
    let mut cases = gen_exhaustive(if thorough { 4 } else { 3 });
    cases.extend(gen_byte_sweep(thorough));
    let n_markup = if thorough { 10000 } else { 2500 };
    let n_bytes = if thorough { 2000 } else { 500 };
    for _ in 0..n_markup {
        let s = gen_markup(&mut rng);
        let ctx = if rng.chance(1, 8) { *rng.pick(CONTEXTS) } else { "" };
        cases.push(case(&s, ctx));
    }
    for _ in 0..n_bytes {
        let s = gen_bytes(&mut rng);
        let ctx = if rng.chance(1, 10) { *rng.pick(CONTEXTS) } else { "" };
        cases.push(case(&s, ctx));
    }
    cases
}
