//! C03 / C04 / C15: body filters (no content-encoding).
//! Input: {"body":[bytes],"cuts":[positions],"ct":null|str,"filters":[{"kind":"html","action","value","tree":[..],"css":null|str}|{"kind":"text","action","content"}],
//!         "mode":0..4,"values":[str],"expect":null|[bytes]}
use crate::common::*;
use redirectionio::api::{BodyFilter, HTMLBodyFilter, TextAction, TextBodyFilter};
use redirectionio::filter::FilterBodyAction;
use redirectionio::http::Header;
use serde_json::{json, Value};

// bulk feed for the extracted model (mlrun/bodyrun): a child module, so that it runs this module's private `run_chunks`
#[path = "bulk03.rs"]
pub mod bulk03;

pub fn to_filters(fs: &Value) -> Vec<BodyFilter> {
    fs.as_array().unwrap().iter().map(|f| {
        if f["kind"] == "text" {
            BodyFilter::Text(TextBodyFilter { action: match f["action"].as_str().unwrap() { "append_text" => TextAction::Append, "prepend_text" => TextAction::Prepend, _ => TextAction::Replace },
                content: f["content"].as_str().unwrap().to_string(), id: None, target_hash: None })
        } else {
            BodyFilter::HTML(HTMLBodyFilter { action: f["action"].as_str().unwrap().to_string(), value: f["value"].as_str().unwrap().to_string(), inner_value: f["inner"].as_str().map(|s| s.to_string()),
                element_tree: f["tree"].as_array().unwrap().iter().map(|x| x.as_str().unwrap().to_string()).collect(),
                css_selector: f["css"].as_str().map(|s| s.to_string()), id: None, target_hash: None })
        }
    }).collect()
}

fn run_chunks(filters: &Value, headers: &[Header], chunks: &[Vec<u8>]) -> Vec<u8> {
    let mut out = Vec::new();
    let mut f = FilterBodyAction::new(to_filters(filters), headers);
    if f.is_empty() { for c in chunks { out.extend_from_slice(c); } return out; }
    for c in chunks { out.extend(f.filter(c.clone(), None)); }
    out.extend(f.end(None));
    out
}

pub fn split(body: &[u8], cuts: &[usize]) -> Vec<Vec<u8>> {
    let mut chunks = Vec::new();
    let mut prev = 0usize;
    for &c in cuts { let c = c.min(body.len()).max(prev); chunks.push(body[prev..c].to_vec()); prev = c; }
    chunks.push(body[prev..].to_vec());
    chunks
}

pub fn cq_filters(filters: &Value) -> String {
    cq_list(filters.as_array().unwrap(), |f| {
        if f["kind"] == "text" {
            format!("BFText {} {}", match f["action"].as_str().unwrap() { "append_text" => "TAppend", "prepend_text" => "TPrepend", _ => "TReplace" }, cq_str(f["content"].as_str().unwrap()))
        } else {
            format!("mk_html {} {} {} {}", match f["action"].as_str().unwrap() { "append_child" => "HAppendChild", "prepend_child" => "HPrependChild", "replace" => "HReplace", _ => "HOther" },
                cq_str(f["value"].as_str().unwrap()), cq_list(f["tree"].as_array().unwrap(), |x| cq_str(x.as_str().unwrap())),
                match f["css"].as_str() { None => "None".to_string(), Some(s) => format!("(Some {})", cq_str(s)) })
        }
    })
}

/// a generated document (sometimes truncated) and a filter list aimed at it
pub fn gen_body_and_filters(rng: &mut Rng) -> (Vec<u8>, Vec<Value>) {
    let depth = 1 + rng.below(4);
    let ch = fillers(rng, 3);
    let ex = rng.below(3);
    let (doc, path) = gen_doc(rng, depth, ch, ex, 0);
    let mut body = serialize_root(&doc);
    match rng.below(6) { 0 => { let mut k = rng.below(body.len() + 1); while !body.is_char_boundary(k) { k -= 1; } body.truncate(k); } 1 => { body.push_str("<scr"); } _ => {} }
    let mut values = Vec::new();
    let filters = gen_filters(rng, &path, false, &mut values);
    (body.into_bytes(), filters)
}

pub fn run_case(id: usize, input: &Value) {
    let body: Vec<u8> = input["body"].as_array().unwrap().iter().map(|x| x.as_u64().unwrap() as u8).collect();
    let cuts: Vec<usize> = input["cuts"].as_array().map(|a| a.iter().map(|x| x.as_u64().unwrap() as usize).collect()).unwrap_or_default();
    // "cuts": "none" = the stream is ended without any chunk (only possible for an empty body)
    let chunks = if input["cuts"] == "none" && body.is_empty() { Vec::new() } else { split(&body, &cuts) };
    let headers: Vec<Header> = match input["ct"].as_str() { None => vec![], Some(ct) => vec![Header { name: "Content-Type".into(), value: ct.into() }] };
    let ctok = match input["ct"].as_str() { None => true, Some(ct) => ct.to_lowercase().contains("text/html") };
    let filters = input["filters"].clone();
    let (f2, h2, b2, c2) = (filters.clone(), headers.clone(), body.clone(), chunks.clone());
    let res = catch(move || {
        let _ = redirectionio::filter::verif_selector_log::drain();
        let single = run_chunks(&f2, &h2, &[b2.clone()]);
        let chunked = run_chunks(&f2, &h2, &c2);
        let log = redirectionio::filter::verif_selector_log::drain();
        (single, chunked, log)
    });
    let (single, chunked, log) = match res {
        Ok(x) => x,
        Err(e) => { emit(id, "", input.clone(), &["panic".to_string()], false, json!({"panic": e})); return; }
    };
    let cq_filters = cq_filters(&filters);
    let mut seen = std::collections::BTreeSet::new();
    let mut sel = Vec::new();
    for (d, s, b) in &log { if seen.insert((d.clone(), s.clone())) { sel.push(format!("({}, {}, {})", cq_str(d), cq_str(s), cq_bool(*b))); } }
    let values: Vec<String> = input["values"].as_array().map(|a| a.iter().map(|x| x.as_str().unwrap().to_string()).collect()).unwrap_or_default();
    let expect: Vec<u8> = input["expect"].as_array().map(|a| a.iter().map(|x| x.as_u64().unwrap() as u8).collect()).unwrap_or_default();
    let mode = input["mode"].as_u64().unwrap_or(0);
    // mode 2: (output minus values) must be (body minus a set of '<'...'>' spans): dynamic programme over both strings
    let spans_ok = if mode == 2 { del_spans(&body, &strip_values(&chunked, &values)) } else { true };
    let spans_single_ok = if mode == 2 { del_spans(&body, &strip_values(&single, &values)) } else { true };
    let coq = format!("{{| c_ctok := {}; c_filters := {}; c_chunks := {}; c_sel := [{}]; c_mode := {}; c_values := {}; c_expect := {}; c_spans_single_ok := {}; c_spans_ok := {}; o_single := {}; o_chunked := {} |}}",
        cq_bool(ctok), cq_filters, cq_list(&chunks, |c| cq_bytes(c)), sel.join("; "), mode, cq_list(&values, |v| cq_str(v)), cq_bytes(&expect), cq_bool(spans_single_ok), cq_bool(spans_ok), cq_bytes(&single), cq_bytes(&chunked));
    let mut tags: Vec<String> = vec![format!("mode:{}", mode), format!("nchunks:{}", chunks.len().min(9))];
    for f in filters.as_array().unwrap() { tags.push(format!("f:{}{}", f["action"].as_str().unwrap(), if f["css"].is_string() && f["css"] != "" { "+css" } else { "" })); }
    if std::str::from_utf8(&body).is_err() { tags.push("invalid-utf8".into()); }
    if chunks.iter().any(|c| c.is_empty()) { tags.push("empty-chunk".into()); }
    if !log.is_empty() { tags.push("selector-evaluated".into()); }
    if let Some(t) = input["tags"].as_array() { for x in t { tags.push(x.as_str().unwrap().to_string()); } }
    tags.sort(); tags.dedup();
    let nontrivial = single != body && chunks.len() >= 2;
    emit(id, &coq, input.clone(), &tags, nontrivial, json!({"single": String::from_utf8_lossy(&single), "chunked": String::from_utf8_lossy(&chunked)}));
}

/// removes the inserted values, the LAST filter's first: the filters run in list order, so a later filter may insert its
/// value INSIDE a value an earlier filter inserted (a text filter appends `<i>..</i>` at end of stream, the HTML stage
/// that follows holds an unterminated `<html ...` and completes it with that `<i>`, then prepends its own value right
/// after it); undoing the passes in reverse order recovers the input, as C04_filter_list states (one pass per filter)
pub fn strip_values(out: &[u8], values: &[String]) -> Vec<u8> {
    let mut cur = out.to_vec();
    for v in values.iter().rev() {
        let vb = v.as_bytes();
        if vb.is_empty() { continue; }
        let mut res = Vec::new();
        let mut i = 0;
        while i < cur.len() { if cur[i..].starts_with(vb) { i += vb.len(); } else { res.push(cur[i]); i += 1; } }
        cur = res;
    }
    cur
}
/// is `o` equal to `b` minus a set of spans that start with '<' and end with '>' ?
pub fn del_spans(b: &[u8], o: &[u8]) -> bool {
    let (n, m) = (b.len(), o.len());
    let mut reach = vec![vec![false; m + 1]; n + 1];
    reach[0][0] = true;
    for i in 0..n {
        for j in 0..=m {
            if !reach[i][j] { continue; }
            if j < m && b[i] == o[j] { reach[i + 1][j + 1] = true; }
            if b[i] == b'<' { for k in i + 1..n { if b[k] == b'>' { reach[k + 1][j] = true; } } }
        }
    }
    reach[n][m]
}

// --------------------------------------------------------------------------------------- documents
#[derive(Clone, Debug)]
pub enum Node { Elem(String, String, Vec<Node>), Void(String, String), SelfClosing(String, String), Text(String), Comment(String), Raw(String, String) }

pub fn serialize(n: &Node, out: &mut String) {
    match n {
        Node::Elem(t, a, ch) => { out.push('<'); out.push_str(t); out.push_str(a); out.push('>'); for c in ch { serialize(c, out); } out.push_str("</"); out.push_str(t); out.push('>'); }
        Node::Void(t, a) => { out.push('<'); out.push_str(t); out.push_str(a); out.push('>'); }
        Node::SelfClosing(t, a) => { out.push('<'); out.push_str(t); out.push_str(a); out.push_str("/>"); }
        Node::Text(s) => out.push_str(s),
        Node::Comment(s) => { out.push_str("<!--"); out.push_str(s); out.push_str("-->"); }
        Node::Raw(t, c) => { out.push('<'); out.push_str(t); out.push('>'); out.push_str(c); out.push_str("</"); out.push_str(t); out.push('>'); }
    }
}
const ATTRS: &[&str] = &["", " class=\"a\"", " id='x y'", " data-k=v", " title=\"a>b\"", " hidden", " a=\"1\" b='2' c=3"];
const TEXTS: &[&str] = &["hello", " ", "a &amp; b", "x > y", "caf\u{e9} \u{1f918}", "line\nbreak", "1 &lt; 2"];
/// texts with a literal '<' (the filter loop looks ahead after such a text): not in the C15 stream, whose domain is
/// "texts without '<'" (C15_generated)
const TEXTS_LT: &[&str] = &["if 1 < 2 then", "x <- y", "a<<", "<", "2 <3 ", "p < q > r"];
static ALLOW_LT: std::sync::atomic::AtomicBool = std::sync::atomic::AtomicBool::new(false);
const COMMENTS: &[&str] = &[" c ", "</body>", "<p>", " a -- b ", ""];
const RAWTEXTS: &[&str] = &["a </head> b", "x </body> y <p>", "</main></article>", "<b>bold</b> &amp; </html>", "plain", ""];
const SCRIPTS: &[&str] = &["var a = 1;", "if (a < b) { x(); }", "document.write('</p><body>');", "<!-- x -->", "a<b", ""];
const FILLER_TAGS: &[&str] = &["span", "em", "section", "li", "P", "DIV2"];

fn gen_filler(rng: &mut Rng, depth: usize) -> Node {
    match rng.below(if depth == 0 { 6 } else { 9 }) {
        0 | 1 => { if ALLOW_LT.load(std::sync::atomic::Ordering::Relaxed) && rng.chance(1, 4) { Node::Text(rng.pick(TEXTS_LT).to_string()) } else { Node::Text(rng.pick(TEXTS).to_string()) } }
        2 => Node::Comment(rng.pick(COMMENTS).to_string()),
        3 => { let tag = *rng.pick(&["script", "style", "script", "style", "title", "textarea", "noscript", "xmp", "iframe", "title\n", "script ", "textarea\t", "TITLE"]); let txt = if tag.trim() == "script" || tag == "style" { *rng.pick(SCRIPTS) } else { *rng.pick(RAWTEXTS) }; Node::Raw(tag.into(), txt.to_string()) }
        4 => Node::Void(rng.pick(&["br", "img", "meta", "hr"]).to_string(), rng.pick(ATTRS).to_string()),
        5 => Node::SelfClosing(rng.pick(&["x-a", "use"]).to_string(), rng.pick(ATTRS).to_string()),
        _ => { let n = rng.below(3); Node::Elem(rng.pick(FILLER_TAGS).to_string(), rng.pick(ATTRS).to_string(), (0..n).map(|_| gen_filler(rng, depth - 1)).collect()) }
    }
}
fn fillers(rng: &mut Rng, max: usize) -> Vec<Node> { let n = rng.below(max + 1); (0..n).map(|_| gen_filler(rng, 2)).collect() }

/// a document with the path html > body > main > article (prefix of it, by depth); returns (tree, path)
pub fn gen_doc(rng: &mut Rng, depth: usize, target_children: Vec<Node>, extra_targets: usize, target_form: usize) -> (Node, Vec<String>) {
    let path: Vec<String> = ["html", "body", "main", "article"][..depth].iter().map(|s| s.to_string()).collect();
    let tname = path[depth - 1].clone();
    let mk_target = |rng: &mut Rng, form: usize, ch: Vec<Node>| -> Node {
        match form { 1 => Node::SelfClosing(tname.clone(), rng.pick(ATTRS).to_string()), _ => Node::Elem(tname.clone(), rng.pick(ATTRS).to_string(), ch) }
    };
    let mut siblings = vec![mk_target(rng, target_form, target_children.clone())];
    for _ in 0..extra_targets { let f = if rng.chance(1, 4) { 1 } else { 0 }; let ch = fillers(rng, 2); siblings.push(mk_target(rng, f, ch)); }
    let mut level: Vec<Node> = Vec::new();
    for s in siblings { level.extend(fillers(rng, 1)); level.push(s); }
    level.extend(fillers(rng, 1));
    for d in (0..depth - 1).rev() {
        let mut ch = fillers(rng, 1);
        ch.extend(level);
        ch.extend(fillers(rng, 1));
        level = vec![Node::Elem(path[d].clone(), if rng.chance(1, 2) { rng.pick(ATTRS).to_string() } else { String::new() }, ch)];
    }
    let mut top = Vec::new();
    if rng.chance(1, 2) { top.push(Node::Text("<!DOCTYPE html>".into())); }
    top.extend(level);
    (Node::Elem("#root".into(), String::new(), top), path)
}
pub fn serialize_root(n: &Node) -> String { let mut s = String::new(); if let Node::Elem(_, _, ch) = n { for c in ch { serialize(c, &mut s); } } s }

/// reference edit on the tree: apply to every element named path[last] reached through the path
fn edit(n: &Node, path: &[String], at: usize, action: &str, value: &str, css_matches: Option<bool>) -> Node {
    match n {
        Node::Elem(t, a, ch) if at < path.len() && *t == path[at] => {
            if at + 1 == path.len() {
                let act = match (action, css_matches) { ("replace", Some(false)) => false, ("replace", _) => true, (_, Some(true)) => false, _ => true };
                if !act { return n.clone(); }
                match action {
                    "append_child" => { let mut c = ch.clone(); c.push(Node::Text(value.to_string())); Node::Elem(t.clone(), a.clone(), c) }
                    "prepend_child" => { let mut c = vec![Node::Text(value.to_string())]; c.extend(ch.clone()); Node::Elem(t.clone(), a.clone(), c) }
                    _ => Node::Text(value.to_string()),
                }
            } else { Node::Elem(t.clone(), a.clone(), ch.iter().map(|c| edit(c, path, at + 1, action, value, css_matches)).collect()) }
        }
        Node::SelfClosing(t, _) if at + 1 == path.len() && *t == path[at] && action == "replace" && css_matches != Some(false) => Node::Text(value.to_string()),
        Node::Elem(t, a, ch) if t == "#root" => Node::Elem(t.clone(), a.clone(), ch.iter().map(|c| edit(c, path, at, action, value, css_matches)).collect()),
        _ => n.clone(),
    }
}

fn random_cuts(rng: &mut Rng, len: usize) -> Vec<usize> {
    match rng.below(5) {
        0 => (1..len).collect(),                                                       // one byte at a time
        1 => { let c = rng.below(len + 1); vec![c] }
        2 => { let mut v: Vec<usize> = (0..3).map(|_| rng.below(len + 1)).collect(); v.sort(); v }
        3 => { let c = rng.below(len + 1); vec![c, c, c] }                            // empty chunks
        _ => { let step = 1 + rng.below(7); (1..len).filter(|i| i % step == 0).collect() }
    }
}

fn bytes_json(b: &[u8]) -> Value { Value::Array(b.iter().map(|x| json!(*x)).collect()) }

fn gen_filters(rng: &mut Rng, path: &[String], insert_only: bool, values: &mut Vec<String>) -> Vec<Value> {
    let n = 1 + rng.below(2);
    let mut fs = Vec::new();
    for i in 0..n {
        let v = format!("<i>@@{}@@</i>", values.len() + i);
        if rng.chance(1, 5) {
            let a = *rng.pick(if insert_only { &["append_text", "prepend_text"][..] } else { &["append_text", "prepend_text", "replace_text"][..] });
            fs.push(json!({"kind": "text", "action": a, "content": v}));
        } else {
            let a = *rng.pick(if insert_only { &["append_child", "prepend_child"][..] } else { &["append_child", "prepend_child", "replace"][..] });
            let depth = 1 + rng.below(path.len());
            let css: Value = match rng.below(4) { 0 => json!("em"), 1 => json!(""), _ => Value::Null };
            fs.push(json!({"kind": "html", "action": a, "value": v, "tree": path[..depth], "css": css}));
        }
        values.push(v);
    }
    fs
}

pub fn generate(prop: &str, seed: u64, thorough: bool) -> Vec<Value> {
    ALLOW_LT.store(prop != "C15", std::sync::atomic::Ordering::Relaxed);
    let mut out = Vec::new();
    match prop {
        "C15" => {
            let mut rng = Rng::new(seed ^ 0x15);
            let n = if thorough { 12000 } else { 900 };
            for _ in 0..n {
                let depth = 1 + rng.below(4);
                let action = *rng.pick(&["append_child", "prepend_child", "replace"]);
                // selector "em.mark": present in the target's children or not, by construction
                let with_css = rng.chance(1, 2);
                let has_mark = rng.chance(1, 2);
                let mut ch = fillers(&mut rng, 3);
                ch.retain(|c| !serialize_one(c).contains("mark"));
                if has_mark { let pos = rng.below(ch.len() + 1); ch.insert(pos, Node::Elem("em".into(), " class=\"mark\"".into(), vec![Node::Text("m".into())])); }
                let (extra, form) = if action == "replace" { (rng.below(3), if rng.chance(1, 5) && !with_css { 1 } else { 0 }) } else { (0, 0) };
                let (doc, path) = gen_doc(&mut rng, depth, ch, extra, form);
                let value = "<b>V</b>".to_string();
                // a selector that mentions body can never match: the selector is evaluated on the target's own fragment
                let body_sel = with_css && rng.chance(1, 4);
                let has_mark_eff = has_mark && !body_sel;
                let css: Value = if body_sel { json!("body em.mark") } else if with_css { json!("em.mark") } else if rng.chance(1, 2) { Value::Null } else { json!("") };
                // inner_value only feeds the unit traces (value_computed_by_unit): the text inserted is always `value`
                let inner: Value = if rng.chance(1, 3) { json!("<s>INNER</s>") } else { Value::Null };
                let outer_value = value.clone();
                // with a selector every sibling target is judged separately; extra siblings never contain the mark
                let body = serialize_root(&doc);
                let expected = if with_css && extra > 0 {
                    // only the first sibling may contain the mark
                    edit_first_only(&doc, &path, action, &value, has_mark_eff)
                } else {
                    serialize_root(&edit(&doc, &path, 0, action, &value, if with_css { Some(has_mark_eff) } else { None }))
                };
                let cuts = if rng.chance(1, 3) { random_cuts(&mut rng, body.len()) } else { vec![] };
                out.push(json!({"body": bytes_json(body.as_bytes()), "cuts": cuts, "ct": if rng.chance(1, 2) { json!("text/html; charset=utf-8") } else { Value::Null },
                    "filters": [{"kind": "html", "action": action, "value": outer_value, "inner": inner, "tree": path, "css": css}], "mode": 3, "values": [], "expect": bytes_json(expected.as_bytes()),
                    "tags": [format!("depth:{}", depth), format!("extra-targets:{}", extra), if with_css { if has_mark_eff { "css:match" } else { "css:nomatch" } } else { "css:none" }, if body_sel { "css:mentions-body" } else { "css:plain" }, if inner.is_null() { "inner:none" } else { "inner:set" }]}));
            }
        }
        "C04" => {
            let mut rng = Rng::new(seed ^ 0x04);
            let n = if thorough { 10000 } else { 900 };
            for _ in 0..n {
                let depth = 1 + rng.below(4);
                let ch = fillers(&mut rng, 3);
                let ex = rng.below(2);
                let (doc, path) = gen_doc(&mut rng, depth, ch, ex, 0);
                let mut body = serialize_root(&doc).into_bytes();
                let mut tags: Vec<String> = Vec::new();
                // damage: truncate, inject invalid UTF-8, random bytes
                match rng.below(6) {
                    0 => { let k = rng.below(body.len() + 1); body.truncate(k); tags.push("truncated".into()); }
                    1 => { let k = rng.below(body.len() + 1); body.splice(k..k, [0xffu8, 0xfe]); tags.push("bad-utf8-inserted".into()); }
                    2 => { let k = rng.below(body.len() + 1); body.truncate(k); body.extend_from_slice(b"<di"); tags.push("partial-tag-tail".into()); }
                    3 => { body = (0..rng.below(40)).map(|_| *rng.pick(&[b'<', b'>', b'/', b'a', b'!', b'-', b' ', b'"', 0xc3, 0xa9, 0xff, b's', b'c', b'r', b'i', b'p', b't'])).collect(); tags.push("random-bytes".into()); }
                    _ => {}
                }
                let mut values = Vec::new();
                let (filters, mode, ct): (Vec<Value>, u64, Value) = match rng.below(8) {
                    0 => (vec![], 4, Value::Null),
                    1 => (vec![json!({"kind": "html", "action": "bogus", "value": "<i>@@0@@</i>", "tree": path, "css": null})], 4, Value::Null),
                    2 => (vec![json!({"kind": "html", "action": "append_child", "value": "<i>@@0@@</i>", "tree": [], "css": null})], 4, Value::Null),
                    3 => (gen_filters(&mut rng, &path, true, &mut values).into_iter().filter(|f| f["kind"] == "html").collect(), 4, json!("text/plain")),
                    4 => (vec![json!({"kind": "html", "action": "append_child", "value": "<i>@@0@@</i>", "tree": ["nosuch", "path"], "css": null})], 4, Value::Null),
                    5 | 6 => (gen_filters(&mut rng, &path, true, &mut values), 1, Value::Null),
                    _ => (gen_filters(&mut rng, &path, false, &mut values), 2, Value::Null),
                };
                // replace_text substitutes the whole body: outside "whole element spans"; keep mode 2 only for html replace
                let mode = if mode == 2 && filters.iter().any(|f| f["action"] == "replace_text") { 0 } else { mode };
                let cuts = random_cuts(&mut rng, body.len());
                out.push(json!({"body": bytes_json(&body), "cuts": cuts, "ct": ct, "filters": filters, "mode": mode, "values": values, "expect": null, "tags": tags}));
            }
        }
        _ => {
            let mut rng = Rng::new(seed ^ 0x03);
            let ndocs = if thorough { 1200 } else { 110 };
            for _ in 0..ndocs {
                let depth = 1 + rng.below(4);
                let ch = fillers(&mut rng, 3);
                let ex = rng.below(3);
                let (doc, path) = gen_doc(&mut rng, depth, ch, ex, 0);
                let mut body = serialize_root(&doc);
                let mut tags: Vec<String> = Vec::new();
                match rng.below(5) { 0 => { let mut k = rng.below(body.len() + 1); while !body.is_char_boundary(k) { k -= 1; } body.truncate(k); tags.push("truncated".into()); } 1 => { body.push_str("<scr"); tags.push("partial-tag-tail".into()); } _ => {} }
                let mut values = Vec::new();
                let filters = gen_filters(&mut rng, &path, false, &mut values);
                let nchunkings = if thorough { 12 } else { 8 };
                for _ in 0..nchunkings {
                    let cuts = random_cuts(&mut rng, body.len());
                    out.push(json!({"body": bytes_json(body.as_bytes()), "cuts": cuts, "ct": Value::Null, "filters": filters, "mode": 0, "values": values, "expect": null, "tags": tags}));
                }
            }
            // EVERY single cut position of small documents that contain a raw-text element (and every pair of adjacent cuts around each '>')
            let nsmall = if thorough { 60 } else { 14 };
            let mut made = 0;
            let mut guard = 0;
            while made < nsmall && guard < 4000 {
                guard += 1;
                let depth = 1 + rng.below(2);
                let ch = fillers(&mut rng, 2);
                let (doc, path) = gen_doc(&mut rng, depth, ch, 0, 0);
                let body = serialize_root(&doc);
                if body.len() > 140 || !(body.contains("</title") || body.contains("</script") || body.contains("</textarea") || body.contains("</TITLE") || body.contains("<!--")) { continue; }
                made += 1;
                let mut values = Vec::new();
                let filters = gen_filters(&mut rng, &path, false, &mut values);
                for c in 1..body.len() {
                    out.push(json!({"body": bytes_json(body.as_bytes()), "cuts": [c], "ct": Value::Null, "filters": filters, "mode": 0, "values": values, "expect": null, "tags": ["every-single-cut"]}));
                }
            }
            // the empty body: no chunk at all, one empty chunk, two empty chunks (text filters emit at end())
            for _ in 0..(if thorough { 60 } else { 16 }) {
                let mut values = Vec::new();
                let mut filters = if rng.chance(1, 2) { Vec::new() } else { gen_filters(&mut rng, &["html".to_string()], false, &mut values) };
                let at = rng.below(filters.len() + 1);
                filters.insert(at, json!({"kind": "text", "action": *rng.pick(&["append_text", "prepend_text", "replace_text"]), "content": "[T]"}));
                if rng.chance(1, 3) { filters.push(json!({"kind": "text", "action": *rng.pick(&["append_text", "prepend_text", "replace_text"]), "content": "[U]"})); }
                for cuts in [json!("none"), json!([]), json!([0]), json!([0, 0])] {
                    out.push(json!({"body": [], "cuts": cuts, "ct": Value::Null, "filters": filters, "mode": 0, "values": values, "expect": null, "tags": ["empty-body"]}));
                }
            }
        }
    }
    out
}

fn serialize_one(n: &Node) -> String { let mut s = String::new(); serialize(n, &mut s); s }

/// with a selector and several sibling targets: only the first sibling can contain the mark
fn edit_first_only(doc: &Node, path: &[String], action: &str, value: &str, first_has_mark: bool) -> String {
    // walk down to the level holding the targets
    fn go(n: &Node, path: &[String], at: usize, action: &str, value: &str, first_has_mark: bool, seen: &mut usize) -> Node {
        match n {
            Node::Elem(t, a, ch) if t == "#root" => Node::Elem(t.clone(), a.clone(), ch.iter().map(|c| go(c, path, at, action, value, first_has_mark, seen)).collect()),
            Node::Elem(t, a, ch) if at < path.len() && *t == path[at] => {
                if at + 1 == path.len() {
                    let is_first = *seen == 0; *seen += 1;
                    let matches = is_first && first_has_mark;
                    if action == "replace" { if matches { Node::Text(value.to_string()) } else { n.clone() } } else { n.clone() }
                } else { Node::Elem(t.clone(), a.clone(), ch.iter().map(|c| go(c, path, at + 1, action, value, first_has_mark, seen)).collect()) }
            }
            _ => n.clone(),
        }
    }
    let mut seen = 0;
    serialize_root(&go(doc, path, 0, action, value, first_has_mark, &mut seen))
}
