//! C14: filtering a compressed body.  The producer (flate2 / brotli at various levels, independent of the crate's
//! encoder settings) compresses a generated document; the compressed stream is cut at arbitrary positions and fed
//! to FilterBodyAction with a Content-Encoding header; the output is decoded by an independent decoder instance
//! which must consume it entirely.
//! Input: {"body":[bytes],"enc":str (header value as sent),"hname":str,"level":n,"cuts":[positions in the compressed stream],"ct":null|str,"filters":[..]}
use crate::common::*;
use crate::c03;
use redirectionio::filter::FilterBodyAction;
use redirectionio::http::Header;
use serde_json::{json, Value};
use std::io::{Read, Write};

fn compress(enc: &str, level: u32, body: &[u8]) -> Option<Vec<u8>> {
    match enc {
        "gzip" => { let mut e = flate2::write::GzEncoder::new(Vec::new(), flate2::Compression::new(level.min(9))); e.write_all(body).ok()?; e.finish().ok() }
        "deflate" => { let mut e = flate2::write::ZlibEncoder::new(Vec::new(), flate2::Compression::new(level.min(9))); e.write_all(body).ok()?; e.finish().ok() }
        "br" => { let mut out = Vec::new(); { let mut w = brotli::CompressorWriter::new(&mut out, 4096, level.min(11), 10 + (level % 13)); w.write_all(body).ok()?; w.flush().ok()?; } Some(out) }
        _ => None,
    }
}

/// decode a COMPLETE stream: None when invalid, truncated, or followed by trailing bytes
fn decode_all(enc: &str, data: &[u8]) -> Option<Vec<u8>> {
    let mut out = Vec::new();
    match enc {
        "gzip" => { let mut d = flate2::bufread::GzDecoder::new(data); d.read_to_end(&mut out).ok()?; if !d.into_inner().is_empty() { return None; } }
        "deflate" => { let mut d = flate2::bufread::ZlibDecoder::new(data); d.read_to_end(&mut out).ok()?; if !d.into_inner().is_empty() { return None; } }
        "br" => { let mut cur = std::io::Cursor::new(data); brotli::BrotliDecompress(&mut cur, &mut out).ok()?; if (cur.position() as usize) != data.len() { return None; } }
        _ => return None,
    }
    Some(out)
}

fn run(filters: &Value, headers: &[Header], chunks: &[Vec<u8>]) -> Vec<u8> {
    let mut out = Vec::new();
    let mut f = FilterBodyAction::new(c03::to_filters(filters), headers);
    if f.is_empty() { for c in chunks { out.extend_from_slice(c); } return out; }
    for c in chunks { out.extend(f.filter(c.clone(), None)); }
    out.extend(f.end(None));
    out
}

pub fn run_case(id: usize, input: &Value) {
    let body: Vec<u8> = match input["body_rle"].as_array() {
        Some(runs) => { let mut b = Vec::new(); for r in runs { if let Some(lit) = r.as_str() { b.extend_from_slice(lit.as_bytes()); } else { b.extend(std::iter::repeat(r[0].as_u64().unwrap() as u8).take(r[1].as_u64().unwrap() as usize)); } } b }
        None => input["body"].as_array().unwrap().iter().map(|x| x.as_u64().unwrap() as u8).collect(),
    };
    let enc_sent = input["enc"].as_str().unwrap().to_string();
    let enc = enc_sent.to_lowercase();
    let hname = input["hname"].as_str().unwrap_or("Content-Encoding").to_string();
    let level = input["level"].as_u64().unwrap_or(6) as u32;
    // unsupported encodings: the "compressed" stream is arbitrary bytes (here: the gzip form), it must come back untouched
    let stream = compress(&enc, level, &body).unwrap_or_else(|| compress("gzip", level, &body).unwrap());
    let cuts: Vec<usize> = input["cuts"].as_array().unwrap().iter().map(|x| x.as_u64().unwrap() as usize).collect();
    let chunks = c03::split(&stream, &cuts);
    let mut headers: Vec<Header> = Vec::new();
    if let Some(first) = input["enc_first"].as_str() { headers.push(Header { name: "Content-Encoding".into(), value: first.to_string() }); }
    headers.push(Header { name: hname.clone(), value: enc_sent.clone() });
    let mut plain_headers: Vec<Header> = vec![];
    if let Some(ct) = input["ct"].as_str() { headers.push(Header { name: "Content-Type".into(), value: ct.into() }); plain_headers.push(Header { name: "Content-Type".into(), value: ct.into() }); }
    let ctok = match input["ct"].as_str() { None => true, Some(ct) => ct.to_lowercase().contains("text/html") };
    let filters = input["filters"].clone();
    let (f2, h2, ph2, b2, c2) = (filters.clone(), headers.clone(), plain_headers.clone(), body.clone(), chunks.clone());
    let res = catch(move || {
        let _ = redirectionio::filter::verif_selector_log::drain();
        let plain = run(&f2, &ph2, &[b2.clone()]);
        let out = run(&f2, &h2, &c2);
        let log = redirectionio::filter::verif_selector_log::drain();
        (plain, out, log)
    });
    let (plain, out, log) = match res {
        Ok(x) => x,
        Err(e) => { emit(id, "", input.clone(), &["panic".to_string()], false, json!({"panic": e})); return; }
    };
    let decoded = decode_all(&enc, &out);
    let passthrough = out == stream;
    let mut seen = std::collections::BTreeSet::new();
    let mut sel = Vec::new();
    for (d, s, b) in &log { if seen.insert((d.clone(), s.clone())) { sel.push(format!("({}, {}, {})", cq_str(d), cq_str(s), cq_bool(*b))); } }
    let coq = format!("{{| k_ctok := {}; k_enc := {}; k_filters := {}; k_plain := {}; k_sel := [{}]; k_nparts := {}; o_plain_run := {}; o_decoded := {}; o_passthrough := {} |}}",
        cq_bool(ctok), cq_str(&enc), c03::cq_filters(&filters), crate::c09::cq_bytes_rle(&body), sel.join("; "), chunks.len(), crate::c09::cq_bytes_rle(&plain), cq_opt(&decoded, |d| crate::c09::cq_bytes_rle(d)), cq_bool(passthrough));
    let mut tags: Vec<String> = vec![format!("enc:{}", enc), format!("level:{}", level), format!("nparts:{}", chunks.len().min(9))];
    if enc_sent != enc { tags.push("enc-uppercase".into()); }
    if hname != "Content-Encoding" { tags.push("header-name-case".into()); }
    if input["enc_first"].is_string() { tags.push("two-content-encoding-headers".into()); }
    if body.is_empty() { tags.push("empty-body".into()); }
    if body.len() > 40000 { tags.push("big-body".into()); }
    if passthrough { tags.push("passthrough".into()); }
    if decoded.is_none() { tags.push("not-a-complete-stream".into()); }
    if chunks.iter().any(|c| c.is_empty()) { tags.push("empty-chunk".into()); }
    if cuts.iter().any(|&c| c < 10) { tags.push("cut-in-stream-header".into()); }
    if cuts.iter().any(|&c| c + 8 > stream.len() && c < stream.len()) { tags.push("cut-in-stream-trailer".into()); }
    for f in filters.as_array().unwrap() { tags.push(format!("f:{}", f["action"].as_str().unwrap())); }
    tags.sort(); tags.dedup();
    let nontrivial = decoded.as_ref().map(|d| d != &body).unwrap_or(false) && chunks.len() >= 2;
    emit(id, &coq, input.clone(), &tags, nontrivial, json!({"plain": if plain.len() > 2000 { json!(format!("<{} bytes>", plain.len())) } else { json!(String::from_utf8_lossy(&plain)) }, "decoded": decoded.as_ref().map(|d| if d.len() > 2000 { format!("<{} bytes>", d.len()) } else { String::from_utf8_lossy(d).to_string() }), "out_len": out.len(), "stream_len": stream.len()}));
}

pub fn generate(seed: u64, thorough: bool) -> Vec<Value> {
    let mut out = Vec::new();
    let mut rng = Rng::new(seed ^ 0x14);
    // bodies whose compressed form is tiny while one chunk inflates to far more than the codecs' internal buffers (long runs, text filters only)
    let nbig = if thorough { 60 } else { 8 };
    for _ in 0..nbig {
        let mut body: Vec<u8> = Vec::new();
        let mut rle: Vec<Value> = Vec::new();
        for _ in 0..(1 + rng.below(4)) { let b = *rng.pick(&[b'a', b' ', b'\n', b'z']); let k = 30000 + rng.below(90000); body.extend(std::iter::repeat(b).take(k)); body.extend_from_slice(b"<p>mid</p>"); rle.push(json!([b, k])); rle.push(json!("<p>mid</p>")); }
        let filters = vec![json!({"kind": "text", "action": *rng.pick(&["append_text", "prepend_text"]), "content": "[X]"})];
        for enc in ["gzip", "deflate", "br"] {
            let level = 1 + rng.below(9) as u32;
            let slen = compress(enc, level, &body).unwrap().len();
            let cuts: Vec<usize> = match rng.below(3) { 0 => vec![], 1 => vec![slen / 2], _ => { let stride = 16 + rng.below(64); (1..).map(|i| i * stride).take_while(|&c| c < slen).collect() } };
            out.push(json!({"body_rle": rle, "enc": enc, "hname": "Content-Encoding", "level": level, "cuts": cuts, "ct": Value::Null, "filters": filters}));
        }
    }
    let ndocs = if thorough { 1500 } else { 150 };
    for _ in 0..ndocs {
        let (body, filters) = c03::gen_body_and_filters(&mut rng);
        let body: Vec<u8> = match rng.below(12) { 0 => vec![], 1 => { let mut b = body.clone(); for _ in 0..rng.below(6) { b.extend_from_slice(&body); } b } _ => body };
        let filters: Vec<Value> = if rng.chance(1, 15) { vec![] } else { filters };
        let per_doc = if thorough { 6 } else { 4 };
        for _ in 0..per_doc {
            let enc = match rng.below(14) { 0..=3 => "gzip", 4..=7 => "deflate", 8..=10 => "br", 11 => *rng.pick(&["GZIP", "Deflate", "BR", "GZip"]), _ => *rng.pick(&["zstd", "compress", "identity", "x-gzip", "gzip, br", " gzip", "", "bzip2"]) };
            let hname = if rng.chance(1, 5) { *rng.pick(&["content-encoding", "CONTENT-ENCODING", "Content-encoding"]) } else { "Content-Encoding" };
            let level = rng.below(12) as u32;
            let lower = enc.to_lowercase();
            let slen = compress(&lower, level, &body).unwrap_or_else(|| compress("gzip", level, &body).unwrap()).len();
            let cuts: Vec<usize> = match rng.below(5) {
                0 => vec![],
                1 => { let stride = 1 + rng.below(12); (1..).map(|i| i * stride).take_while(|&c| c < slen).collect() }
                2 => (1..slen).collect(),
                _ => { let n = 1 + rng.below(6); let mut v: Vec<usize> = (0..n).map(|_| rng.below(slen + 1)).collect(); v.sort(); v }
            };
            let ct = if rng.chance(1, 10) { json!("text/plain") } else if rng.chance(1, 3) { json!("text/html; charset=utf-8") } else { Value::Null };
            let enc_first: Value = if rng.chance(1, 6) { json!(*rng.pick(&["identity", "zstd", "gzip", "br", "deflate"])) } else { Value::Null };
            out.push(json!({"body": body.iter().map(|x| json!(*x)).collect::<Vec<_>>(), "enc": enc, "enc_first": enc_first, "hname": hname, "level": level, "cuts": cuts, "ct": ct, "filters": filters}));
        }
    }
    out
}
