//! A recording global allocator for C18: every alloc / dealloc / realloc made while recording is on is logged with its
//! layout into a fixed static buffer (no allocation inside the allocator); the audit replays the log.
use std::alloc::{GlobalAlloc, Layout, System};
use std::sync::atomic::{AtomicBool, AtomicUsize, Ordering};

pub struct Recorder;

const CAP: usize = 1 << 20;
static ON: AtomicBool = AtomicBool::new(false);
static IDX: AtomicUsize = AtomicUsize::new(0);
// (kind, ptr, size, align) per event
static EVENTS: [AtomicUsize; 4 * CAP] = [const { AtomicUsize::new(0) }; 4 * CAP];

#[inline]
fn push(kind: usize, ptr: usize, size: usize, align: usize) {
    let i = IDX.fetch_add(1, Ordering::Relaxed);
    if i < CAP {
        EVENTS[4 * i].store(kind, Ordering::Relaxed);
        EVENTS[4 * i + 1].store(ptr, Ordering::Relaxed);
        EVENTS[4 * i + 2].store(size, Ordering::Relaxed);
        EVENTS[4 * i + 3].store(align, Ordering::Relaxed);
    }
}

unsafe impl GlobalAlloc for Recorder {
    unsafe fn alloc(&self, l: Layout) -> *mut u8 {
        let p = unsafe { System.alloc(l) };
        if ON.load(Ordering::Relaxed) { push(1, p as usize, l.size(), l.align()); }
        p
    }
    unsafe fn alloc_zeroed(&self, l: Layout) -> *mut u8 {
        let p = unsafe { System.alloc_zeroed(l) };
        if ON.load(Ordering::Relaxed) { push(1, p as usize, l.size(), l.align()); }
        p
    }
    unsafe fn dealloc(&self, p: *mut u8, l: Layout) {
        // while recording, a release is only LOGGED (kind 2) and carried out at stop(), each block once: a double free
        // (C18) is then a finding of the audit instead of an abort inside the system allocator, and no address is
        // reused while the recording runs
        if ON.load(Ordering::Relaxed) { push(2, p as usize, l.size(), l.align()); if IDX.load(Ordering::Relaxed) <= CAP { return; } }
        unsafe { System.dealloc(p, l) }
    }
    unsafe fn realloc(&self, p: *mut u8, l: Layout, new_size: usize) -> *mut u8 {
        let q = unsafe { System.realloc(p, l, new_size) };
        if ON.load(Ordering::Relaxed) { push(3, p as usize, l.size(), l.align()); push(1, q as usize, new_size, l.align()); }
        q
    }
}

pub fn start() { IDX.store(0, Ordering::SeqCst); ON.store(true, Ordering::SeqCst); }
pub fn stop() {
    if !ON.swap(false, Ordering::SeqCst) { return; }
    // carry out the deferred releases, each block once
    let n = IDX.load(Ordering::SeqCst).min(CAP);
    let mut done: std::collections::HashSet<usize> = std::collections::HashSet::new();
    let mut todo: Vec<(usize, usize, usize)> = Vec::new();
    for i in 0..n {
        if EVENTS[4 * i].load(Ordering::Relaxed) == 2 {
            let ptr = EVENTS[4 * i + 1].load(Ordering::Relaxed);
            if ptr != 0 && done.insert(ptr) { todo.push((ptr, EVENTS[4 * i + 2].load(Ordering::Relaxed), EVENTS[4 * i + 3].load(Ordering::Relaxed))); }
        }
    }
    for (ptr, size, align) in todo {
        if let Ok(l) = Layout::from_size_align(size, align.max(1)) { unsafe { System.dealloc(ptr as *mut u8, l) }; }
    }
}

#[derive(Debug, Default, Clone)]
pub struct Audit {
    pub events: usize,
    pub overflow: bool,
    pub layout_mismatch: Vec<(usize, usize, usize, usize)>, // (allocated size, allocated align, passed size, passed align)
    pub double_free: usize,
    pub foreign_free: usize,   // blocks allocated before recording started
    pub live_blocks: usize,    // allocated during the recording and still live at its end
    pub live_bytes: usize,
}

/// Replays the log (call after stop()).
pub fn audit() -> Audit {
    use std::collections::{HashMap, HashSet};
    let n = IDX.load(Ordering::SeqCst);
    let mut a = Audit { events: n.min(CAP), overflow: n > CAP, ..Default::default() };
    let mut live: HashMap<usize, (usize, usize)> = HashMap::new();
    let mut freed: HashSet<usize> = HashSet::new();
    for i in 0..n.min(CAP) {
        let kind = EVENTS[4 * i].load(Ordering::Relaxed);
        let ptr = EVENTS[4 * i + 1].load(Ordering::Relaxed);
        let size = EVENTS[4 * i + 2].load(Ordering::Relaxed);
        let align = EVENTS[4 * i + 3].load(Ordering::Relaxed);
        if kind == 1 {
            if ptr != 0 { live.insert(ptr, (size, align)); freed.remove(&ptr); }
        } else {
            match live.remove(&ptr) {
                Some((s, al)) => { if s != size || al != align { a.layout_mismatch.push((s, al, size, align)); } freed.insert(ptr); }
                None => { if freed.contains(&ptr) { a.double_free += 1; } else { a.foreign_free += 1; } }
            }
        }
    }
    a.live_blocks = live.len();
    a.live_bytes = live.values().map(|(s, _)| *s).sum();
    a
}
