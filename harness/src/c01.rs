//! C01 / C02 / C17 / C12 (router level): histories over Router<Spec>, observed after every operation.
//! Route description ("spec"): {"id","rank","scheme":null|str,"host":null|{"s":str}|{"t":template,"m":[[name,regex]]},
//!   "methods":null|[..],"excl":null|bool,"path":{"s":..}|{"t":..,"m":..},"headers":[{"name","kind","value"}],
//!   "ips":null|[{"in":bool,"cidr":str}],"dt":null|[[start|null,end|null]],"time":null|[[s|null,e|null]],"wd":null|[..]}
//! Ops: {"op":"ins","r":idx} {"op":"rem","id":..} {"op":"batch","ids":[..]} {"op":"change","added":[idx],"updated":[idx],"removed":[ids]}
//!      {"op":"cache","limit":n|null} {"op":"clone_mut","ops":[..]}
//! Probe: {"path","host","scheme","method","headers":[[n,v]],"addr":null|str,"time":null|rfc3339}
use crate::common::*;
use chrono::{DateTime, NaiveDateTime, NaiveTime, Utc};
use redirectionio::http::{Header, Request};
use redirectionio::marker::{Marker, MarkerString, StaticOrDynamic};
use redirectionio::router::{IntoRoute, Route, RouteDateTime, RouteHeader, RouteHeaderKind, RouteIp, RouteTime, RouteWeekday, Router};
use redirectionio::RouterConfig;
use serde_json::{json, Value};
use std::collections::{BTreeSet, HashSet};
use std::sync::Arc;

#[derive(Clone, Debug, serde::Serialize)]
pub struct Spec { pub idx: usize, pub j: Value }

fn sod(v: &Value, ic: bool) -> StaticOrDynamic {
    if let Some(s) = v.get("s") { return StaticOrDynamic::Static(s.as_str().unwrap().to_string()); }
    let markers: Vec<Marker> = v["m"].as_array().unwrap().iter().map(|m| Marker::new(m[0].as_str().unwrap().to_string(), m[1].as_str().unwrap().to_string())).collect();
    match MarkerString::new(v["t"].as_str().unwrap(), markers, ic) {
        Some(ms) => StaticOrDynamic::Dynamic(ms),
        None => StaticOrDynamic::Static(v["t"].as_str().unwrap().to_string()),
    }
}
fn sod_regex(s: &StaticOrDynamic) -> (bool, String) {
    match s { StaticOrDynamic::Static(x) => (false, x.clone()), StaticOrDynamic::Dynamic(m) => (true, m.regex.clone()) }
}
fn parse_dt(s: &str) -> NaiveDateTime { s.parse::<DateTime<Utc>>().unwrap().naive_utc() }

/// the Rule JSON that should translate to the same route, when the rule format can express it
fn spec_to_rule(spec: &Spec) -> Option<Value> {
    let j = &spec.j;
    let mut markers: Vec<(String, String)> = Vec::new();
    let mut sod_str = |v: &Value| -> Option<String> {
        if let Some(s) = v.get("s") { return Some(s.as_str().unwrap().to_string()); }
        for m in v["m"].as_array().unwrap() {
            let (n, r) = (m[0].as_str().unwrap().to_string(), m[1].as_str().unwrap().to_string());
            if let Some((_, r0)) = markers.iter().find(|(n0, _)| *n0 == n) { if *r0 != r { return None; } } else { markers.push((n, r)); }
        }
        Some(v["t"].as_str().unwrap().to_string())
    };
    let host: Value = if j["host"].is_null() { Value::Null } else { json!(sod_str(&j["host"])?) };
    let path = sod_str(&j["path"])?;
    if path.contains('?') || path.contains(' ') { return None; }
    let mut headers = Vec::new();
    for h in j["headers"].as_array().unwrap() {
        if h["kind"] == "match_regex" { return None; }
        let needs_value = h["kind"] != "is_defined" && h["kind"] != "is_not_defined";
        headers.push(json!({"type": h["kind"], "name": h["name"], "value": if needs_value { h["value"].clone() } else { Value::Null }}));
    }
    let ips: Value = match j["ips"].as_array() { None => Value::Null, Some(a) => json!(a.iter().map(|ip| if ip["in"] == json!(true) { json!({"in_range": ip["cidr"]}) } else { json!({"not_in_range": ip["cidr"]}) }).collect::<Vec<_>>()) };
    if j["scheme"] == json!("") || j["host"].get("s") == Some(&json!("")) { return None; }
    Some(json!({"id": j["id"], "rank": j["rank"], "status_code": 301, "target": "/t",
        "source": {"scheme": j["scheme"], "host": host, "path": path, "methods": j["methods"], "exclude_methods": j["excl"],
                   "headers": if headers.is_empty() { Value::Null } else { json!(headers) }, "ips": ips,
                   "datetime": j["dt"], "time": j["time"], "weekdays": j["wd"]},
        "markers": markers.iter().map(|(n, r)| json!({"name": n, "regex": r})).collect::<Vec<_>>()}))
}

struct Built { route: Route<Spec>, coq: String }

fn build_route(spec: &Spec, cfg: &RouterConfig) -> Built {
    let j = &spec.j;
    let id = j["id"].as_str().unwrap().to_string();
    let rank = j["rank"].as_i64().unwrap();
    let scheme = j["scheme"].as_str().map(|s| s.to_string());
    let host = if j["host"].is_null() { None } else { Some(sod(&j["host"], cfg.ignore_host_case)) };
    let path = sod(&j["path"], cfg.ignore_path_and_query_case);
    let methods: Option<Vec<String>> = j["methods"].as_array().map(|a| a.iter().map(|m| m.as_str().unwrap().to_string()).collect());
    let excl = j["excl"].as_bool();
    let mut headers = Vec::new();
    let mut cq_headers = Vec::new();
    for h in j["headers"].as_array().unwrap() {
        let name = h["name"].as_str().unwrap().to_string();
        // Rule::headers lower-cases the condition value when header case is ignored (match_regex: the flag goes to the marker string)
        let val = { let v = h["value"].as_str().unwrap_or("").to_string(); if cfg.ignore_header_case && h["kind"] != "match_regex" { v.to_lowercase() } else { v } };
        let (kind, cq) = match h["kind"].as_str().unwrap() {
            "is_defined" => (RouteHeaderKind::IsDefined, "IsDefined".to_string()),
            "is_not_defined" => (RouteHeaderKind::IsNotDefined, "IsNotDefined".to_string()),
            "is_equals" => (RouteHeaderKind::IsEquals(val.clone()), format!("(IsEquals {})", cq_str(&val))),
            "is_not_equal_to" => (RouteHeaderKind::IsNotEqualTo(val.clone()), format!("(IsNotEqualTo {})", cq_str(&val))),
            "contains" => (RouteHeaderKind::Contains(val.clone()), format!("(Contains {})", cq_str(&val))),
            "does_not_contain" => (RouteHeaderKind::DoesNotContain(val.clone()), format!("(DoesNotContain {})", cq_str(&val))),
            "ends_with" => (RouteHeaderKind::EndsWith(val.clone()), format!("(EndsWith {})", cq_str(&val))),
            "starts_with" => (RouteHeaderKind::StartsWith(val.clone()), format!("(StartsWith {})", cq_str(&val))),
            _ => {
                let ms = MarkerString::new(&val, vec![Marker::new("m".to_string(), "[a-z]+".to_string())], cfg.ignore_header_case).expect("header template needs @m");
                let re = ms.regex.clone();
                (RouteHeaderKind::MatchRegex(ms), format!("(MatchRegex {})", cq_chars(&re)))
            }
        };
        headers.push(RouteHeader { kind, name: name.clone() });
        cq_headers.push(format!("{{| hc_name := {}; hc_cond := {} |}}", cq_str(&name), cq));
    }
    let mut cq_ips = "None".to_string();
    let ips: Option<Vec<RouteIp>> = j["ips"].as_array().map(|a| {
        let mut v = Vec::new();
        let mut cq = Vec::new();
        for ip in a {
            let c: cidr::AnyIpCidr = ip["cidr"].as_str().unwrap().parse().unwrap();
            let inr = ip["in"].as_bool().unwrap();
            let cc = match &c {
                cidr::AnyIpCidr::Any => "{| c_any := true; c_v6 := false; c_net := 0; c_len := 0 |}".to_string(),
                cidr::AnyIpCidr::V4(x) => format!("{{| c_any := false; c_v6 := false; c_net := {}; c_len := {} |}}", u32::from(x.first_address()), x.network_length()),
                cidr::AnyIpCidr::V6(x) => format!("{{| c_any := false; c_v6 := true; c_net := {}; c_len := {} |}}", u128::from(x.first_address()), x.network_length()),
            };
            cq.push(format!("{} {}", if inr { "InRange" } else { "NotInRange" }, cc));
            v.push(if inr { RouteIp::InRange(c) } else { RouteIp::NotInRange(c) });
        }
        cq_ips = format!("(Some [{}])", cq.join("; "));
        v
    });
    let ns = |d: &NaiveDateTime| -> String { format!("({})%Z", d.and_utc().timestamp_nanos_opt().unwrap()) };
    let mut cq_dt = "None".to_string();
    let datetime: Option<Vec<RouteDateTime>> = j["dt"].as_array().map(|a| {
        let mut v = Vec::new(); let mut cq = Vec::new();
        for r in a {
            let s = r[0].as_str().map(parse_dt); let e = r[1].as_str().map(parse_dt);
            cq.push(format!("{{| dr_start := {}; dr_end := {} |}}", cq_opt(&s, |d| ns(d)), cq_opt(&e, |d| ns(d))));
            v.push(RouteDateTime { start: s, end: e });
        }
        cq_dt = format!("(Some [{}])", cq.join("; "));
        v
    });
    let tns = |t: &NaiveTime| -> String { use chrono::Timelike; format!("({})%Z", (t.num_seconds_from_midnight() as i128) * 1_000_000_000 + t.nanosecond() as i128) };
    let mut cq_time = "None".to_string();
    let time: Option<Vec<RouteTime>> = j["time"].as_array().map(|a| {
        let mut v = Vec::new(); let mut cq = Vec::new();
        for r in a {
            let s = r[0].as_str().map(|x| x.parse::<NaiveTime>().unwrap()); let e = r[1].as_str().map(|x| x.parse::<NaiveTime>().unwrap());
            cq.push(format!("{{| tr_start := {}; tr_end := {} |}}", cq_opt(&s, |d| tns(d)), cq_opt(&e, |d| tns(d))));
            v.push(RouteTime { start: s, end: e });
        }
        cq_time = format!("(Some [{}])", cq.join("; "));
        v
    });
    let mut cq_wd = "None".to_string();
    let weekdays: Option<RouteWeekday> = match j["wd"].as_array() {
        None => None,
        Some(a) => {
            let names: Vec<String> = a.iter().map(|x| x.as_str().unwrap().to_string()).collect();
            let w = RouteWeekday::from_weekdays(&names);
            if w.is_some() {
                let nums: Vec<String> = names.iter().map(|n| format!("{}%Z", n.parse::<chrono::Weekday>().unwrap().num_days_from_monday())).collect();
                cq_wd = format!("(Some [{}])", nums.join("; "));
            }
            w
        }
    };
    let cq_sod = |s: &StaticOrDynamic| { let (d, x) = sod_regex(s); if d { format!("(SDynamic {})", cq_chars(&x)) } else { format!("(SStatic {})", cq_chars(&x)) } };
    let coq = format!("{{| rt_tag := {}; rt_id := {}; rt_priority := ({})%Z; rt_scheme := {}; rt_host := {}; rt_methods := {}; rt_exclude_methods := {}; rt_path := {}; rt_headers := [{}]; rt_ips := {}; rt_datetime := {}; rt_time := {}; rt_weekdays := {} |}}",
        spec.idx, cq_str(&id), -rank, cq_opt(&scheme, |s| cq_str(s)), cq_opt(&host, |h| cq_sod(h)),
        cq_opt(&methods, |m| cq_list(m, |x| cq_str(x))), cq_opt(&excl, |b| cq_bool(*b).to_string()), cq_sod(&path), cq_headers.join("; "),
        cq_ips, cq_dt, cq_time, cq_wd);
    let route = Route::new(methods, excl, scheme, host, path, headers, ips, datetime, time, weekdays, id, -rank, spec.clone());
    Built { route, coq }
}

fn cq_chars(s: &str) -> String {
    let v: Vec<u32> = s.chars().map(|c| c as u32).collect();
    cq_list(&v, |x| x.to_string())
}

impl IntoRoute<Spec> for Spec {
    fn into_route(self, config: &RouterConfig) -> Route<Spec> { build_route(&self, config).route }
}

fn build_request(p: &Value, cfg: &RouterConfig) -> (Request, String) {
    let path = p["path"].as_str().unwrap();
    // the request is built the way the agent builds it (already normalised for this configuration)
    let mut req = Request::from_config(cfg, path.to_string(), p["host"].as_str().map(|s| s.to_string()),
        p["scheme"].as_str().map(|s| s.to_string()), p["method"].as_str().map(|s| s.to_string()), None, None);
    req.created_at = None;
    // Request::add_header lower-cases the VALUE when header case is ignored
    for h in p["headers"].as_array().unwrap() { req.add_header(h[0].as_str().unwrap().into(), h[1].as_str().unwrap().into(), cfg.ignore_header_case); }
    let mut cq_addr = "None".to_string();
    if let Some(a) = p["addr"].as_str() {
        let ip: std::net::IpAddr = a.parse().unwrap();
        cq_addr = match ip { std::net::IpAddr::V4(x) => format!("(Some {{| ip_v6 := false; ip_val := {} |}})", u32::from(x)), std::net::IpAddr::V6(x) => format!("(Some {{| ip_v6 := true; ip_val := {} |}})", u128::from(x)) };
        req.remote_addr = Some(ip);
    }
    let mut cq_time = "None".to_string();
    if let Some(t) = p["time"].as_str() {
        let dt: DateTime<Utc> = t.parse().unwrap();
        cq_time = format!("(Some ({})%Z)", dt.timestamp_nanos_opt().unwrap());
        req.created_at = Some(dt);
    }
    let coq = format!("{{| q_path := {}; q_host := {}; q_scheme := {}; q_method := {}; q_headers := {}; q_addr := {}; q_time := {} |}}",
        cq_chars(&req.path_and_query()), cq_opt(&req.host, |h| cq_chars(h)), cq_opt(&req.scheme, |s| cq_str(s)), cq_opt(&req.method, |s| cq_str(s)),
        cq_list(&req.headers, |h| format!("({}, {})", cq_str(&h.name), cq_str(&h.value))), cq_addr, cq_time);
    (req, coq)
}

fn apply_op(router: &mut Router<Spec>, o: &Value, specs: &[Spec]) -> u64 {
    match o["op"].as_str().unwrap() {
        "ins" => { router.insert(specs[o["r"].as_u64().unwrap() as usize].clone()); 0 }
        "rem" => match router.remove(o["id"].as_str().unwrap()) { None => 1, Some(r) => 2 + r.handler().idx as u64 },
        "batch" => { let ids: HashSet<String> = o["ids"].as_array().unwrap().iter().map(|x| x.as_str().unwrap().to_string()).collect(); router.batch_remove(&ids); 0 }
        "change" => {
            let pick = |k: &str| -> Vec<Spec> { o[k].as_array().unwrap().iter().map(|i| specs[i.as_u64().unwrap() as usize].clone()).collect() };
            let removed: HashSet<String> = o["removed"].as_array().unwrap().iter().map(|x| x.as_str().unwrap().to_string()).collect();
            router.apply_change_set(pick("added"), pick("updated"), removed); 0
        }
        "cache" => { router.cache(o["limit"].as_u64()); 0 }
        "clone_mut" => {
            // derive a router from the shared one, mutate the derived one, keep observing the original
            let shared = Arc::new(router.clone());
            let mut derived = shared.as_ref().clone();
            for o2 in o["ops"].as_array().unwrap() { apply_op(&mut derived, o2, specs); }
            std::mem::drop(derived);
            0
        }
        _ => panic!("bad op"),
    }
}

fn cq_op(o: &Value, built: &[String], specs: &[Spec]) -> String {
    let ids = |v: &Value| cq_list(v.as_array().unwrap(), |x| cq_str(x.as_str().unwrap()));
    let rs = |v: &Value| cq_list(v.as_array().unwrap(), |i| built[i.as_u64().unwrap() as usize].clone());
    let _ = specs;
    match o["op"].as_str().unwrap() {
        "ins" => format!("RIns {}", built[o["r"].as_u64().unwrap() as usize]),
        "rem" => format!("RRem {}", cq_str(o["id"].as_str().unwrap())),
        "batch" => format!("RBatch {}", ids(&o["ids"])),
        "change" => format!("RChange {} {} {}", rs(&o["added"]), rs(&o["updated"]), ids(&o["removed"])),
        "cache" => format!("RCache {}", match o["limit"].as_u64() { None => "None".to_string(), Some(n) => format!("(Some {})", n) }),
        _ => format!("RCloneMut {}", cq_list(o["ops"].as_array().unwrap(), |x| cq_op(x, built, specs))),
    }
}

pub fn run_case(id: usize, input: &Value) {
    if input["kind"] == "trace_action" { run_trace_action(id, input); return; }
    let cfgj = &input["cfg"];
    let mut cfg = RouterConfig::default();
    cfg.ignore_host_case = cfgj["ic_host"].as_bool().unwrap();
    cfg.ignore_path_and_query_case = cfgj["ic_path"].as_bool().unwrap();
    cfg.ignore_header_case = cfgj["ic_header"].as_bool().unwrap_or(false);
    cfg.always_match_any_host = cfgj["always"].as_bool().unwrap();
    // absent = the default of RouterConfig (true): requests reach the models normalised, so the flag only matters for
    // the raw-request check of C17 below
    if let Some(b) = cfgj["imqp"].as_bool() { cfg.ignore_marketing_query_params = b; }
    let with_trace = input["trace"].as_bool().unwrap_or(false);
    let specs: Vec<Spec> = input["routes"].as_array().unwrap().iter().enumerate().map(|(i, j)| Spec { idx: i, j: j.clone() }).collect();
    let inp = input.clone();
    let specs2 = specs.clone();
    let cfg2 = cfg.clone();
    let res = catch(move || {
        let built: Vec<String> = specs2.iter().map(|s| build_route(s, &cfg2).coq).collect();
        let probes: Vec<(Request, String)> = inp["probes"].as_array().unwrap().iter().map(|p| build_request(p, &cfg2)).collect();
        let mut router = Router::<Spec>::from_config(cfg2.clone());
        let mut obs: Vec<Vec<Vec<u64>>> = Vec::new();
        for o in inp["ops"].as_array().unwrap() {
            let rc = apply_op(&mut router, o, &specs2);
            let mut one: Vec<Vec<u64>> = vec![vec![router.len() as u64, rc]];
            for (req, _) in &probes {
                let mut m: Vec<u64> = router.match_request(req).iter().map(|r| r.handler().idx as u64).collect();
                m.sort();
                one.push(m);
                if with_trace {
                    let traces = router.trace_request(req);
                    let routes = redirectionio::router::Trace::get_routes_from_traces(&traces);
                    let mut t: Vec<u64> = routes.iter().map(|r| r.handler().idx as u64).collect();
                    t.sort();
                    t.dedup(); // C17 speaks of the SET of routes in the trace (the ip matcher's trace lists a route once per matching range)
                    one.push(t);
                    let tr = router.get_trace(req);
                    let trj = serde_json::to_value(&tr).unwrap();
                    let fp = match trj["final_route"].as_object() { None => 0u64, Some(fr) => (1 - fr["priority"].as_i64().unwrap()) as u64 };
                    let gp = match router.get_route(req) { None => 0u64, Some(r) => (1 - r.priority()) as u64 };
                    one.push(vec![fp, gp]);
                }
            }
            obs.push(one);
        }
        // the same routes given as Rule JSON and translated by the crate itself (<Rule as IntoRoute>::into_route): the glue
        // between the agent's rule format and Route::new (ip ranges, date/time windows, method lists, header conditions)
        let only_inserts = inp["ops"].as_array().unwrap().iter().all(|o| o["op"] == "ins");
        let mut twin: Option<bool> = None;
        if only_inserts && !cfg2.ignore_host_case && !cfg2.ignore_path_and_query_case {
            let inserted: Vec<usize> = inp["ops"].as_array().unwrap().iter().map(|o| o["r"].as_u64().unwrap() as usize).collect();
            // the expressible subset, through both constructors
            let pairs: Vec<(usize, Value)> = inserted.iter().filter_map(|i| spec_to_rule(&specs2[*i]).map(|r| (*i, r))).collect();
            if !pairs.is_empty() {
                let mut rr = Router::<redirectionio::api::Rule>::from_config(cfg2.clone());
                let mut rs = Router::<Spec>::from_config(cfg2.clone());
                for (i, r) in &pairs { rr.insert(serde_json::from_value::<redirectionio::api::Rule>(r.clone()).expect("twin rule")); rs.insert(specs2[*i].clone()); }
                let mut same = true;
                for (k, (req, _)) in probes.iter().enumerate() {
                    let mut a: Vec<String> = rr.match_request(req).iter().map(|r| r.id().to_string()).collect(); a.sort();
                    let mut b: Vec<String> = rs.match_request(req).iter().map(|r| r.id().to_string()).collect(); b.sort();
                    if a != b { same = false; eprintln!("twin differs on probe {}: rule router {:?} vs route router {:?}", k, a, b); }
                }
                twin = Some(same);
            }
        }
        if twin == Some(false) { obs.push(vec![vec![9, 9, 9]]); } // one observation more than operations: both verdict bits flag it
        // C17 on RAW requests: the trace of a request that was not normalised (query parameters in another order) lists the
        // routes that matching the REBUILT request returns, whatever the configuration flags
        if with_trace {
            let mut raw_differs = false;
            for p in inp["probes"].as_array().unwrap() {
                let path = p["path"].as_str().unwrap();
                let (base, query) = match path.split_once('?') { Some(x) => x, None => continue };
                let mut params: Vec<&str> = query.split('&').collect();
                params.reverse();
                let raw_path = format!("{}?{}", base, params.join("&"));
                let mut raw = Request::new(redirectionio::http::PathAndQueryWithSkipped::from_static(&raw_path), raw_path.clone(),
                    p["host"].as_str().map(|s| s.to_string()), p["scheme"].as_str().map(|s| s.to_string()), p["method"].as_str().map(|s| s.to_string()), None, None);
                for h in p["headers"].as_array().unwrap() { raw.add_header(h[0].as_str().unwrap().into(), h[1].as_str().unwrap().into(), false); }
                if let Some(a) = p["addr"].as_str() { raw.remote_addr = Some(a.parse().unwrap()); }
                raw.created_at = p["time"].as_str().map(|t| t.parse().unwrap());
                let traces = router.trace_request(&raw);
                let mut t: Vec<u64> = redirectionio::router::Trace::get_routes_from_traces(&traces).iter().map(|r| r.handler().idx as u64).collect();
                t.sort(); t.dedup();
                let rebuilt = router.rebuild_request(&raw);
                let mut m: Vec<u64> = router.match_request(&rebuilt).iter().map(|r| r.handler().idx as u64).collect();
                m.sort(); m.dedup();
                if t != m { raw_differs = true; eprintln!("raw request {}: trace {:?} vs match of the rebuilt request {:?}", raw_path, t, m); }
            }
            if raw_differs { obs.push(vec![vec![9, 9, 8]]); }
        }
        (built, probes.into_iter().map(|p| p.1).collect::<Vec<String>>(), obs, twin)
    });
    let (built, probes, obs, twin) = match res {
        Ok(x) => x,
        Err(e) => { emit(id, "", input.clone(), &["panic".to_string()], false, json!({"panic": e})); return; }
    };
    // lowercase oracle for header names
    let mut names: BTreeSet<String> = BTreeSet::new();
    for r in input["routes"].as_array().unwrap() { for h in r["headers"].as_array().unwrap() { names.insert(h["name"].as_str().unwrap().to_string()); } }
    for p in input["probes"].as_array().unwrap() { for h in p["headers"].as_array().unwrap() { names.insert(h[0].as_str().unwrap().to_string()); } }
    let lower: Vec<(String, String)> = names.iter().map(|n| (n.clone(), n.to_lowercase())).filter(|(a, b)| a != b).collect();
    let ops = input["ops"].as_array().unwrap();
    let coq = format!("{{| c_cfg := {{| cf_ic_host := {}; cf_ic_path := {}; cf_always := {} |}}; c_lower := {}; c_trace := {}; c_ops := {}; c_probes := [{}]; c_obs := {} |}}",
        cq_bool(cfg.ignore_host_case), cq_bool(cfg.ignore_path_and_query_case), cq_bool(cfg.always_match_any_host),
        cq_list(&lower, |(a, b)| format!("({}, {})", cq_str(a), cq_str(b))), cq_bool(with_trace),
        cq_list(ops, |o| cq_op(o, &built, &specs)), probes.join("; "),
        cq_list(&obs, |one| cq_list(one, |l| cq_list(l, |x| x.to_string()))));
    let mut tags: Vec<String> = Vec::new();
    match twin { Some(true) => tags.push("rule-twin:same".into()), Some(false) => tags.push("rule-twin:DIFFERS".into()), None => {} }
    fn op_tags(ops: &[Value], tags: &mut Vec<String>) { for o in ops { tags.push(format!("op:{}", o["op"].as_str().unwrap())); if let Some(inner) = o["ops"].as_array() { op_tags(inner, tags); } } }
    op_tags(ops, &mut tags);
    for r in input["routes"].as_array().unwrap() {
        if !r["host"].is_null() { tags.push(if r["host"].get("t").is_some() { "host:regex".into() } else { "host:static".into() }); }
        if r["path"].get("t").is_some() { tags.push("path:regex".into()); }
        if !r["ips"].is_null() { tags.push("ips".into()); }
        if !r["methods"].is_null() { tags.push(if r["excl"] == json!(true) { "methods:exclude".into() } else { "methods".into() }); }
        if !r["headers"].as_array().unwrap().is_empty() { tags.push("headers".into()); }
        if !r["dt"].is_null() || !r["time"].is_null() || !r["wd"].is_null() { tags.push("datetime".into()); }
        if !r["scheme"].is_null() { tags.push("scheme".into()); }
    }
    tags.sort(); tags.dedup();
    tags.push(format!("nroutes:{}", specs.len().min(12)));
    let nprobes = input["probes"].as_array().unwrap().len();
    let stride = if with_trace { 3 } else { 1 };
    let mut sizes: BTreeSet<usize> = BTreeSet::new();
    for one in &obs { if one.len() > nprobes * stride { for i in 0..nprobes { sizes.insert(one[1 + i * stride].len()); } } }
    let maxlen = obs.iter().map(|o| o[0][0]).max().unwrap_or(0) as usize;
    let nontrivial = sizes.len() >= 2 && sizes.iter().any(|s| *s > 0 && *s < maxlen.max(1));
    emit(id, &coq, input.clone(), &tags, nontrivial, json!({"last_obs": obs.last()}));
}

// ------------------------------------------------------------------------------------------- generators
const HOSTS: &[&str] = &["a.com", "b.com", "www.a.com", "Shop.a.com"];
const PATHS: &[&str] = &["/", "/x", "/x/1", "/y", "/blog/post-a", "/blog/42", "/Blog/42", "/x?a=1&b=2"];
const PATH_TEMPLATES: &[(&str, &str)] = &[("/x/@m", "[0-9]+"), ("/blog/@m", "[a-z\\-]+"), ("/blog/@m", "[0-9]+"), ("/@m", "(?:x|y)"), ("/x@m", ".*"), ("/Blog/@m", "[0-9]+"), ("/x/@m", "[^)/]+"), ("/x/@m/1", "[^)/]+"), ("/blog/@m", "[^(]+")];
const HOST_TEMPLATES: &[(&str, &str)] = &[("@m.a.com", "[a-z]+"), ("@m.com", "(?:a|b)"), ("www.@m", ".+"), ("Shop-@m.a.com", "[a-z]+")];
const METHODS: &[&str] = &["GET", "POST", "PUT"];
const HNAMES: &[&str] = &["X-A", "x-a", "Accept"];
const HVALS: &[&str] = &["1", "abc", "text/html", "ab", "ABC", "Text/HTML"];
const CIDRS: &[&str] = &["10.0.0.0/8", "10.1.0.0/16", "192.168.1.0/24", "0.0.0.0/0", "::1/128", "10.1.2.3/32"];
const ADDRS: &[&str] = &["10.1.2.3", "10.0.0.1", "192.168.1.7", "8.8.8.8", "::1", "10.255.255.255"];
const TIMES: &[&str] = &["2024-03-04T10:00:00Z", "2024-03-04T12:00:00Z", "2024-03-05T00:00:00Z", "2024-03-09T23:59:59Z", "2023-12-31T23:59:59.999999999Z", "1969-12-31T23:00:00Z"];
const DAYS: &[&str] = &["Mon", "Tue", "Sat", "Sun"];

fn gen_route(rng: &mut Rng, id: &str) -> Value {
    let scheme: Value = match rng.below(6) { 0 => json!("https"), 1 => json!("http"), 2 => json!(""), _ => Value::Null };
    let host: Value = match rng.below(6) { 0 | 1 => json!({"s": *rng.pick(HOSTS)}), 2 => { let t = rng.pick(HOST_TEMPLATES); json!({"t": t.0, "m": [["m", t.1]]}) }, 3 => json!({"s": ""}), _ => Value::Null };
    let path: Value = if rng.chance(1, 2) { json!({"s": *rng.pick(PATHS)}) } else { let t = rng.pick(PATH_TEMPLATES); json!({"t": t.0, "m": [["m", t.1]]}) };
    let (methods, excl): (Value, Value) = match rng.below(6) {
        0 => (json!([*rng.pick(METHODS)]), Value::Null),
        1 => (json!(["GET", "POST"]), json!(false)),
        2 => (json!([*rng.pick(METHODS)]), json!(true)),
        3 => (json!([]), Value::Null),
        _ => (Value::Null, Value::Null),
    };
    let mut headers = Vec::new();
    if rng.chance(1, 3) {
        for _ in 0..(1 + rng.below(2)) {
            let kind = *rng.pick(&["is_defined", "is_not_defined", "is_equals", "is_not_equal_to", "contains", "does_not_contain", "ends_with", "starts_with", "match_regex"]);
            let value = if kind == "match_regex" { "a@m".to_string() } else { rng.pick(HVALS).to_string() };
            headers.push(json!({"name": *rng.pick(HNAMES), "kind": kind, "value": value}));
        }
    }
    let ips: Value = if rng.chance(1, 4) {
        let n = 1 + rng.below(2);
        let mut used: Vec<&str> = Vec::new();
        let mut v = Vec::new();
        for _ in 0..n { let c = *rng.pick(CIDRS); if used.contains(&c) { continue; } used.push(c); v.push(json!({"in": rng.chance(3, 4), "cidr": c})); }
        json!(v)
    } else { Value::Null };
    let dt: Value = if rng.chance(1, 6) { let a = rng.below(TIMES.len()); let b = rng.below(TIMES.len()); json!([[if rng.chance(3, 4) { json!(TIMES[a.min(b)]) } else { Value::Null }, if rng.chance(3, 4) { json!(TIMES[a.max(b)]) } else { Value::Null }]]) } else { Value::Null };
    let time: Value = if rng.chance(1, 8) { json!([[*rng.pick(&["09:00:00", "10:00:00"]), *rng.pick(&["12:00:00", "23:59:59"])]]) } else { Value::Null };
    let wd: Value = if rng.chance(1, 8) { match rng.below(4) { 0 => json!(["Mon"]), 1 => json!(["Mon", "Tue"]), _ => json!([*rng.pick(DAYS), *rng.pick(DAYS)]) } } else { Value::Null };
    json!({"id": id, "rank": rng.below(4), "scheme": scheme, "host": host, "methods": methods, "excl": excl, "path": path, "headers": headers, "ips": ips, "dt": dt, "time": time, "wd": wd})
}

fn gen_probe(rng: &mut Rng) -> Value {
    let path = if rng.chance(2, 3) { rng.pick(PATHS).to_string() } else { rng.pick(&["/x/12", "/blog/post-b", "/x9", "/zzz", "/X", "/BLOG/42", "/blog/7", "/Blog/7"]).to_string() };
    let host: Value = match rng.below(8) { 0 => Value::Null, 1 => json!("foo.a.com"), 2 => json!("www.b.com"), 3 => json!("shop-x.a.com"), 4 => json!("Shop-x.a.com"), 5 => json!(*rng.pick(&["FOO.a.com", "shop.a.com", "WWW.B.com", "A.com"])), _ => json!(*rng.pick(HOSTS)) };
    let scheme: Value = match rng.below(6) { 0 => Value::Null, 1 => json!("http"), 2 => json!(*rng.pick(&["HTTPS", "Https", "HTTP"])), _ => json!("https") };
    let method: Value = match rng.below(4) { 0 => Value::Null, _ => json!(*rng.pick(METHODS)) };
    let nh = rng.below(3);
    let headers: Vec<Value> = (0..nh).map(|_| json!([*rng.pick(HNAMES), *rng.pick(&["1", "abc", "text/html", "aab", "xabc", "ABC", "xABC", "Text/HTML"])])).collect();
    let addr: Value = if rng.chance(2, 3) { json!(*rng.pick(ADDRS)) } else { Value::Null };
    let time: Value = if rng.chance(2, 3) { json!(*rng.pick(TIMES)) } else { Value::Null };
    json!({"path": path, "host": host, "scheme": scheme, "method": method, "headers": headers, "addr": addr, "time": time})
}

fn gen_cfg(rng: &mut Rng) -> Value { json!({"ic_host": rng.chance(1, 3), "ic_path": rng.chance(1, 3), "ic_header": rng.chance(1, 3), "always": rng.chance(1, 2), "imqp": rng.chance(1, 2)}) }

/// routes sharing header conditions from a small pool (groups of the header matcher overlap), few other triggers
fn header_focus(rng: &mut Rng, routes: &mut Vec<Value>, probes: &mut Vec<Value>) {
    let pool: Vec<Value> = (0..4).map(|_| {
        let kind = *rng.pick(&["is_defined", "is_defined", "is_not_defined", "is_equals", "contains", "starts_with"]);
        json!({"name": *rng.pick(&["X-A", "X-B", "X-C", "Accept"]), "kind": kind, "value": *rng.pick(HVALS)})
    }).collect();
    for r in routes.iter_mut() {
        if rng.chance(3, 4) {
            let k = 1 + rng.below(3);
            let mut hs: Vec<Value> = Vec::new();
            for _ in 0..k { let c = rng.pick(&pool).clone(); if !hs.contains(&c) { hs.push(c); } }
            r["headers"] = json!(hs);
            if rng.chance(2, 3) { r["host"] = Value::Null; r["methods"] = Value::Null; r["excl"] = Value::Null; r["ips"] = Value::Null; r["dt"] = Value::Null; r["time"] = Value::Null; r["wd"] = Value::Null; r["scheme"] = Value::Null; r["path"] = json!({"s": "/x"}); }
        }
    }
    for p in probes.iter_mut() {
        let nh = rng.below(4);
        let hs: Vec<Value> = (0..nh).map(|_| json!([*rng.pick(&["X-A", "X-B", "X-C", "Accept"]), *rng.pick(&["1", "abc", "text/html", "ab", "ABC", "xAb"])])).collect();
        p["headers"] = json!(hs);
        if rng.chance(2, 3) { p["path"] = json!("/x"); }
    }
}

/// one trigger kind at a time: every route keeps only that trigger (and the path /x), every probe asks for /x, so that
/// the outcome is decided by that trigger alone (method lists and exclusion, ip ranges, date/time windows, weekdays, scheme, host)
fn trigger_focus(rng: &mut Rng, routes: &mut Vec<Value>, probes: &mut Vec<Value>, trace: bool) {
    // with traces on, the matchers that keep a per-request memo of evaluated conditions (datetime) get more weight
    let kind = if trace && rng.chance(1, 2) { "dt" } else { *rng.pick(&["methods", "ips", "dt", "time", "wd", "scheme", "host"]) };
    // host focus, nested patterns: several rules on the SAME host pattern, and patterns that are a prefix of one another
    // (the host index is a regex tree whose nodes carry the common prefix: a leaf may sit under a node with its own pattern)
    let nested_hosts = kind == "host" && rng.chance(1, 2);
    for r in routes.iter_mut() {
        let fresh = gen_route(rng, "tmp");
        for k in ["methods", "excl", "ips", "dt", "time", "wd", "scheme", "host"] { r[k] = Value::Null; }
        r["headers"] = json!([]);
        r["path"] = json!({"s": "/x"});
        match kind {
            "methods" => { r["methods"] = match rng.below(4) { 0 => json!(["GET"]), 1 => json!(["GET", "POST"]), 2 => json!(["PUT"]), _ => json!([*rng.pick(METHODS)]) }; r["excl"] = match rng.below(3) { 0 => json!(true), 1 => json!(false), _ => Value::Null }; }
            "ips" => { let n = 1 + rng.below(2); let mut used: Vec<&str> = Vec::new(); let mut v = Vec::new(); for _ in 0..n { let c = *rng.pick(CIDRS); if used.contains(&c) { continue; } used.push(c); v.push(json!({"in": rng.chance(2, 3), "cidr": c})); } r["ips"] = json!(v); }
            "dt" => {
                // the datetime matcher groups routes by their SET of conditions (date ranges, time ranges, weekdays): draw each
                // condition from a pool of two so that groups share conditions, some true and some false for the probes
                let dts = [json!([["2024-03-04T10:00:00Z", "2024-03-05T00:00:00Z"]]), json!([["2024-03-04T12:00:00Z", null], [null, "2023-12-31T23:59:59.999999999Z"]])];
                let times = [json!([["09:00:00", "11:00:00"]]), json!([["10:00:00", "23:59:59"]])];
                let wds = [json!(["Mon", "Tue"]), json!(["Sat", "Sun"])];
                let mut any = false;
                if rng.chance(2, 3) { r["dt"] = rng.pick(&dts).clone(); any = true; }
                if rng.chance(1, 2) { r["time"] = rng.pick(&times).clone(); any = true; }
                if rng.chance(1, 2) || !any { r["wd"] = rng.pick(&wds).clone(); }
            }
            "time" => { r["time"] = if rng.chance(1, 3) { json!([["09:00:00", "11:00:00"], ["22:00:00", "23:59:59"]]) } else { json!([[*rng.pick(&["09:00:00", "10:00:00", "00:00:00"]), *rng.pick(&["10:00:00", "12:00:00", "23:59:59"])]]) }; }
            // lists of different lengths, one a prefix of another: the date/time layer groups rules by their weekday LIST
            "wd" => { r["wd"] = match rng.below(5) { 0 => json!(["Mon"]), 1 => json!(["Mon", "Tue"]), 2 => json!(["Mon", "Tue", "Sat"]), _ => json!([*rng.pick(DAYS), *rng.pick(DAYS)]) }; }
            "scheme" => { r["scheme"] = fresh["scheme"].clone(); }
            _ if nested_hosts => { r["host"] = match rng.below(6) { 0 | 1 | 2 => json!({"t": "@m.a.com", "m": [["m", "[a-z]+"]]}), 3 => json!({"t": "@m.a.com.uk", "m": [["m", "[a-z]+"]]}), 4 => json!({"t": "@m.a.co", "m": [["m", "[a-z]+"]]}), _ => json!({"s": "foo.a.com"}) }; }
            _ => { r["host"] = fresh["host"].clone(); }
        }
    }
    if nested_hosts { for p in probes.iter_mut() { p["host"] = json!(*rng.pick(&["foo.a.com", "foo.a.com", "foo.a.com.uk", "foo.a.co", "a.com"])); } }
    for p in probes.iter_mut() { p["path"] = json!("/x"); if p["time"].is_null() && (kind == "dt" || kind == "time" || kind == "wd") { p["time"] = json!(*rng.pick(TIMES)); } if p["addr"].is_null() && kind == "ips" && rng.chance(3, 4) { p["addr"] = json!(*rng.pick(ADDRS)); } }
}

/// C01: build only, then probe
pub fn gen_case_c01(rng: &mut Rng, trace: bool) -> Value {
    let n = 1 + rng.below(10);
    let routes: Vec<Value> = (0..n).map(|i| gen_route(rng, &format!("r{}", i))).collect();
    let ops: Vec<Value> = (0..n).map(|i| json!({"op": "ins", "r": i})).collect();
    let mut routes = routes;
    let mut probes: Vec<Value> = (0..4).map(|_| gen_probe(rng)).collect();
    match rng.below(6) { 0 | 1 => header_focus(rng, &mut routes, &mut probes), 2 | 3 => trigger_focus(rng, &mut routes, &mut probes, trace), _ => {} }
    let mut cfg = gen_cfg(rng);
    if trace && rng.chance(1, 5) {
        // C17 focus: (a) sibling marker rules of one radix node that BOTH accept a probe; (b) a static rule written with a
        // query string, probed (raw, see run_case) with the parameters in another order, every ignore flag off
        let bare = |id: &str, path: Value| json!({"id": id, "rank": 0, "scheme": null, "host": null, "methods": null, "excl": null, "headers": [], "ips": null, "dt": null, "time": null, "wd": null, "path": path});
        let k = routes.len();
        if k >= 2 && rng.chance(1, 2) {
            routes[0] = bare("r0", json!({"t": "/blog/@m", "m": [["m", "[0-9]+"]]}));
            routes[1] = bare("r1", json!({"t": "/blog/@m", "m": [["m", *rng.pick(&[".+", "[0-9a-z]+", "[^(]+"])]]}));
            probes[0]["path"] = json!("/blog/42");
        } else {
            routes[0] = bare("r0", json!({"s": "/x?a=1&b=2"}));
            probes[0]["path"] = json!("/x?a=1&b=2");
            cfg = json!({"ic_host": false, "ic_path": false, "ic_header": false, "always": rng.chance(1, 2), "imqp": false});
        }
        for key in ["host", "scheme", "method"] { probes[0][key] = Value::Null; }
    }
    // observe only at the end: keep a single observation by making every op but the last invisible is not possible, so observe all
    json!({"cfg": cfg, "routes": routes, "ops": ops, "probes": probes, "trace": trace})
}

/// C02: histories with re-insertion after removal, absent ids, change sets moving a rule to another bucket, clones, cache
pub fn gen_case_c02(rng: &mut Rng) -> Value {
    let nids = 2 + rng.below(6);
    let mut routes: Vec<Value> = Vec::new();
    // several versions per id (for updates / re-insertions)
    for i in 0..nids { for _ in 0..(1 + rng.below(2)) { routes.push(gen_route(rng, &format!("r{}", i))); } }
    let idx_of = |id: &str, routes: &Vec<Value>, rng: &mut Rng| -> usize { let c: Vec<usize> = routes.iter().enumerate().filter(|(_, r)| r["id"] == json!(id)).map(|(i, _)| i).collect(); c[rng.below(c.len())] };
    let mut live: Vec<String> = Vec::new();
    let mut ops: Vec<Value> = Vec::new();
    fn gen_ops(rng: &mut Rng, n: usize, live: &mut Vec<String>, routes: &Vec<Value>, nids: usize, depth: usize, idx_of: &dyn Fn(&str, &Vec<Value>, &mut Rng) -> usize) -> Vec<Value> {
        let mut ops = Vec::new();
        for _ in 0..n {
            let r = rng.below(100);
            let dead: Vec<String> = (0..nids).map(|i| format!("r{}", i)).filter(|x| !live.contains(x)).collect();
            if (r < 45 || live.is_empty()) && !dead.is_empty() {
                let id = dead[rng.below(dead.len())].clone();
                ops.push(json!({"op": "ins", "r": idx_of(&id, routes, rng)}));
                live.push(id);
            } else if r < 60 {
                let id = if !live.is_empty() && rng.chance(4, 5) { live[rng.below(live.len())].clone() } else { "absent".to_string() };
                live.retain(|x| *x != id);
                ops.push(json!({"op": "rem", "id": id}));
            } else if r < 70 {
                let mut ids: Vec<String> = live.iter().filter(|_| rng.chance(1, 3)).cloned().collect();
                if rng.chance(1, 3) { ids.push("absent".into()); }
                live.retain(|x| !ids.contains(x));
                ops.push(json!({"op": "batch", "ids": ids}));
            } else if r < 82 {
                let updated_ids: Vec<String> = live.iter().filter(|_| rng.chance(1, 3)).cloned().collect();
                let removed: Vec<String> = live.iter().filter(|x| !updated_ids.contains(x) && rng.chance(1, 4)).cloned().collect();
                let added_ids: Vec<String> = dead.iter().filter(|_| rng.chance(1, 3)).cloned().collect();
                let updated: Vec<usize> = updated_ids.iter().map(|id| idx_of(id, routes, rng)).collect();
                let added: Vec<usize> = added_ids.iter().map(|id| idx_of(id, routes, rng)).collect();
                live.retain(|x| !removed.contains(x));
                for a in &added_ids { live.push(a.clone()); }
                ops.push(json!({"op": "change", "added": added, "updated": updated, "removed": removed}));
            } else if r < 92 || depth > 0 {
                ops.push(json!({"op": "cache", "limit": match rng.below(4) { 0 => Value::Null, 1 => json!(0), 2 => json!(2), _ => json!(1000) }}));
            } else {
                let mut live2 = live.clone();
                let k = 1 + rng.below(4);
                let inner = gen_ops(rng, k, &mut live2, routes, nids, depth + 1, idx_of);
                ops.push(json!({"op": "clone_mut", "ops": inner}));
            }
        }
        ops
    }
    // twins: two ids bound to the SAME route (same innermost bucket, same static path or pattern), a batch operation on
    // unrelated ids, then single removals: per-bucket counters must survive a batch_remove that does not touch them
    let mut routes = routes;
    let mut twin_probe: Option<Value> = None;
    if rng.chance(1, 3) {
        let src = routes.iter().find(|r| r["id"] == json!("r0")).unwrap().clone();
        for r in routes.iter_mut() { if r["id"] == json!("r1") { let mut t = src.clone(); t["id"] = json!("r1"); *r = t; } }
        let (i0, i1) = (idx_of("r0", &routes, rng), idx_of("r1", &routes, rng));
        ops.push(json!({"op": "ins", "r": i0})); ops.push(json!({"op": "ins", "r": i1}));
        ops.push(if rng.chance(1, 2) { json!({"op": "batch", "ids": ["absent"]}) } else { json!({"op": "change", "added": [], "updated": [], "removed": ["absent"]}) });
        ops.push(json!({"op": "rem", "id": "r0"}));
        live.push("r1".to_string());
        if rng.chance(1, 2) { ops.push(json!({"op": "rem", "id": "r1"})); live.clear(); }
        twin_probe = Some(src);
    }
    let nops = 2 + rng.below(12);
    ops.extend(gen_ops(rng, nops, &mut live, &routes, nids, 0, &idx_of));
    let mut probes: Vec<Value> = (0..4).map(|_| gen_probe(rng)).collect();
    // a probe that the twins accept (as far as the probe vocabulary allows): their own path and host
    if let Some(t) = &twin_probe { if let Some(p) = probes.get_mut(0) { if let Some(x) = t.get("path") { if x.is_string() { p["path"] = x.clone(); } } if let Some(h) = t.get("host") { if h.is_string() { p["host"] = h.clone(); } } } }
    if rng.chance(1, 4) { header_focus(rng, &mut routes, &mut probes); }
    // histories over rules that differ in ONE trigger kind (several date / time / weekday groups, method buckets, ip ranges
    // in one bucket): removals must find and return the rule whatever group it sits in
    else if rng.chance(1, 3) { trigger_focus(rng, &mut routes, &mut probes, false); }
    let cfg = if rng.chance(1, 2) { json!({"ic_host": rng.chance(2, 3), "ic_path": rng.chance(2, 3), "ic_header": false, "always": rng.chance(1, 2)}) } else { gen_cfg(rng) };
    json!({"cfg": cfg, "routes": routes, "ops": ops, "probes": probes, "trace": false})
}

pub fn generate(prop: &str, seed: u64, thorough: bool) -> Vec<Value> {
    match prop {
        "C01" => { let mut rng = Rng::new(seed ^ 0x01); let n = if thorough { 6000 } else { 500 }; (0..n).map(|_| gen_case_c01(&mut rng, false)).collect() }
        "C17" => {
            let mut rng = Rng::new(seed ^ 0x17); let n = if thorough { 4000 } else { 350 };
            let mut v: Vec<Value> = (0..n).map(|_| gen_case_c01(&mut rng, true)).collect();
            // the action trace: rule lists with pairwise distinct ranks (C05 generator), sampling off
            let m = if thorough { 2000 } else { 250 };
            for _ in 0..m {
                let mut c = crate::c05::gen_case(&mut rng);
                let k = c["rules"].as_array().unwrap().len();
                let mut ranks: Vec<usize> = (0..k).collect();
                for i in (1..k).rev() { let j = rng.below(i + 1); ranks.swap(i, j); }
                for (i, r) in c["rules"].as_array_mut().unwrap().iter_mut().enumerate() { r["rank"] = json!(ranks[i]); r["sampling"] = Value::Null; }
                c["kind"] = json!("trace_action");
                v.push(c);
            }
            v
        }
        _ => { let mut rng = Rng::new(seed ^ 0x02); let n = if thorough { 5000 } else { 400 }; (0..n).map(|_| gen_case_c02(&mut rng)).collect() }
    }
}


// ---------------------------------------------------------------- C17, last clause: the action trace ends in the live action (distinct ranks)
fn run_trace_action(id: usize, input: &Value) {
    use redirectionio::action::{Action, TraceAction};
    use redirectionio::api::Rule;
    let inp = input.clone();
    let res = catch(move || {
        let cfg = RouterConfig::default();
        let mut router = Router::<Rule>::from_config(cfg.clone());
        for r in inp["rules"].as_array().unwrap() { router.insert(serde_json::from_value::<Rule>(crate::c05::rule_json(r)).expect("rule")); }
        let request = crate::c05::build_request(&inp);
        let rebuilt = router.rebuild_request(&request);
        let matched = router.match_request(&rebuilt);
        let nmatched = matched.len();
        let live = serde_json::to_value(Action::from_routes_rule(matched, &rebuilt, None)).unwrap();
        let traces = router.trace_request(&request);
        let steps = serde_json::to_value(TraceAction::from_trace_rules(&traces, &rebuilt)).unwrap();
        let last = steps.as_array().unwrap().last().map(|s| s["action"].clone());
        let default = serde_json::to_value(Action::default()).unwrap();
        let same = match &last { Some(a) => *a == live, None => live == default };
        (same, nmatched, steps.as_array().unwrap().len(), live, last)
    });
    let (same, nmatched, nsteps, live, last) = match res {
        Ok(x) => x,
        Err(e) => { emit(id, "", input.clone(), &["panic".to_string()], false, json!({"panic": e})); return; }
    };
    // encoded as a router case without operations: model and specification observe nothing, any recorded observation is a disagreement
    let coq = format!("{{| c_cfg := {{| cf_ic_host := false; cf_ic_path := false; cf_always := true |}}; c_lower := []; c_trace := true; c_ops := []; c_probes := []; c_obs := {} |}}", if same { "[]" } else { "[[[0]]]" });
    let mut tags = vec!["trace-action".to_string(), format!("matched:{}", nmatched.min(6)), format!("steps:{}", nsteps.min(6))];
    let rs = input["rules"].as_array().unwrap();
    if rs.iter().any(|r| r["reset"] == json!(true)) { tags.push("ta:reset".into()); }
    if rs.iter().any(|r| r["stop"] == json!(true)) { tags.push("ta:stop".into()); }
    emit(id, &coq, input.clone(), &tags, nmatched >= 2, json!({"same": same, "live": live, "last_step": last}));
}
