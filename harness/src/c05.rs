//! C05 / C11: rule lists through Action::from_routes_rule and the response-phase calls.
//! Input: {"rules":[{id,rank,status,target,codes,excl,hf:[{action,header,value}],bf:[{action,content}],log,reset,stop,sampling}],
//!         "skipped":null|str,"override":null|bool,"code":n,"headers":[[n,v]],"allow_log":bool,"add_ids":bool,"chunks":[str],"perms":[[idx..]]}
use crate::common::*;
use redirectionio::action::Action;
use redirectionio::api::Rule;
use redirectionio::http::{Header, PathAndQueryWithSkipped, Request};
use redirectionio::router::{IntoRoute, Route};
use redirectionio::RouterConfig;
use serde_json::{json, Value};
use std::collections::BTreeSet;
use std::sync::Arc;

const IDS: &[&str] = &["a", "b", "ab", "b1", "z", "A", "r10", "r9", "7", "07", "3", "12"];
const HNAMES: &[&str] = &["X-A", "x-a", "X-B", "Location", "location"];
const CODESETS: &[&[u64]] = &[&[], &[404], &[200, 404], &[301], &[500, 200]];

fn gen_rule(rng: &mut Rng, id: &str) -> Value {
    let status: Value = match rng.below(6) { 0 | 1 => Value::Null, 2 => json!(0), 3 => json!(301), 4 => json!(302), _ => json!(410) };
    let target: Value = match rng.below(5) { 0 => Value::Null, 1 => json!(""), 2 => json!("/t?x=1"), _ => json!(format!("/to-{}", id)) };
    let codes: Value = if rng.chance(1, 3) { Value::Null } else { json!(*rng.pick(CODESETS)) };
    let excl: Value = match rng.below(4) { 0 | 1 => Value::Null, 2 => json!(true), _ => json!(false) };
    let nhf = rng.below(3);
    let hf: Vec<Value> = (0..nhf).map(|i| json!({"action": *rng.pick(&["add", "remove", "replace", "override", "default", "bogus"]), "header": *rng.pick(HNAMES), "value": format!("{}{}", id, i)})).collect();
    let nbf = if rng.chance(1, 2) { 0 } else { 1 + rng.below(2) };
    let bf: Vec<Value> = (0..nbf).map(|i| json!({"action": *rng.pick(&["append_text", "prepend_text", "replace_text"]), "content": format!("[{}{}]", id, i)})).collect();
    let log: Value = match rng.below(4) { 0 | 1 => Value::Null, 2 => json!(true), _ => json!(false) };
    let reset: Value = match rng.below(8) { 0 => json!(true), 1 => json!(false), _ => Value::Null };
    let stop: Value = match rng.below(8) { 0 => json!(true), 1 => json!(false), _ => Value::Null };
    let sampling: Value = match rng.below(8) { 0 => json!(0), 1 => json!(100), 2 => json!(250), _ => Value::Null };
    // ranks: mostly small (ties), sometimes around the digit-count boundaries of u16
    let rank = match rng.below(12) { 0 => *rng.pick(&[9usize, 10, 99, 100, 999, 1000, 9999, 10000, 65535]), _ => rng.below(3) };
    json!({"id": id, "rank": rank, "status": status, "target": target, "codes": codes, "excl": excl,
           "hf": hf, "bf": bf, "log": log, "reset": reset, "stop": stop, "sampling": sampling})
}

pub fn gen_case(rng: &mut Rng) -> Value {
    let n = 1 + rng.below(6);
    let mut ids: Vec<&str> = IDS.to_vec();
    let mut rules = Vec::new();
    for _ in 0..n {
        let i = rng.below(ids.len());
        let id = ids.remove(i);
        rules.push(gen_rule(rng, id));
    }
    let skipped: Value = if rng.chance(1, 4) { json!("utm_source=x") } else { Value::Null };
    let ov: Value = match rng.below(5) { 0 => json!(true), 1 => json!(false), _ => Value::Null };
    let code = *rng.pick(&[0u64, 0, 200, 301, 404, 404, 500, 503]);
    let nh = rng.below(4);
    let headers: Vec<Value> = (0..nh).map(|i| json!([*rng.pick(HNAMES), format!("h{}", i)])).collect();
    let chunks: Value = match rng.below(4) { 0 => json!(["BODY"]), 1 => json!(["BO", "DY"]), 2 => json!(["", "B", "", "ODY"]), _ => json!([]) };
    let mut perms = Vec::new();
    for _ in 0..3 {
        let mut p: Vec<usize> = (0..n).collect();
        for i in (1..n).rev() { let j = rng.below(i + 1); p.swap(i, j); }
        perms.push(p);
    }
    json!({"rules": rules, "skipped": skipped, "override": ov, "code": code, "headers": headers,
           "allow_log": rng.chance(1, 2), "add_ids": rng.chance(1, 2), "chunks": chunks, "perms": perms})
}

pub fn rule_json(r: &Value) -> Value {
    json!({
        "id": r["id"], "rank": r["rank"], "status_code": r["status"], "target": r["target"],
        "source": {"path": "/x", "response_status_codes": r["codes"], "exclude_response_status_codes": r["excl"], "sampling": r["sampling"]},
        "header_filters": if r["hf"].as_array().unwrap().is_empty() { Value::Null } else { r["hf"].clone() },
        "body_filters": if r["bf"].as_array().unwrap().is_empty() { Value::Null } else { r["bf"].clone() },
        "log_override": r["log"], "reset": r["reset"], "stop": r["stop"]
    })
}

fn cq_ostr(v: &Value) -> String { match v.as_str() { None => "None".into(), Some(s) => format!("(Some {})", cq_str(s)) } }
fn cq_obool(v: &Value) -> String { match v.as_bool() { None => "None".into(), Some(b) => format!("(Some {})", cq_bool(b)) } }
fn cq_on(v: &Value) -> String { match v.as_u64() { None => "None".into(), Some(n) => format!("(Some {})", n) } }
fn cq_codes(v: &Value) -> String { cq_list(v.as_array().unwrap(), |x| x.as_u64().unwrap().to_string()) }
fn cq_ta(s: &str) -> &'static str { match s { "append_text" => "TAppend", "prepend_text" => "TPrepend", _ => "TReplace" } }
fn cq_hf(f: &Value) -> String { format!("mk_hf {} {} {}", cq_str(f["action"].as_str().unwrap()), cq_str(f["header"].as_str().unwrap()), cq_str(f["value"].as_str().unwrap())) }
fn cq_bf(f: &Value) -> String { format!("mk_bf {} {}", cq_ta(f["action"].as_str().unwrap()), cq_str(f["content"].as_str().unwrap())) }

fn cq_rule(r: &Value) -> String {
    format!("{{| r_id := {}; r_rank := {}; r_status := {}; r_target := {}; r_codes := {}; r_excl := {}; r_hf := {}; r_bf := {}; r_log := {}; r_reset := {}; r_stop := {}; r_sampling := {} |}}",
        cq_str(r["id"].as_str().unwrap()), r["rank"].as_u64().unwrap(), cq_on(&r["status"]), cq_ostr(&r["target"]),
        if r["codes"].is_null() { "None".to_string() } else { format!("(Some {})", cq_codes(&r["codes"])) },
        cq_obool(&r["excl"]), cq_list(r["hf"].as_array().unwrap(), cq_hf), cq_list(r["bf"].as_array().unwrap(), cq_bf),
        cq_obool(&r["log"]), cq_obool(&r["reset"]), cq_obool(&r["stop"]), cq_on(&r["sampling"]))
}

/// a rule in the crate's own JSON (serde of api::Rule) as a Coq `rule` term of RIO.ActionModel; HTML body filters are
/// dropped (the action model carries text filters only) and reported through `html_dropped`
pub fn cq_rule_api(r: &Value, html_dropped: &mut bool, names: &mut BTreeSet<String>) -> String {
    let src = &r["source"];
    let hfs: Vec<Value> = r["header_filters"].as_array().cloned().unwrap_or_default();
    for f in &hfs { names.insert(f["header"].as_str().unwrap_or("").to_string()); }
    let all_bfs: Vec<Value> = r["body_filters"].as_array().cloned().unwrap_or_default();
    let bfs: Vec<Value> = all_bfs.iter().filter(|f| f.get("content").is_some()).cloned().collect();
    if bfs.len() != all_bfs.len() { *html_dropped = true; }
    format!("{{| r_id := {}; r_rank := {}; r_status := {}; r_target := {}; r_codes := {}; r_excl := {}; r_hf := {}; r_bf := {}; r_log := {}; r_reset := {}; r_stop := {}; r_sampling := {} |}}",
        cq_str(r["id"].as_str().unwrap()), r["rank"].as_u64().unwrap_or(0), cq_on(&r["status_code"]), cq_ostr(&r["target"]),
        if src["response_status_codes"].is_null() { "None".to_string() } else { format!("(Some {})", cq_codes(&src["response_status_codes"])) },
        cq_obool(&src["exclude_response_status_codes"]), cq_list(&hfs, cq_hf), cq_list(&bfs, cq_bf),
        cq_obool(&r["log_override"]), cq_obool(&r["reset"]), cq_obool(&r["stop"]), cq_on(&src["sampling"]))
}

/// the unit fields of a rule (crate JSON) beside its `rule` term: a Coq `urule` of RIO.UnitTrace
pub fn cq_urule_api(r: &Value, html_dropped: &mut bool, names: &mut BTreeSet<String>) -> String {
    let hfs: Vec<Value> = r["header_filters"].as_array().cloned().unwrap_or_default();
    let bfs: Vec<Value> = r["body_filters"].as_array().cloned().unwrap_or_default().into_iter().filter(|f| f.get("content").is_some()).collect();
    let unit = |f: &Value| format!("({}, {})", cq_ostr(&f["id"]), cq_ostr(&f["target_hash"]));
    format!("{{| u_rule := {}; u_redirect_unit := {}; u_target_hash := {}; u_log_unit := {}; u_reset_unit := {}; u_hf_units := {}; u_bf_units := {} |}}",
        cq_rule_api(r, html_dropped, names), cq_ostr(&r["redirect_unit_id"]), cq_ostr(&r["target_hash"]), cq_ostr(&r["configuration_log_unit_id"]),
        cq_ostr(&r["configuration_reset_unit_id"]), cq_list(&hfs, unit), cq_list(&bfs, unit))
}

/// the crate's Action (through its JSON) as a Coq `action` term
pub fn cq_action(a: &Value) -> String {
    let scu = match &a["status_code_update"] {
        Value::Null => "None".to_string(),
        s => format!("(Some {{| sc_status := {}; sc_on := {}; sc_excl := {}; sc_fallback := {}; sc_rule := {}; sc_fallback_rule := {} |}})",
            s["status_code"], cq_codes(&s["on_response_status_codes"]), cq_bool(s["exclude_response_status_codes"].as_bool().unwrap()),
            s["fallback_status_code"], cq_ostr(&s["rule_id"]), cq_ostr(&s["fallback_rule_id"])),
    };
    let lov = match &a["log_override"] {
        Value::Null => "None".to_string(),
        l => format!("(Some {{| lo_log := {}; lo_rule := {}; lo_on := {}; lo_excl := {}; lo_fallback := {}; lo_fallback_rule := {} |}})",
            cq_bool(l["log_override"].as_bool().unwrap()), cq_ostr(&l["rule_id"]), cq_codes(&l["on_response_status_codes"]),
            cq_bool(l["exclude_response_status_codes"].as_bool().unwrap()), cq_obool(&l["fallback_log_override"]), cq_ostr(&l["fallback_rule_id"])),
    };
    let hfs = cq_list(a["header_filters"].as_array().unwrap(), |h| format!("{{| hfa_filter := {}; hfa_on := {}; hfa_excl := {}; hfa_rule := {} |}}",
        cq_hf(&h["filter"]), cq_codes(&h["on_response_status_codes"]), cq_bool(h["exclude_response_status_codes"].as_bool().unwrap()), cq_ostr(&h["rule_id"])));
    let bfs = cq_list(a["body_filters"].as_array().unwrap(), |b| format!("{{| bfa_filter := {}; bfa_on := {}; bfa_excl := {}; bfa_rule := {} |}}",
        cq_bf(&b["filter"]), cq_codes(&b["on_response_status_codes"]), cq_bool(b["exclude_response_status_codes"].as_bool().unwrap()), cq_ostr(&b["rule_id"])));
    let strs = |v: &Value| cq_list(v.as_array().unwrap(), |x| cq_str(x.as_str().unwrap()));
    let traces = cq_list(a["rule_traces"].as_array().unwrap(), |t| format!("{{| rt_id := {}; rt_on := {}; rt_excl := {} |}}",
        cq_str(t["id"].as_str().unwrap()), cq_codes(&t["on_response_status_codes"]), cq_bool(t["exclude_response_status_codes"].as_bool().unwrap())));
    format!("{{| a_status := {}; a_hf := {}; a_bf := {}; a_rule_ids := {}; a_traces := {}; a_applied := {}; a_log := {} |}}",
        scu, hfs, bfs, strs(&a["rule_ids"]), traces, strs(&a["rules_applied"]), lov)
}

pub fn build_routes(rules: &[Value]) -> Vec<Arc<Route<Rule>>> {
    let config = RouterConfig::default();
    rules.iter().map(|r| {
        let rule: Rule = serde_json::from_value(rule_json(r)).expect("rule json");
        Arc::new(rule.into_route(&config))
    }).collect()
}

pub fn build_request(input: &Value) -> Request {
    let mut request = Request::new(PathAndQueryWithSkipped::from_static("/x"), "/x".to_string(), None, None, None, None, input["override"].as_bool());
    request.path_and_query_skipped.skipped_query_params = input["skipped"].as_str().map(|s| s.to_string());
    request
}

pub fn run_case(id: usize, input: &Value) {
    let rules = input["rules"].as_array().unwrap().clone();
    let code = input["code"].as_u64().unwrap() as u16;
    let headers: Vec<Header> = input["headers"].as_array().unwrap().iter().map(|h| Header { name: h[0].as_str().unwrap().into(), value: h[1].as_str().unwrap().into() }).collect();
    let chunks: Vec<String> = input["chunks"].as_array().unwrap().iter().map(|c| c.as_str().unwrap().to_string()).collect();
    let allow_log = input["allow_log"].as_bool().unwrap();
    let add_ids = input["add_ids"].as_bool().unwrap();
    let perms: Vec<Vec<usize>> = input["perms"].as_array().map(|a| a.iter().map(|p| p.as_array().unwrap().iter().map(|x| x.as_u64().unwrap() as usize).collect()).collect()).unwrap_or_default();
    let inp = input.clone();
    let (h2, c2) = (headers.clone(), chunks.clone());
    let res = catch(move || {
        let request = build_request(&inp);
        let routes = build_routes(&rules);
        let mut action = Action::from_routes_rule(routes.clone(), &request, None);
        let action_json = serde_json::to_value(&action).unwrap();
        // C11: permutations of the matched list give the same serialised action
        let base = serde_json::to_string(&action).unwrap();
        let mut perm_same = true;
        for p in &perms {
            if p.len() != routes.len() { continue; }
            let permuted: Vec<Arc<Route<Rule>>> = p.iter().map(|i| routes[*i].clone()).collect();
            let a2 = Action::from_routes_rule(permuted, &request, None);
            if serde_json::to_string(&a2).unwrap() != base { perm_same = false; }
        }
        // C11: the same rules inserted into a router in different orders, matched, give the same serialised action
        if inp["router"].as_bool().unwrap_or(false) {
            let cfg = RouterConfig::default();
            let mut orders: Vec<Vec<usize>> = perms.clone();
            orders.push((0..rules.len()).collect());
            for p in &orders {
                if p.len() != rules.len() { continue; }
                let mut router = redirectionio::router::Router::<Rule>::from_config(cfg.clone());
                for i in p {
                    let rule: Rule = serde_json::from_value(rule_json(&rules[*i])).expect("rule json");
                    router.insert(rule);
                }
                let req = router.rebuild_request(&request);
                let matched = router.match_request(&req);
                let a2 = Action::from_routes_rule(matched, &request, None);
                if serde_json::to_string(&a2).unwrap() != base { perm_same = false; }
            }
        }
        let status = action.get_status_code(code, None);
        let hs = action.filter_headers(h2, code, add_ids, None);
        let mut body: Vec<u8> = Vec::new();
        match action.create_filter_body(code, &hs) {
            None => { for c in &c2 { body.extend(c.as_bytes()); } }
            Some(mut f) => { for c in &c2 { body.extend(f.filter(c.as_bytes().to_vec(), None)); } body.extend(f.end(None)); }
        }
        let log = action.should_log_request(allow_log, code, None);
        let applied: Vec<String> = action.get_applied_rule_ids().iter().cloned().collect();
        (action_json, status, hs, body, log, applied, perm_same)
    });
    let (action_json, status, hs, body, log, applied, perm_same) = match res {
        Ok(x) => x,
        Err(e) => { emit(id, "", input.clone(), &["panic".to_string()], false, json!({"panic": e})); return; }
    };
    let mut names: BTreeSet<String> = BTreeSet::new();
    for h in &headers { names.insert(h.name.clone()); }
    for r in input["rules"].as_array().unwrap() { for f in r["hf"].as_array().unwrap() { names.insert(f["header"].as_str().unwrap().to_string()); } }
    names.insert("Location".to_string());
    let lower: Vec<(String, String)> = names.iter().map(|n| (n.clone(), n.to_lowercase())).filter(|(a, b)| a != b).collect();
    let cq_headers = |hs: &[Header]| cq_list(hs, |h| format!("({}, {})", cq_str(&h.name), cq_str(&h.value)));
    let coq = format!("{{| c_rules := {}; c_skipped := {}; c_override := {}; c_code := {}; c_headers := {}; c_allow_log := {}; c_add_ids := {}; c_chunks := {}; c_lower := {}; o_action := {}; o_status := {}; o_headers := {}; o_body := {}; o_log := {}; o_applied := {}; o_perm_same := {} |}}",
        cq_list(input["rules"].as_array().unwrap(), cq_rule), cq_ostr(&input["skipped"]), cq_obool(&input["override"]), code,
        cq_headers(&headers), cq_bool(allow_log), cq_bool(add_ids), cq_list(&chunks, |c| cq_str(c)),
        cq_list(&lower, |(a, b)| format!("({}, {})", cq_str(a), cq_str(b))),
        cq_action(&action_json), status, cq_headers(&hs), cq_bytes(&body), cq_bool(log), cq_list(&applied, |s| cq_str(s)), cq_bool(perm_same));
    let mut tags = vec![format!("nrules:{}", input["rules"].as_array().unwrap().len()), format!("code:{}", code)];
    let rs = input["rules"].as_array().unwrap();
    if rs.iter().any(|r| r["reset"] == json!(true)) { tags.push("reset".into()); }
    if rs.iter().any(|r| r["stop"] == json!(true)) { tags.push("stop".into()); }
    if rs.iter().any(|r| !r["sampling"].is_null()) { tags.push("sampling".into()); }
    if rs.iter().any(|r| r["excl"] == json!(false)) { tags.push("excl:false".into()); }
    if rs.iter().any(|r| r["excl"] == json!(true)) { tags.push("excl:true".into()); }
    if !action_json["status_code_update"].is_null() && action_json["status_code_update"]["fallback_status_code"] != json!(0) { tags.push("status-fallback".into()); }
    if status != 0 { tags.push("status-nonzero".into()); }
    let ranks: BTreeSet<u64> = rs.iter().map(|r| r["rank"].as_u64().unwrap()).collect();
    if ranks.len() < rs.len() { tags.push("rank-ties".into()); }
    let nontrivial = rs.len() >= 2 && (status != 0 || !applied.is_empty());
    emit(id, &coq, input.clone(), &tags, nontrivial, json!({"status": status, "applied": applied, "log": log, "body": String::from_utf8_lossy(&body), "headers": hs.iter().map(|h| json!([h.name, h.value])).collect::<Vec<_>>(), "perm_same": perm_same}));
}

/// C11: the C05 cases with more permutations and the router insertion-order check switched on
pub fn generate_c11(seed: u64, thorough: bool) -> Vec<Value> {
    let mut rng = Rng::new(seed ^ 0x11);
    let n = if thorough { 8000 } else { 1200 };
    (0..n).map(|_| {
        let mut c = gen_case(&mut rng);
        let k = c["rules"].as_array().unwrap().len();
        let mut perms = Vec::new();
        for _ in 0..(if thorough { 12 } else { 4 }) {
            let mut p: Vec<usize> = (0..k).collect();
            for i in (1..k).rev() { let j = rng.below(i + 1); p.swap(i, j); }
            perms.push(p);
        }
        c["perms"] = json!(perms);
        c["router"] = json!(true);
        c
    }).collect()
}

pub fn generate(seed: u64, thorough: bool) -> Vec<Value> {
    let mut rng = Rng::new(seed ^ 0x05);
    let n = if thorough { 20000 } else { 2500 };
    (0..n).map(|_| gen_case(&mut rng)).collect()
}
