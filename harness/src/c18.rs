//! C18: the extern "C" surface driven as a C client would, under the recording allocator (alloc_audit): every
//! object / buffer / string / header map is used and then released exactly once through the matching function; the
//! audit (layout of every deallocation, double frees, blocks still live) and the returned values (against the native
//! API) are the observations.  The abstract client program is emitted for the Coq model (RIO.Heap).
//! Input: {"ops":[...]} (see gen_program)
use crate::alloc_audit;
use crate::common::*;
use redirectionio::action::Action;
use redirectionio::api::Rule;
use redirectionio::filter::{Buffer, FilterBodyAction};
use redirectionio::http::{Header, PathAndQueryWithSkipped, Request};
use redirectionio::router::{IntoRoute, Route};
use redirectionio::RouterConfig;
use serde_json::{json, Value};
use std::collections::BTreeMap;
use std::ffi::{CStr, CString};
use std::os::raw::c_char;
use std::sync::Arc;

#[repr(C)]
pub struct HM { name: *const c_char, value: *const c_char, next: *mut HM }

unsafe extern "C" {
    fn redirectionio_action_json_deserialize(s: *mut c_char) -> *const Action;
    fn redirectionio_action_json_serialize(a: *mut Action) -> *const c_char;
    fn redirectionio_action_drop(a: *mut Action);
    fn redirectionio_action_get_status_code(a: *mut Action, code: u16) -> u16;
    fn redirectionio_action_header_filter_filter(a: *mut Action, hm: *const HM, code: u16, add: bool) -> *const HM;
    fn redirectionio_action_body_filter_create(a: *mut Action, code: u16, hm: *const HM) -> *const FilterBodyAction;
    fn redirectionio_action_body_filter_filter(f: *mut FilterBodyAction, b: Buffer) -> Buffer;
    fn redirectionio_action_body_filter_close(f: *mut FilterBodyAction) -> Buffer;
    fn redirectionio_action_body_filter_drop(f: *mut FilterBodyAction);
    fn redirectionio_action_should_log_request(a: *mut Action, allow: bool, code: u16) -> bool;
    fn redirectionio_request_json_deserialize(s: *mut c_char) -> *const Request;
    fn redirectionio_request_json_serialize(r: *const Request) -> *const c_char;
    fn redirectionio_request_create(uri: *const c_char, host: *const c_char, scheme: *const c_char, method: *const c_char, hm: *const HM) -> *const Request;
    fn redirectionio_request_from_str(url: *const c_char) -> *const Request;
    fn redirectionio_request_drop(r: *mut Request);
    fn redirectionio_api_buffer_drop(b: Buffer);
    fn redirectionio_api_get_rule_api_version() -> *const c_char;
    fn redirectionio_log_init_with_callback(cb: extern "C" fn(*const c_char, *const std::os::raw::c_void, i16), data: *const std::os::raw::c_void);
    fn redirectionio_trusted_proxies_create(s: *const c_char) -> *const std::os::raw::c_void;
    fn redirectionio_trusted_proxies_add_proxy(tp: *mut std::os::raw::c_void, s: *const c_char);
    fn redirectionio_request_set_remote_addr(r: *mut Request, addr: *const c_char, tp: *const std::os::raw::c_void);
    fn redirectionio_api_create_log_in_json(r: *mut Request, code: u16, hm: *const HM, a: *mut Action, proxy: *const c_char, time: u64, ip: *const c_char) -> *const c_char;
}

/// The log callback of a C host: it OWNS the message it receives (callback_log.rs hands it over with CString::into_raw)
/// and releases it, as the proxy modules do with free().
static LOG_LINES: std::sync::atomic::AtomicUsize = std::sync::atomic::AtomicUsize::new(0);
static LOG_DATA: u8 = 0;
extern "C" fn log_cb(msg: *const c_char, _data: *const std::os::raw::c_void, _level: i16) {
    LOG_LINES.fetch_add(1, std::sync::atomic::Ordering::Relaxed);
    if !msg.is_null() { drop(unsafe { CString::from_raw(msg as *mut c_char) }); }
}
fn install_logger() {
    static ONCE: std::sync::Once = std::sync::Once::new();
    ONCE.call_once(|| unsafe { redirectionio_log_init_with_callback(log_cb, &LOG_DATA as *const u8 as *const std::os::raw::c_void) });
}
const NULL_MARK: &str = "\u{1}<null>";

fn build_hm(headers: &[(String, String)]) -> *const HM {
    // as a C client would: one node per header, the list in the given order
    let mut head: *mut HM = std::ptr::null_mut();
    for (n, v) in headers.iter().rev() {
        let node = Box::new(HM { name: CString::new(n.as_str()).unwrap().into_raw(), value: CString::new(v.as_str()).unwrap().into_raw(), next: head });
        head = Box::into_raw(node);
    }
    head
}
fn read_hm(mut hm: *const HM) -> Vec<(String, String)> {
    let mut out = Vec::new();
    while !hm.is_null() {
        let n = unsafe { &*hm };
        let rd = |p: *const c_char| if p.is_null() { NULL_MARK.to_string() } else { unsafe { CStr::from_ptr(p) }.to_string_lossy().to_string() };
        out.push((rd(n.name), rd(n.value)));
        hm = n.next;
    }
    out
}
fn free_hm(mut hm: *const HM) {
    while !hm.is_null() {
        let node = unsafe { Box::from_raw(hm as *mut HM) };
        if !node.name.is_null() { drop(unsafe { CString::from_raw(node.name as *mut c_char) }); }
        if !node.value.is_null() { drop(unsafe { CString::from_raw(node.value as *mut c_char) }); }
        hm = node.next;
    }
}
fn take_str(p: *const c_char) -> Option<String> {
    if p.is_null() { return None; }
    let s = unsafe { CStr::from_ptr(p) }.to_string_lossy().to_string();
    drop(unsafe { CString::from_raw(p as *mut c_char) });
    Some(s)
}

fn native_action(rules: &Value) -> Action {
    let cfg = RouterConfig::default();
    let routes: Vec<Arc<Route<Rule>>> = rules.as_array().unwrap().iter().map(|r| Arc::new(serde_json::from_value::<Rule>(r.clone()).expect("rule").into_route(&cfg))).collect();
    let request = Request::new(PathAndQueryWithSkipped::from_static("/x"), "/x".to_string(), None, None, None, None, None);
    Action::from_routes_rule(routes, &request, None)
}

struct World {
    bufs: BTreeMap<u64, Buffer>,
    actions: BTreeMap<u64, (*mut Action, Action)>,       // the C handle and a native twin built from the same JSON
    filters: BTreeMap<u64, (*mut FilterBodyAction, Option<FilterBodyAction>)>,
    requests: BTreeMap<u64, *mut Request>,
    same: bool,
    notes: Vec<String>,
}

/// Buffer is #[repr(C)] { data: *mut u8, len: usize }: read the pointer the C caller sees
fn buf_ptr(b: &Buffer) -> usize { let raw: &(usize, usize) = unsafe { &*(b as *const Buffer as *const (usize, usize)) }; raw.0 }

fn pattern(len: usize, salt: u64) -> Vec<u8> { (0..len).map(|i| b"<html><body><p>x</p></body></html>\n"[(i + salt as usize) % 35]).collect() }

// ---------------------------------------------------------------------------------------------- hostile header lists
/// A header list as a C client may hand it over: names / values that are NULL or not UTF-8.  The contract of
/// header_map_to_http_headers is to skip such entries; every entry point taking a list must return (watchdog: a call
/// that does not return within 5 s is reported, the harness stops) and must see exactly the well-formed entries.
fn build_hm_raw(headers: &[(Option<Vec<u8>>, Option<Vec<u8>>)]) -> *const HM {
    let mut head: *mut HM = std::ptr::null_mut();
    let raw = |b: &Option<Vec<u8>>| -> *const c_char { match b { None => std::ptr::null(), Some(v) => unsafe { CString::from_vec_unchecked(v.clone()) }.into_raw() as *const c_char } };
    for (n, v) in headers.iter().rev() {
        let node = Box::new(HM { name: raw(n), value: raw(v), next: head });
        head = Box::into_raw(node);
    }
    head
}
fn hostile_entry(v: &Value) -> Option<Vec<u8>> {
    if v.is_null() { return None; }
    if let Some(s) = v.as_str() { return Some(s.as_bytes().to_vec()); }
    Some(v.as_array().map(|a| a.iter().map(|x| x.as_u64().unwrap_or(0) as u8).filter(|b| *b != 0).collect()).unwrap_or_default())
}
fn run_hostile(o: &Value) -> Result<Vec<String>, String> {
    let list: Vec<(Option<Vec<u8>>, Option<Vec<u8>>)> = o["headers"].as_array().unwrap().iter().map(|h| (hostile_entry(&h[0]), hostile_entry(&h[1]))).collect();
    let expected: Vec<(String, String)> = list.iter().filter_map(|(n, v)| match (n, v) {
        (Some(n), Some(v)) => match (std::str::from_utf8(n), std::str::from_utf8(v)) { (Ok(n), Ok(v)) => Some((n.to_string(), v.to_string())), _ => None },
        _ => None }).collect();
    let which = o["entry"].as_str().unwrap_or("request").to_string();
    let rules = o["rules"].clone();
    let (tx, rx) = std::sync::mpsc::channel();
    let list2 = list.clone();
    std::thread::spawn(move || {
        let r = catch(move || {
            let mut notes: Vec<String> = Vec::new();
            let hm = build_hm_raw(&list2);
            match which.as_str() {
                "request" => {
                    let uri = CString::new("/x").unwrap();
                    let r = unsafe { redirectionio_request_create(uri.as_ptr(), std::ptr::null(), std::ptr::null(), std::ptr::null(), hm) } as *mut Request;
                    if r.is_null() { notes.push("request_create returned null".into()); } else {
                        let got: Vec<(String, String)> = unsafe { &*r }.headers.iter().map(|h| (h.name.clone(), h.value.clone())).collect();
                        if got != expected { notes.push(format!("request headers {:?} instead of the well-formed entries {:?}", got, expected)); }
                        unsafe { redirectionio_request_drop(r) };
                    }
                }
                _ => {
                    let native = native_action(&rules);
                    let text = CString::new(serde_json::to_string(&native).unwrap()).unwrap();
                    let a = unsafe { redirectionio_action_json_deserialize(text.as_ptr() as *mut c_char) } as *mut Action;
                    if a.is_null() { notes.push("action deserialize returned null".into()); } else {
                        if which == "filter_headers" {
                            let out = unsafe { redirectionio_action_header_filter_filter(a, hm, 200, false) };
                            let got = read_hm(out);
                            let mut nat: Action = serde_json::from_str(&serde_json::to_string(&native).unwrap()).unwrap();
                            let want: Vec<(String, String)> = nat.filter_headers(expected.iter().map(|(n, v)| Header { name: n.clone(), value: v.clone() }).collect(), 200, false, None).into_iter().map(|h| { let c_view = |s: String| if s.contains('\0') { NULL_MARK.to_string() } else { s }; (c_view(h.name), c_view(h.value)) }).collect();
                            let (mut g, mut w) = (got.clone(), want.clone()); g.sort(); w.sort();
                            if g != w { notes.push(format!("filtered headers {:?} instead of {:?}", got, want)); }
                            free_hm(out);
                        } else {
                            let f = unsafe { redirectionio_action_body_filter_create(a, 200, hm) } as *mut FilterBodyAction;
                            if !f.is_null() { unsafe { redirectionio_action_body_filter_drop(f) }; }
                        }
                        unsafe { redirectionio_action_drop(a) };
                    }
                }
            }
            free_hm(hm);
            notes
        });
        let _ = tx.send(r);
    });
    match rx.recv_timeout(std::time::Duration::from_secs(5)) {
        Ok(r) => r,
        Err(_) => Err("TIMEOUT: an extern \"C\" entry point taking a header list did not return within 5 s (NULL or non-UTF-8 name / value in the list)".to_string()),
    }
}

fn run_program(ops: &[Value]) -> (bool, Vec<String>) {
    let mut w = World { bufs: BTreeMap::new(), actions: BTreeMap::new(), filters: BTreeMap::new(), requests: BTreeMap::new(), same: true, notes: Vec::new() };
    for o in ops {
        let id = o["id"].as_u64().unwrap_or(0);
        match o["op"].as_str().unwrap() {
            "buf" => {
                let (len, cap) = (o["len"].as_u64().unwrap() as usize, o["cap"].as_u64().unwrap() as usize);
                let mut v: Vec<u8> = Vec::with_capacity(cap.max(len));
                v.extend_from_slice(&pattern(len, id));
                let b = Buffer::from_vec(v);
                if b.to_vec() != pattern(len, id) { w.same = false; w.notes.push(format!("buffer {} content", id)); }
                w.bufs.insert(id, b);
            }
            "strbuf" => {
                let mut s = String::with_capacity(o["cap"].as_u64().unwrap() as usize);
                s.push_str(o["s"].as_str().unwrap());
                let b = Buffer::from_string(s);
                if b.to_vec() != o["s"].as_str().unwrap().as_bytes() { w.same = false; w.notes.push(format!("string buffer {} content", id)); }
                w.bufs.insert(id, b);
            }
            "dup" => {
                let src = w.bufs.get(&o["src"].as_u64().unwrap()).unwrap();
                let d = if o["how"] == "clone" { src.clone() } else { src.duplicate() };
                if d.to_vec() != src.to_vec() { w.same = false; w.notes.push("duplicate differs".into()); }
                if buf_ptr(&d) != 0 && buf_ptr(&d) == buf_ptr(src) { w.same = false; w.notes.push("duplicate shares memory with the original".into()); std::mem::forget(d); continue; }
                w.bufs.insert(o["dst"].as_u64().unwrap(), d);
            }
            "release" => {
                let b = w.bufs.remove(&id).unwrap();
                if o["how"] == "into_vec" { drop(b.into_vec()); } else { unsafe { redirectionio_api_buffer_drop(b) }; }
            }
            "action" => {
                let native = native_action(&o["rules"]);
                let text = serde_json::to_string(&native).unwrap();
                let c = CString::new(text.clone()).unwrap();
                let p = unsafe { redirectionio_action_json_deserialize(c.as_ptr() as *mut c_char) } as *mut Action;
                drop(c);
                if p.is_null() { w.same = false; w.notes.push("action deserialize returned null".into()); continue; }
                let twin: Action = serde_json::from_str(&text).unwrap();
                w.actions.insert(id, (p, twin));
            }
            "action_use" => {
                let code = o["code"].as_u64().unwrap() as u16;
                let headers: Vec<(String, String)> = o["headers"].as_array().unwrap().iter().map(|h| (h[0].as_str().unwrap().to_string(), h[1].as_str().unwrap().to_string())).collect();
                let (p, twin) = w.actions.get_mut(&id).unwrap();
                let st = unsafe { redirectionio_action_get_status_code(*p, code) };
                if st != twin.get_status_code(code, None) { w.same = false; w.notes.push("status".into()); }
                let hm = build_hm(&headers);
                let out = unsafe { redirectionio_action_header_filter_filter(*p, hm, code, o["add_ids"].as_bool().unwrap_or(false)) };
                let mut got = read_hm(out);
                let c_view = |s: String| if s.contains('\0') { NULL_MARK.to_string() } else { s };
                let mut want: Vec<(String, String)> = twin.filter_headers(headers.iter().map(|(n, v)| Header { name: n.clone(), value: v.clone() }).collect(), code, o["add_ids"].as_bool().unwrap_or(false), None).into_iter().map(|h| (c_view(h.name), c_view(h.value))).collect();
                got.sort(); want.sort();
                if got != want { w.same = false; w.notes.push(format!("headers {:?} vs {:?}", got, want)); }
                free_hm(out);
                free_hm(hm);
                let lg = unsafe { redirectionio_action_should_log_request(*p, true, code) };
                if lg != twin.should_log_request(true, code, None) { w.same = false; w.notes.push("log".into()); }
            }
            "serialize" => {
                let (p, twin) = w.actions.get(&id).unwrap();
                let s = take_str(unsafe { redirectionio_action_json_serialize(*p) });
                if s != Some(serde_json::to_string(twin).unwrap()) { w.same = false; w.notes.push("serialize".into()); }
            }
            "filter_create" => {
                let code = o["code"].as_u64().unwrap() as u16;
                let headers: Vec<(String, String)> = o["headers"].as_array().unwrap().iter().map(|h| (h[0].as_str().unwrap().to_string(), h[1].as_str().unwrap().to_string())).collect();
                let (p, twin) = w.actions.get_mut(&o["action"].as_u64().unwrap()).unwrap();
                let hm = build_hm(&headers);
                let f = unsafe { redirectionio_action_body_filter_create(*p, code, hm) } as *mut FilterBodyAction;
                free_hm(hm);
                let hs: Vec<Header> = headers.iter().map(|(n, v)| Header { name: n.clone(), value: v.clone() }).collect();
                let nf = twin.create_filter_body(code, &hs);
                if f.is_null() != nf.is_none() { w.same = false; w.notes.push("filter presence".into()); }
                w.filters.insert(id, (f, nf));
            }
            "filter" => {
                let inp = w.bufs.remove(&o["inp"].as_u64().unwrap()).unwrap();
                let bytes = inp.to_vec();
                let (f, nf) = w.filters.get_mut(&o["f"].as_u64().unwrap()).unwrap();
                // Buffer is a plain (ptr, len) pair: the C caller still holds its copy after the call
                let callers_copy = unsafe { std::ptr::read(&inp) };
                let out = unsafe { redirectionio_action_body_filter_filter(*f, inp) };
                let want = match nf { Some(n) => n.filter(bytes.clone(), None), None => bytes.clone() };
                if out.to_vec() != want { w.same = false; w.notes.push("filter output".into()); }
                if f.is_null() {
                    // a null filter returns a DUPLICATE: the input stays with the caller, who releases it
                    if buf_ptr(&out) != 0 && buf_ptr(&out) == buf_ptr(&callers_copy) {
                        w.same = false; w.notes.push("null filter: the result shares memory with the caller's buffer (releasing both is a double free)".into());
                        std::mem::forget(callers_copy);
                    } else { unsafe { redirectionio_api_buffer_drop(callers_copy) }; }
                } else {
                    std::mem::forget(callers_copy); // consumed by the library
                }
                w.bufs.insert(o["out"].as_u64().unwrap(), out);
            }
            "filter_close" => {
                let (f, nf) = w.filters.remove(&o["f"].as_u64().unwrap()).unwrap();
                let out = unsafe { redirectionio_action_body_filter_close(f) };
                let want = match nf { Some(mut n) => n.end(None), None => Vec::new() };
                if out.to_vec() != want { w.same = false; w.notes.push("close output".into()); }
                w.bufs.insert(o["out"].as_u64().unwrap(), out);
            }
            "filter_drop" => { let (f, _) = w.filters.remove(&o["f"].as_u64().unwrap()).unwrap(); unsafe { redirectionio_action_body_filter_drop(f) }; }
            "action_drop" => { let (p, _) = w.actions.remove(&id).unwrap(); unsafe { redirectionio_action_drop(p) }; }
            "request" => {
                let uri = CString::new(o["uri"].as_str().unwrap()).unwrap();
                let host = o["host"].as_str().map(|s| CString::new(s).unwrap());
                let headers: Vec<(String, String)> = o["headers"].as_array().unwrap().iter().map(|h| (h[0].as_str().unwrap().to_string(), h[1].as_str().unwrap().to_string())).collect();
                let hm = build_hm(&headers);
                let p = match o["how"].as_str().unwrap() {
                    "from_str" => unsafe { redirectionio_request_from_str(uri.as_ptr()) },
                    _ => unsafe { redirectionio_request_create(uri.as_ptr(), host.as_ref().map(|h| h.as_ptr()).unwrap_or(std::ptr::null()), std::ptr::null(), std::ptr::null(), hm) },
                } as *mut Request;
                free_hm(hm);
                if p.is_null() { w.same = false; w.notes.push("request null".into()); continue; }
                // round trip through the JSON entry points
                let s = take_str(unsafe { redirectionio_request_json_serialize(p) }).unwrap_or_default();
                if s != serde_json::to_string(unsafe { &*p }).unwrap() { w.same = false; w.notes.push("request serialize".into()); }
                let c = CString::new(s.clone()).unwrap();
                let p2 = unsafe { redirectionio_request_json_deserialize(c.as_ptr() as *mut c_char) } as *mut Request;
                if p2.is_null() { w.same = false; w.notes.push("request deserialize null".into()); } else {
                    let s2 = take_str(unsafe { redirectionio_request_json_serialize(p2) }).unwrap_or_default();
                    if s2 != s { w.same = false; w.notes.push("request reserialize".into()); }
                    // the log entry point borrows request, headers and action
                    let lg = take_str(unsafe { redirectionio_api_create_log_in_json(p2, 200, std::ptr::null(), std::ptr::null_mut(), std::ptr::null(), 1, std::ptr::null()) });
                    if lg.is_none() { w.same = false; w.notes.push("log json null".into()); }
                    unsafe { redirectionio_request_drop(p2) };
                }
                w.requests.insert(id, p);
            }
            "proxies" => {
                // the trusted-proxies handle: created from a list, extended one entry at a time (entries that do not parse are
                // skipped with a warning and must leave the handle usable), used to compute the client address of a live
                // request, compared with the native computation.  The library has no release entry point for the handle
                // (it lives as long as the host): the harness releases its two boxes itself, so that the audit of the
                // program stays exact (#[repr(C)] struct TrustedProxies(*mut ()) = one pointer to a boxed Config).
                let Some(&rp) = w.requests.get(&o["req"].as_u64().unwrap()) else { continue };
                let create = o["create"].as_str().map(|s| CString::new(s).unwrap());
                let tp = unsafe { redirectionio_trusted_proxies_create(create.as_ref().map(|c| c.as_ptr()).unwrap_or(std::ptr::null())) } as *mut std::os::raw::c_void;
                if tp.is_null() { w.same = false; w.notes.push("trusted proxies null".into()); continue; }
                let mut native = trusted_proxies::Config::default();
                if let Some(c) = o["create"].as_str() { for x in c.split(',') { let x = x.trim(); if !x.is_empty() { let _ = native.add_trusted_ip(x); } } }
                for a in o["adds"].as_array().unwrap() {
                    let a = a.as_str().unwrap();
                    let c = CString::new(a).unwrap();
                    unsafe { redirectionio_trusted_proxies_add_proxy(tp, c.as_ptr()) };
                    let _ = native.add_trusted_ip(a);
                }
                unsafe { redirectionio_trusted_proxies_add_proxy(tp, std::ptr::null()) };
                unsafe { redirectionio_trusted_proxies_add_proxy(std::ptr::null_mut(), std::ptr::null()) };
                for addr in o["addrs"].as_array().unwrap() {
                    let addr = addr.as_str().unwrap();
                    let c = CString::new(addr).unwrap();
                    let before = unsafe { &*rp }.remote_addr;
                    unsafe { redirectionio_request_set_remote_addr(rp, c.as_ptr(), if o["null_tp"] == json!(true) { std::ptr::null() } else { tp as *const _ }) };
                    let got = unsafe { &*rp }.remote_addr;
                    let want = match addr.parse::<redirectionio::http::Addr>() {
                        Err(_) => before,
                        Ok(a) => { let dflt = trusted_proxies::Config::default(); let cfg = if o["null_tp"] == json!(true) { &dflt } else { &native };
                                   Some(trusted_proxies::Trusted::from(a.addr, unsafe { &*rp }, cfg).ip()) }
                    };
                    if got != want { w.same = false; w.notes.push(format!("remote address {:?} instead of {:?} for {}", got, want, addr)); }
                }
                unsafe {
                    let cfg = *(tp as *const *mut trusted_proxies::Config);
                    drop(Box::from_raw(cfg));
                    drop(Box::from_raw(tp as *mut *mut ()));
                }
            }
            "request_drop" => { if let Some(p) = w.requests.remove(&id) { unsafe { redirectionio_request_drop(p) }; } }
            "bad_json" => {
                // malformed documents: null results, and an error line through the host's log callback (which owns and
                // releases the message)
                let before = LOG_LINES.load(std::sync::atomic::Ordering::Relaxed);
                let c = CString::new(o["text"].as_str().unwrap_or("{")).unwrap();
                unsafe {
                    if !redirectionio_action_json_deserialize(c.as_ptr() as *mut c_char).is_null() { w.same = false; w.notes.push("malformed action accepted".into()); }
                    if !redirectionio_request_json_deserialize(c.as_ptr() as *mut c_char).is_null() { w.same = false; w.notes.push("malformed request accepted".into()); }
                }
                if LOG_LINES.load(std::sync::atomic::Ordering::Relaxed) < before + 2 { w.same = false; w.notes.push("no error line reached the log callback".into()); }
            }
            "nulls" => {
                unsafe {
                    if !redirectionio_action_json_deserialize(std::ptr::null_mut()).is_null() { w.same = false; }
                    if !redirectionio_action_json_serialize(std::ptr::null_mut()).is_null() { w.same = false; }
                    redirectionio_action_drop(std::ptr::null_mut());
                    if redirectionio_action_get_status_code(std::ptr::null_mut(), 200) != 0 { w.same = false; }
                    if !redirectionio_action_header_filter_filter(std::ptr::null_mut(), std::ptr::null(), 200, true).is_null() { w.same = false; }
                    if !redirectionio_action_body_filter_create(std::ptr::null_mut(), 200, std::ptr::null()).is_null() { w.same = false; }
                    let b = Buffer::from_vec(pattern(5, 1));
                    let d = redirectionio_action_body_filter_filter(std::ptr::null_mut(), std::ptr::read(&b));
                    if d.to_vec() != pattern(5, 1) { w.same = false; w.notes.push("null filter duplicate".into()); }
                    if buf_ptr(&d) == buf_ptr(&b) { w.same = false; w.notes.push("null filter: the result shares memory with the caller's buffer".into()); std::mem::forget(d); } else { redirectionio_api_buffer_drop(d); }
                    redirectionio_api_buffer_drop(b);
                    redirectionio_api_buffer_drop(redirectionio_action_body_filter_close(std::ptr::null_mut()));
                    redirectionio_action_body_filter_drop(std::ptr::null_mut());
                    if !redirectionio_action_should_log_request(std::ptr::null_mut(), true, 200) { w.same = false; }
                    if !redirectionio_request_json_deserialize(std::ptr::null_mut()).is_null() { w.same = false; }
                    if !redirectionio_request_json_serialize(std::ptr::null()).is_null() { w.same = false; }
                    let r = redirectionio_request_create(std::ptr::null(), std::ptr::null(), std::ptr::null(), std::ptr::null(), std::ptr::null()) as *mut Request;
                    if r.is_null() { w.same = false; } else { redirectionio_request_drop(r); }
                    let r = redirectionio_request_from_str(std::ptr::null()) as *mut Request;
                    if !r.is_null() { redirectionio_request_drop(r); }
                    redirectionio_request_drop(std::ptr::null_mut());
                    redirectionio_api_buffer_drop(Buffer::default());
                    if take_str(redirectionio_api_get_rule_api_version()).is_none() { w.same = false; }
                    if !redirectionio_api_create_log_in_json(std::ptr::null_mut(), 200, std::ptr::null(), std::ptr::null_mut(), std::ptr::null(), 0, std::ptr::null()).is_null() { w.same = false; }
                }
            }
            other => panic!("bad op {}", other),
        }
    }
    if !(w.bufs.is_empty() && w.actions.is_empty() && w.filters.is_empty() && w.requests.is_empty()) { w.notes.push("program left handles".into()); w.same = false; }
    (w.same, w.notes)
}

// ---------------------------------------------------------------- generator: protocol-respecting programs
const RULES: &[&str] = &[
    r#"{"id":"a","rank":1,"status_code":301,"target":"/t","source":{"path":"/x"},"header_filters":[{"action":"add","header":"X-A","value":"1"}]}"#,
    r#"{"id":"b","rank":2,"source":{"path":"/x"},"body_filters":[{"action":"append_text","content":"[tail]"}]}"#,
    r#"{"id":"c","rank":0,"source":{"path":"/x"},"body_filters":[{"action":"append_child","value":"<i>V</i>","element_tree":["html","body"],"css_selector":null}],"header_filters":[{"action":"override","header":"Location","value":"/z"}]}"#,
    r#"{"id":"d","rank":3,"source":{"path":"/x","response_status_codes":[404]},"status_code":410,"log_override":false}"#,
    r#"{"id":"e","rank":4,"source":{"path":"/x"},"header_filters":[{"action":"add","header":"X-Nul","value":"a\u0000b"},{"action":"add","header":"X-B","value":"2"}]}"#,
];

pub fn gen_program(rng: &mut Rng) -> Value {
    let mut ops: Vec<Value> = Vec::new();
    let mut next = 1u64;
    let mut fresh = || { let i = next; next += 1; i };
    let n = 1 + rng.below(5);
    for _ in 0..n {
        match rng.below(6) {
            0 | 1 => {
                // buffers: empty, 1 byte, large, capacity != length; duplicate; release both ways
                let len = *rng.pick(&[0usize, 1, 2, 7, 64, 1000, 70000]);
                let cap = len + *rng.pick(&[0usize, 0, 1, 9, 4096]);
                let a = fresh();
                if rng.chance(1, 4) { ops.push(json!({"op": "strbuf", "id": a, "s": "é".repeat(len.min(50)), "cap": cap})); } else { ops.push(json!({"op": "buf", "id": a, "len": len, "cap": cap})); }
                if rng.chance(1, 2) { let b = fresh(); ops.push(json!({"op": "dup", "src": a, "dst": b, "how": if rng.chance(1, 2) { "clone" } else { "duplicate" }})); ops.push(json!({"op": "release", "id": b, "how": if rng.chance(1, 2) { "drop" } else { "into_vec" }})); }
                ops.push(json!({"op": "release", "id": a, "how": if rng.chance(1, 2) { "drop" } else { "into_vec" }}));
            }
            2 => {
                let r = fresh();
                let from_str = rng.chance(1, 3);
                ops.push(json!({"op": "request", "id": r, "how": if from_str { "from_str" } else { "create" }, "uri": if from_str { *rng.pick(&["/x", "/x?a=1&utm_source=z", "https://example.org/x"]) } else { *rng.pick(&["/x", "/x?a=1&utm_source=z", "/é b", "https://example.org/x"]) },
                                "host": if rng.chance(1, 2) { json!("example.org") } else { Value::Null }, "headers": match rng.below(3) { 0 => json!([["X-A", "1"], ["x-a", ""], ["Accept", "é"]]), 1 => json!([["X-Forwarded-For", "8.8.8.8, 10.0.0.9"], ["Forwarded", "for=9.9.9.9;proto=https"]]), _ => json!([]) }}));
                if rng.chance(1, 2) {
                    let n = rng.below(4);
                    let adds: Vec<Value> = (0..n).map(|_| json!(*rng.pick(&["192.168.1.1", "10.1.0.0/16", "bogus", "300.1.1.1", "", "::1", "10.0.0.0/33"]))).collect();
                    let addrs: Vec<Value> = (0..1 + rng.below(2)).map(|_| json!(*rng.pick(&["10.1.2.3", "10.1.2.3:8080", "8.8.8.8", "[::1]:443", "nope", "192.168.1.1"]))).collect();
                    ops.push(json!({"op": "proxies", "req": r, "create": match rng.below(4) { 0 => Value::Null, 1 => json!("10.0.0.0/8, bogus ,, 192.168.0.0/16"), 2 => json!(""), _ => json!("10.0.0.0/8") }, "adds": adds, "addrs": addrs, "null_tp": rng.chance(1, 5)}));
                }
                ops.push(json!({"op": "request_drop", "id": r}));
            }
            3 => { if rng.chance(1, 2) { ops.push(json!({"op": "nulls"})); } else { ops.push(json!({"op": "bad_json", "text": *rng.pick(&["{", "nope", "{\"rule_ids\": 3}", ""])})); } }
            _ => {
                let a = fresh();
                let k = 1 + rng.below(RULES.len());
                let rules: Vec<Value> = (0..k).map(|i| serde_json::from_str::<Value>(RULES[(i + rng.below(RULES.len())) % RULES.len()]).unwrap()).collect();
                // distinct ids
                let mut seen = std::collections::BTreeSet::new();
                let rules: Vec<Value> = rules.into_iter().filter(|r| seen.insert(r["id"].as_str().unwrap().to_string())).collect();
                ops.push(json!({"op": "action", "id": a, "rules": rules}));
                let code = *rng.pick(&[0u64, 200, 301, 404]);
                let headers = match rng.below(3) { 0 => json!([["Content-Type", "text/html"], ["X-A", "0"], ["location", "/old"]]), 1 => json!([["X-Empty", ""], ["Content-Type", "text/html"], ["X-A", ""]]), _ => json!([]) };
                if rng.chance(2, 3) { ops.push(json!({"op": "action_use", "id": a, "code": code, "headers": headers, "add_ids": rng.chance(1, 2)})); }
                if rng.chance(1, 2) { ops.push(json!({"op": "serialize", "id": a})); }
                if rng.chance(2, 3) {
                    let f = fresh();
                    ops.push(json!({"op": "filter_create", "id": f, "action": a, "code": code, "headers": headers}));
                    let chunks = rng.below(4);
                    for _ in 0..chunks {
                        let len = *rng.pick(&[0usize, 1, 10, 35, 300, 5000]);
                        let cap = len + *rng.pick(&[0usize, 3, 100]);
                        let (i, o) = (fresh(), fresh());
                        ops.push(json!({"op": "buf", "id": i, "len": len, "cap": cap}));
                        ops.push(json!({"op": "filter", "f": f, "inp": i, "out": o}));
                        ops.push(json!({"op": "release", "id": o, "how": "drop"}));
                    }
                    if rng.chance(3, 4) { let o = fresh(); ops.push(json!({"op": "filter_close", "f": f, "out": o})); ops.push(json!({"op": "release", "id": o, "how": "drop"})); } else { ops.push(json!({"op": "filter_drop", "f": f})); }
                }
                ops.push(json!({"op": "action_drop", "id": a}));
            }
        }
    }
    json!({"ops": ops})
}

fn gen_hostile(rng: &mut Rng) -> Value {
    let n = 1 + rng.below(4);
    let entry = |rng: &mut Rng| -> Value { match rng.below(6) { 0 => Value::Null, 1 => json!([0xe9u8]), 2 => json!([0x58u8, 0xffu8, 0x41u8]), 3 => json!(""), _ => json!(*rng.pick(&["X-A", "Content-Type", "text/html", "1", "caf\u{e9}"])) } };
    let headers: Vec<Value> = (0..n).map(|_| json!([entry(rng), entry(rng)])).collect();
    let rules: Vec<Value> = vec![serde_json::from_str::<Value>(RULES[rng.below(RULES.len())]).unwrap()];
    json!({"ops": [{"op": "hostile_headers", "entry": *rng.pick(&["request", "filter_headers", "body_filter_create"]), "headers": headers, "rules": rules}]})
}

pub fn generate(seed: u64, thorough: bool) -> Vec<Value> {
    let mut rng = Rng::new(seed ^ 0x18);
    let n = if thorough { 4000 } else { 400 };
    let mut v: Vec<Value> = (0..n).map(|_| gen_program(&mut rng)).collect();
    let mut rng2 = Rng::new(seed ^ 0x1818);
    for _ in 0..(if thorough { 400 } else { 60 }) { v.push(gen_hostile(&mut rng2)); }
    v
}

/// the abstract client program for RIO.Heap (sizes of boxed objects are those of the Rust types; the capacity of a Vec
/// produced inside the library is not observable: the model is told len, and the theorem covers every capacity)
fn abstract_program(ops: &[Value], out_lens: &BTreeMap<u64, usize>, null_filters: &std::collections::BTreeSet<u64>) -> String {
    let mut v: Vec<String> = Vec::new();
    let mut hdr = 1_000_000u64;
    let mut strs = 2_000_000u64;
    for o in ops {
        let id = o["id"].as_u64().unwrap_or(0);
        match o["op"].as_str().unwrap() {
            "buf" => v.push(format!("CBufNew {} {} {}", id, o["len"], o["cap"].as_u64().unwrap().max(o["len"].as_u64().unwrap()))),
            "strbuf" => { let l = o["s"].as_str().unwrap().len() as u64; v.push(format!("CBufNew {} {} {}", id, l, o["cap"].as_u64().unwrap().max(l))); }
            "dup" => v.push(format!("CBufDup {} {}", o["src"], o["dst"])),
            "release" => v.push(format!("CBufRelease {}", id)),
            "action" => v.push(format!("CBoxNew {} {}", id, std::mem::size_of::<Action>())),
            "action_use" => {
                // the client's header map, the returned one, both freed by the client
                let n = o["headers"].as_array().unwrap().len();
                let entries = cq_list(o["headers"].as_array().unwrap(), |h| format!("({}, {})", h[0].as_str().unwrap().len(), h[1].as_str().unwrap().len()));
                v.push(format!("CHdrNew {} {}", hdr, entries)); v.push(format!("CHdrFree {}", hdr)); hdr += 1;
                let _ = n;
            }
            "serialize" => { v.push(format!("CStrNew {} 1", strs)); v.push(format!("CStrFree {}", strs)); strs += 1; }
            "filter_create" => { if !null_filters.contains(&id) { v.push(format!("CBoxNew {} {}", id, std::mem::size_of::<FilterBodyAction>())); } }
            "filter" => {
                let out = o["out"].as_u64().unwrap();
                let l = *out_lens.get(&out).unwrap_or(&0);
                if null_filters.contains(&o["f"].as_u64().unwrap()) { v.push(format!("CBufDup {} {}", o["inp"], out)); v.push(format!("CBufRelease {}", o["inp"])); }
                else { v.push(format!("CFilter {} {} {} {}", o["inp"], out, l, l)); }
            }
            "filter_close" => {
                let f = o["f"].as_u64().unwrap(); let out = o["out"].as_u64().unwrap();
                if !null_filters.contains(&f) { v.push(format!("CBoxDrop {}", f)); }
                let l = *out_lens.get(&out).unwrap_or(&0);
                v.push(format!("CBufNew {} {} {}", out, l, l));
            }
            "filter_drop" => { let f = o["f"].as_u64().unwrap(); if !null_filters.contains(&f) { v.push(format!("CBoxDrop {}", f)); } }
            "action_drop" => v.push(format!("CBoxDrop {}", id)),
            "request" => v.push(format!("CBoxNew {} {}", id, std::mem::size_of::<Request>())),
            "request_drop" => v.push(format!("CBoxDrop {}", id)),
            _ => {}
        }
    }
    format!("[{}]", v.join("; "))
}

pub fn run_case(id: usize, input: &Value) {
    install_logger();
    let ops: Vec<Value> = input["ops"].as_array().unwrap().clone();
    if ops.len() == 1 && ops[0]["op"] == "hostile_headers" {
        match run_hostile(&ops[0]) {
            Err(e) => {
                emit(id, "", input.clone(), &["panic".to_string(), "op:hostile_headers".to_string()], false, json!({"panic": e}));
                if e.starts_with("TIMEOUT") { use std::io::Write; let _ = std::io::stdout().flush(); std::process::exit(3); }
            }
            Ok(notes) => {
                let coq = format!("{{| k_prog := []; o_mismatch := 0; o_double_free := 0; o_leak := 0; o_same := {} |}}", cq_bool(notes.is_empty()));
                emit(id, &coq, input.clone(), &["op:hostile_headers".to_string(), format!("entry:{}", ops[0]["entry"].as_str().unwrap_or(""))], true, json!({"notes": notes}));
            }
        }
        return;
    }
    // dry run (not recorded): warms every lazily initialised global, and tells which filters are null / how long the outputs are
    let ops0 = ops.clone();
    let pre = catch(move || {
        let mut out_lens: BTreeMap<u64, usize> = BTreeMap::new();
        let mut null_filters = std::collections::BTreeSet::new();
        // replay natively to learn output lengths
        let mut actions: BTreeMap<u64, Action> = BTreeMap::new();
        let mut filters: BTreeMap<u64, Option<FilterBodyAction>> = BTreeMap::new();
        let mut lens: BTreeMap<u64, Vec<u8>> = BTreeMap::new();
        for o in &ops0 {
            let idv = o["id"].as_u64().unwrap_or(0);
            match o["op"].as_str().unwrap() {
                "buf" => { lens.insert(idv, pattern(o["len"].as_u64().unwrap() as usize, idv)); }
                "action" => { let a = native_action(&o["rules"]); let t = serde_json::to_string(&a).unwrap(); actions.insert(idv, serde_json::from_str(&t).unwrap()); }
                "action_use" => { let a = actions.get_mut(&idv).unwrap(); let code = o["code"].as_u64().unwrap() as u16; a.get_status_code(code, None);
                    let hs: Vec<Header> = o["headers"].as_array().unwrap().iter().map(|h| Header { name: h[0].as_str().unwrap().into(), value: h[1].as_str().unwrap().into() }).collect();
                    a.filter_headers(hs, code, o["add_ids"].as_bool().unwrap_or(false), None); a.should_log_request(true, code, None); }
                "filter_create" => { let a = actions.get_mut(&o["action"].as_u64().unwrap()).unwrap();
                    let hs: Vec<Header> = o["headers"].as_array().unwrap().iter().map(|h| Header { name: h[0].as_str().unwrap().into(), value: h[1].as_str().unwrap().into() }).collect();
                    let f = a.create_filter_body(o["code"].as_u64().unwrap() as u16, &hs); if f.is_none() { null_filters.insert(idv); } filters.insert(idv, f); }
                "filter" => { let inp = lens.remove(&o["inp"].as_u64().unwrap()).unwrap(); let f = filters.get_mut(&o["f"].as_u64().unwrap()).unwrap();
                    let out = match f { Some(n) => n.filter(inp, None), None => inp }; out_lens.insert(o["out"].as_u64().unwrap(), out.len()); }
                "filter_close" => { let f = filters.remove(&o["f"].as_u64().unwrap()).unwrap(); let out = match f { Some(mut n) => n.end(None), None => Vec::new() }; out_lens.insert(o["out"].as_u64().unwrap(), out.len()); }
                _ => {}
            }
        }
        (out_lens, null_filters)
    });
    let (out_lens, null_filters) = match pre { Ok(x) => x, Err(e) => { emit(id, "", input.clone(), &["panic".to_string()], false, json!({"panic": e, "phase": "native dry run"})); return; } };
    let run_once = |record: bool| -> Result<((bool, Vec<String>), alloc_audit::Audit), String> {
        let ops1 = ops.clone();
        // the recording (hence the deferral of every release) is on for the warm-up run too: a double free must never
        // reach the system allocator, whose reaction is an abort
        alloc_audit::start();
        let r = catch(move || run_program(&ops1));
        alloc_audit::stop();
        let a = if record { alloc_audit::audit() } else { alloc_audit::Audit::default() };
        r.map(|x| (x, a))
    };
    let _warm = run_once(false);
    let r1 = run_once(true);
    let r2 = run_once(true);
    let ((same, notes), a1, a2) = match (r1, r2) {
        (Ok((x, a1)), Ok((_, a2))) => (x, a1, a2),
        (Err(e), _) | (_, Err(e)) => { emit(id, "", input.clone(), &["panic".to_string()], false, json!({"panic": e})); return; }
    };
    let mismatch = a1.layout_mismatch.len() + a2.layout_mismatch.len();
    let double_free = a1.double_free + a2.double_free;
    let leak = a1.live_blocks.min(a2.live_blocks);
    let prog = abstract_program(&ops, &out_lens, &null_filters);
    let coq = format!("{{| k_prog := {}; o_mismatch := {}; o_double_free := {}; o_leak := {}; o_same := {} |}}", prog, mismatch, double_free, leak, cq_bool(same));
    let mut tags: Vec<String> = ops.iter().map(|o| format!("op:{}", o["op"].as_str().unwrap())).collect();
    if ops.iter().any(|o| o["op"] == "buf" && o["cap"].as_u64() > o["len"].as_u64() && o["len"].as_u64() > Some(0)) { tags.push("capacity>length".into()); }
    if ops.iter().any(|o| o["op"] == "buf" && o["len"].as_u64() == Some(0)) { tags.push("empty-buffer".into()); }
    if ops.iter().any(|o| o["op"] == "buf" && o["len"].as_u64() >= Some(70000)) { tags.push("large-buffer".into()); }
    if !null_filters.is_empty() { tags.push("null-filter".into()); }
    tags.sort(); tags.dedup();
    emit(id, &coq, input.clone(), &tags, a1.events > 20, json!({"notes": notes, "audit": {"events": a1.events, "overflow": a1.overflow || a2.overflow, "mismatch": a1.layout_mismatch, "double_free": double_free, "foreign_free": a1.foreign_free, "live_blocks": [a1.live_blocks, a2.live_blocks], "live_bytes": [a1.live_bytes, a2.live_bytes]}}));
}
