//! Shared helpers: one PRNG (splitmix64) from which every random choice derives, Coq term printers.
use serde_json::Value;

pub struct Rng(pub u64);

impl Rng {
    pub fn new(seed: u64) -> Self {
        Rng(seed.wrapping_mul(0x9E3779B97F4A7C15) ^ 0xD1B54A32D192ED03)
    }
    pub fn next(&mut self) -> u64 {
        self.0 = self.0.wrapping_add(0x9E3779B97F4A7C15);
        let mut z = self.0;
        z = (z ^ (z >> 30)).wrapping_mul(0xBF58476D1CE4E5B9);
        z = (z ^ (z >> 27)).wrapping_mul(0x94D049BB133111EB);
        z ^ (z >> 31)
    }
    pub fn below(&mut self, n: usize) -> usize {
        if n == 0 { 0 } else { (self.next() % (n as u64)) as usize }
    }
    pub fn chance(&mut self, num: usize, den: usize) -> bool {
        self.below(den) < num
    }
    pub fn pick<'a, T>(&mut self, xs: &'a [T]) -> &'a T {
        &xs[self.below(xs.len())]
    }
    pub fn fork(&mut self) -> Rng {
        Rng(self.next())
    }
}

/// bytes -> Coq `list N`
pub fn cq_bytes(b: &[u8]) -> String {
    let mut s = String::with_capacity(b.len() * 4 + 2);
    s.push('[');
    for (i, x) in b.iter().enumerate() {
        if i > 0 {
            s.push(';');
        }
        s.push_str(&x.to_string());
    }
    s.push(']');
    s
}
pub fn cq_str(s: &str) -> String {
    cq_bytes(s.as_bytes())
}
pub fn cq_list<T, F: Fn(&T) -> String>(xs: &[T], f: F) -> String {
    let mut s = String::from("[");
    for (i, x) in xs.iter().enumerate() {
        if i > 0 {
            s.push_str("; ");
        }
        s.push_str(&f(x));
    }
    s.push(']');
    s
}
pub fn cq_bool(b: bool) -> &'static str {
    if b { "true" } else { "false" }
}
pub fn cq_opt<T, F: Fn(&T) -> String>(x: &Option<T>, f: F) -> String {
    match x {
        None => "None".to_string(),
        Some(v) => format!("(Some {})", f(v)),
    }
}
pub fn cq_nat(n: usize) -> String {
    format!("{}%nat", n)
}

/// One line of harness output.
pub fn emit(id: usize, coq: &str, json: Value, tags: &[String], nontrivial: bool, extra: Value) {
    let line = serde_json::json!({
        "id": id, "coq": coq, "json": json, "tags": tags, "nontrivial": nontrivial, "extra": extra
    });
    println!("{}", line);
}

/// Run a closure catching panics; Err(message) on panic.
pub fn catch<T, F: FnOnce() -> T + std::panic::UnwindSafe>(f: F) -> Result<T, String> {
    match std::panic::catch_unwind(f) {
        Ok(v) => Ok(v),
        Err(e) => {
            if let Some(s) = e.downcast_ref::<&str>() {
                Err(s.to_string())
            } else if let Some(s) = e.downcast_ref::<String>() {
                Err(s.clone())
            } else {
                Err("panic".to_string())
            }
        }
    }
}
