//! C06: actions and requests through serde_json and back.
//! Input (action): {"kind":"action","rules":[Rule JSON ...],"skipped":null|str,"override":null|bool}
//! Input (request): {"kind":"request","cfg":{...flags},"url":str,"host":null|str,"scheme":null|str,"method":null|str,"ip":null|str,
//!                   "created_at":null|str,"override":null|bool,"headers":[[n,v]],"rules":[Rule JSON ...]}
use crate::common::*;
use redirectionio::action::Action;
use redirectionio::api::Rule;
use redirectionio::http::{Header, PathAndQueryWithSkipped, Request};
use redirectionio::router::{IntoRoute, Route, Router};
use redirectionio::RouterConfig;
use serde_json::{json, Value};
use std::sync::Arc;

// ---------------------------------------------------------------- JSON text -> Coq term of RIO.Json.json (member order kept)
struct P<'a> { b: &'a [u8], i: usize, nonint: bool }
impl<'a> P<'a> {
    fn ws(&mut self) { while self.i < self.b.len() && (self.b[self.i] as char).is_ascii_whitespace() { self.i += 1; } }
    fn hex4(&mut self) -> u32 { let s = std::str::from_utf8(&self.b[self.i..self.i + 4]).unwrap(); self.i += 4; u32::from_str_radix(s, 16).unwrap() }
    fn string(&mut self) -> Vec<u8> {
        assert_eq!(self.b[self.i], b'"'); self.i += 1;
        let mut out: Vec<u8> = Vec::new();
        loop {
            let c = self.b[self.i];
            if c == b'"' { self.i += 1; break; }
            if c == b'\\' {
                let e = self.b[self.i + 1]; self.i += 2;
                match e {
                    b'"' => out.push(b'"'), b'\\' => out.push(b'\\'), b'/' => out.push(b'/'), b'b' => out.push(8), b'f' => out.push(12),
                    b'n' => out.push(10), b'r' => out.push(13), b't' => out.push(9),
                    b'u' => {
                        let mut cp = self.hex4();
                        if (0xD800..0xDC00).contains(&cp) && self.b[self.i] == b'\\' && self.b[self.i + 1] == b'u' { self.i += 2; let lo = self.hex4(); cp = 0x10000 + ((cp - 0xD800) << 10) + (lo - 0xDC00); }
                        let ch = char::from_u32(cp).unwrap_or('\u{fffd}'); let mut buf = [0u8; 4]; out.extend_from_slice(ch.encode_utf8(&mut buf).as_bytes());
                    }
                    _ => panic!("bad escape"),
                }
            } else { out.push(c); self.i += 1; }
        }
        out
    }
    fn value(&mut self) -> String {
        self.ws();
        match self.b[self.i] {
            b'n' => { self.i += 4; "JNull".into() }
            b't' => { self.i += 4; "(JBool true)".into() }
            b'f' => { self.i += 5; "(JBool false)".into() }
            b'"' => { let s = self.string(); format!("(JStr {})", cq_bytes(&s)) }
            b'[' => {
                self.i += 1; let mut items = Vec::new(); self.ws();
                if self.b[self.i] == b']' { self.i += 1; return "(JArr [])".into(); }
                loop { items.push(self.value()); self.ws(); let c = self.b[self.i]; self.i += 1; if c == b']' { break; } }
                format!("(JArr [{}])", items.join("; "))
            }
            b'{' => {
                self.i += 1; let mut items = Vec::new(); self.ws();
                if self.b[self.i] == b'}' { self.i += 1; return "(JObj [])".into(); }
                loop { self.ws(); let k = self.string(); self.ws(); assert_eq!(self.b[self.i], b':'); self.i += 1; let v = self.value(); items.push(format!("({}, {})", cq_bytes(&k), v)); self.ws(); let c = self.b[self.i]; self.i += 1; if c == b'}' { break; } }
                format!("(JObj [{}])", items.join("; "))
            }
            _ => {
                let st = self.i;
                while self.i < self.b.len() && (self.b[self.i] == b'-' || self.b[self.i] == b'+' || self.b[self.i] == b'.' || self.b[self.i] == b'e' || self.b[self.i] == b'E' || self.b[self.i].is_ascii_digit()) { self.i += 1; }
                let t = std::str::from_utf8(&self.b[st..self.i]).unwrap();
                match t.parse::<u64>() { Ok(n) => format!("(JNum {})", n), Err(_) => { self.nonint = true; "JNull".into() } }
            }
        }
    }
}
pub fn json_text_to_coq(text: &str) -> (String, bool) { let mut p = P { b: text.as_bytes(), i: 0, nonint: false }; let c = p.value(); (c, p.nonint) }

// ---------------------------------------------------------------- generators
const IDS: &[&str] = &["a", "b", "ab", "b1", "z", "A", "r10", "r9", "é", "q\"uo"];
const HNAMES: &[&str] = &["X-A", "x-a", "X-B", "Location", "location"];
const CODESETS: &[&[u64]] = &[&[], &[404], &[200, 404], &[301], &[500, 200]];
const STRS: &[&str] = &["v", "", "a\"b", "back\\slash", "tab\there", "nl\nx", "\u{1}ctl", "é€😀", "</script>", "@x", "\u{7f}", "\u{2028}"];

fn opt_s(rng: &mut Rng, pool: &[&str]) -> Value { if rng.chance(1, 2) { Value::Null } else { json!(*rng.pick(pool)) } }

fn gen_rule(rng: &mut Rng, id: &str) -> Value {
    let status: Value = match rng.below(6) { 0 | 1 => Value::Null, 2 => json!(0), 3 => json!(301), 4 => json!(302), _ => json!(410) };
    let target: Value = match rng.below(5) { 0 => Value::Null, 1 => json!(""), 2 => json!("/t?x=1"), 3 => json!("/é\"x"), _ => json!(format!("/to-{}", id)) };
    let codes: Value = if rng.chance(1, 3) { Value::Null } else { json!(*rng.pick(CODESETS)) };
    let excl: Value = match rng.below(4) { 0 | 1 => Value::Null, 2 => json!(true), _ => json!(false) };
    let nhf = rng.below(3);
    let hf: Vec<Value> = (0..nhf).map(|_| json!({"action": *rng.pick(&["add", "remove", "replace", "override", "default", "bogus"]), "header": *rng.pick(HNAMES), "value": *rng.pick(STRS),
        "id": opt_s(rng, &["h1", "h2"]), "target_hash": opt_s(rng, &["th", ""])})).collect();
    let nbf = rng.below(3);
    let bf: Vec<Value> = (0..nbf).map(|_| if rng.chance(1, 2) {
        json!({"action": *rng.pick(&["append_text", "prepend_text", "replace_text"]), "content": *rng.pick(STRS), "id": opt_s(rng, &["b1", "b2"]), "target_hash": opt_s(rng, &["th"])})
    } else {
        // HTML filters, also with action strings that are text-action names, and an extra "content"-less shape
        json!({"action": *rng.pick(&["append_child", "prepend_child", "replace", "append_text", "replace_text", "bogus"]), "value": *rng.pick(&["<i>V</i>", "", "é\"<b>"]),
               "inner_value": opt_s(rng, &["iv"]), "element_tree": *rng.pick(&[&["html", "body"][..], &["html"][..], &[][..], &["html", "body", "p"][..]]),
               "css_selector": opt_s(rng, &["p", "", "em.mark"]), "id": opt_s(rng, &["b3"]), "target_hash": opt_s(rng, &["th2"])})
    }).collect();
    let log: Value = match rng.below(4) { 0 | 1 => Value::Null, 2 => json!(true), _ => json!(false) };
    let reset: Value = match rng.below(8) { 0 => json!(true), 1 => json!(false), _ => Value::Null };
    let stop: Value = match rng.below(8) { 0 => json!(true), 1 => json!(false), _ => Value::Null };
    json!({"id": id, "rank": rng.below(3), "status_code": status, "target": target,
           "source": {"path": "/x", "response_status_codes": codes, "exclude_response_status_codes": excl},
           "header_filters": if hf.is_empty() && rng.chance(1, 2) { Value::Null } else { json!(hf) },
           "body_filters": if bf.is_empty() && rng.chance(1, 2) { Value::Null } else { json!(bf) },
           "log_override": log, "reset": reset, "stop": stop,
           "redirect_unit_id": opt_s(rng, &["u1"]), "configuration_log_unit_id": opt_s(rng, &["u2"]), "configuration_reset_unit_id": opt_s(rng, &["u3"]), "target_hash": opt_s(rng, &["rth"])})
}

fn gen_trigger_rule(rng: &mut Rng, id: &str) -> Value {
    let host: Value = match rng.below(6) { 0 => json!("example.org"), 1 => json!("Example.ORG"), _ => Value::Null };
    let methods: Value = match rng.below(6) { 0 => json!(["GET"]), 1 => json!(["POST", "PUT"]), _ => Value::Null };
    let headers: Value = match rng.below(9) {
        0 => json!([{"type": "is_defined", "name": "X-A", "value": null}]),
        1 => json!([{"type": "is_equals", "name": "x-a", "value": "v1"}]),
        2 => json!([{"type": "contains", "name": "X-B", "value": "é"}]),
        _ => Value::Null };
    let ips: Value = match rng.below(9) { 0 => json!([{"in_range": "10.0.0.0/8"}]), 1 => json!([{"not_in_range": "192.168.1.0/24"}]), 2 => json!([{"in_range": "2001:db8::/32"}]), _ => Value::Null };
    let datetime: Value = match rng.below(8) { 0 => json!([["2020-01-01T00:00:00Z", "2024-06-01T12:00:00Z"]]), 1 => json!([["2024-06-01T12:00:00Z", null]]), 2 => json!([["2024-06-01T11:59:59.5Z", null]]), 3 => json!([[null, "2021-03-04T03:06:07.25Z"]]), _ => Value::Null };
    let path = *rng.pick(&["/x", "/x", "/x", "/x?a=1&b=2", "/X", "/y z"]);
    json!({"id": id, "rank": rng.below(3), "status_code": 301, "target": "/t",
           "source": {"path": path, "host": host, "scheme": match rng.below(8) { 0 => json!("https"), 1 => json!("http"), _ => Value::Null },
                      "methods": methods, "exclude_methods": if rng.chance(1, 4) { json!(true) } else { Value::Null }, "headers": headers, "ips": ips, "datetime": datetime}})
}

pub fn generate(seed: u64, thorough: bool) -> Vec<Value> {
    let mut out = Vec::new();
    let mut rng = Rng::new(seed ^ 0x06);
    let n = if thorough { 6000 } else { 500 };
    for _ in 0..n {
        let k = 1 + rng.below(5);
        let mut ids: Vec<&str> = IDS.to_vec();
        let mut rules = Vec::new();
        for _ in 0..k { let i = rng.below(ids.len()); let id = ids.remove(i); rules.push(gen_rule(&mut rng, id)); }
        out.push(json!({"kind": "action", "rules": rules, "applied_code": match rng.below(4) { 0 => json!(0), 1 => json!(404), 2 => json!(200), _ => Value::Null }, "skipped": if rng.chance(1, 4) { json!("utm_source=x&é=\"") } else { Value::Null },
                        "override": match rng.below(5) { 0 => json!(true), 1 => json!(false), _ => Value::Null }}));
    }
    let m = if thorough { 4000 } else { 300 };
    for _ in 0..m {
        let k = 3 + rng.below(8);
        let rules: Vec<Value> = (0..k).map(|i| gen_trigger_rule(&mut rng, &format!("t{}", i))).collect();
        let nh = rng.below(3);
        let headers: Vec<Value> = (0..nh).map(|_| json!([*rng.pick(&["X-A", "x-a", "X-B"]), *rng.pick(&["v1", "V1", "xéy", "", "a\"b\\"])])).collect();
        out.push(json!({"kind": "request",
            "cfg": {"ignore_host_case": rng.chance(1, 2), "ignore_header_case": rng.chance(1, 2), "ignore_path_and_query_case": rng.chance(1, 2), "ignore_marketing_query_params": rng.chance(1, 2),
                    "marketing_query_params": ["utm_source", "gclid"], "pass_marketing_query_params_to_target": rng.chance(1, 2), "always_match_any_host": rng.chance(1, 2)},
            "url": *rng.pick(&["/x", "/x", "/x", "/x", "/x?b=2&a=1", "/X", "/x?a=1&utm_source=q&b=2", "/y z", "/x?é=\"1\"", "/%7Ex?a=%20", "no-slash`"]),
            "host": match rng.below(4) { 0 => json!("example.org"), 1 => json!("EXAMPLE.org"), 2 => json!("é.example"), _ => Value::Null },
            "scheme": match rng.below(3) { 0 => json!("https"), 1 => json!("http"), _ => Value::Null },
            "method": match rng.below(4) { 0 => json!("GET"), 1 => json!("POST"), 2 => json!("get"), _ => Value::Null },
            "ip": match rng.below(6) { 0 => json!("10.1.2.3"), 1 => json!("192.168.1.7"), 2 => json!("2001:db8::1"), 3 => json!("::ffff:10.0.0.1"), 4 => json!("::1"), _ => Value::Null },
            "created_at": match rng.below(6) { 0 => json!("2024-06-01T12:00:00Z"), 1 => json!("2024-06-01T11:59:59.999999999Z"), 2 => json!("2021-03-04T05:06:07.5+02:00"), 3 => json!("1969-12-31T23:59:59Z"), 4 => json!("now"), _ => Value::Null },
            "override": match rng.below(3) { 0 => json!(true), 1 => json!(false), _ => Value::Null },
            "headers": headers, "rules": rules}));
    }
    out
}

// ---------------------------------------------------------------- observations
fn obs_action(a: &Action) -> Value {
    let panels: Vec<Vec<Header>> = vec![
        vec![],
        vec![Header { name: "X-A".into(), value: "h0".into() }, Header { name: "x-a".into(), value: "h1".into() }, Header { name: "Location".into(), value: "/old".into() }, Header { name: "Content-Type".into(), value: "text/html".into() }],
    ];
    let bodies: Vec<&[u8]> = vec![b"<html><head></head><body><p>x</p><em class=\"mark\">m</em></body></html>", b"", b"plain \xff text"];
    let mut out = Vec::new();
    out.push(json!(["applied-at-hand-over", a.get_applied_rule_ids().iter().cloned().collect::<Vec<String>>()]));
    for code in [0u16, 200, 301, 404, 500, 503] {
        for hs in &panels {
            for add_ids in [false, true] {
                let mut a2 = a.clone();
                let status = a2.get_status_code(code, None);
                let fh = a2.filter_headers(hs.clone(), code, add_ids, None);
                let mut bodies_out = Vec::new();
                for b in &bodies {
                    let mut o: Vec<u8> = Vec::new();
                    match a2.create_filter_body(code, &fh) {
                        None => o.extend_from_slice(b),
                        Some(mut f) => { let mid = b.len() / 2; o.extend(f.filter(b[..mid].to_vec(), None)); o.extend(f.filter(b[mid..].to_vec(), None)); o.extend(f.end(None)); }
                    }
                    bodies_out.push(o);
                }
                let log_t = a2.should_log_request(true, code, None);
                let log_f = a2.should_log_request(false, code, None);
                let applied: Vec<String> = a2.get_applied_rule_ids().iter().cloned().collect();
                out.push(json!([code, status, fh.iter().map(|h| json!([h.name, h.value])).collect::<Vec<_>>(), bodies_out, log_t, log_f, applied]));
            }
        }
    }
    json!(out)
}

fn cfg_of(c: &Value) -> RouterConfig { serde_json::from_value(c.clone()).expect("router config") }

pub fn run_case(id: usize, input: &Value) {
    let inp = input.clone();
    let is_request = input["kind"] == "request";
    let res = catch(move || {
        if !is_request {
            let mut request = Request::new(PathAndQueryWithSkipped::from_static("/x"), "/x".to_string(), None, None, None, None, inp["override"].as_bool());
            request.path_and_query_skipped.skipped_query_params = inp["skipped"].as_str().map(|s| s.to_string());
            let config = RouterConfig::default();
            let routes: Vec<Arc<Route<Rule>>> = inp["rules"].as_array().unwrap().iter().map(|r| { let rule: Rule = serde_json::from_value(r.clone()).expect("rule json"); Arc::new(rule.into_route(&config)) }).collect();
            let mut action = Action::from_routes_rule(routes, &request, None);
            // half of the actions are handed over AFTER the proxy applied them for a response code (rules_applied filled)
            if let Some(code) = inp["applied_code"].as_u64() {
                let code = code as u16;
                action.get_status_code(code, None);
                let hs = action.filter_headers(vec![Header { name: "X-A".into(), value: "0".into() }], code, true, None);
                let _ = action.create_filter_body(code, &hs);
                action.should_log_request(true, code, None);
            }
            let text = serde_json::to_string(&action).unwrap();
            let back: Result<Action, _> = serde_json::from_str(&text);
            match back {
                Err(e) => (text, false, false, false, json!({"de_error": e.to_string()})),
                Ok(a2) => {
                    let text2 = serde_json::to_string(&a2).unwrap();
                    let (o1, o2) = (obs_action(&action), obs_action(&a2));
                    // the pretty form and the Value form must agree too (other entry points used by the proxies)
                    let via_value: Result<Action, _> = serde_json::from_value(serde_json::to_value(&action).unwrap());
                    let text3 = via_value.map(|a| serde_json::to_string(&a).unwrap()).unwrap_or_default();
                    (text.clone(), true, text2 == text && text3 == text, o1 == o2, json!({"text2": if text2 == text { Value::Null } else { json!(text2) }}))
                }
            }
        } else {
            let cfg = cfg_of(&inp["cfg"]);
            let mut q = Request::from_config(&cfg, inp["url"].as_str().unwrap().to_string(), inp["host"].as_str().map(|s| s.to_string()), inp["scheme"].as_str().map(|s| s.to_string()),
                inp["method"].as_str().map(|s| s.to_string()), inp["ip"].as_str().and_then(|s| s.parse().ok()), inp["override"].as_bool());
            for h in inp["headers"].as_array().unwrap() { q.add_header(h[0].as_str().unwrap().to_string(), h[1].as_str().unwrap().to_string(), cfg.ignore_header_case); }
            match inp["created_at"].as_str() { Some("now") => {}, Some(s) => q.set_created_at(Some(s.to_string())), None => { q.created_at = None; } }
            let mut router = Router::<Rule>::from_config(cfg.clone());
            for r in inp["rules"].as_array().unwrap() { let rule: Rule = serde_json::from_value(r.clone()).expect("rule json"); router.insert(rule); }
            let text = serde_json::to_string(&q).unwrap();
            let back: Result<Request, _> = serde_json::from_str(&text);
            match back {
                Err(e) => (text, false, false, false, json!({"de_error": e.to_string()})),
                Ok(q2) => {
                    let text2 = serde_json::to_string(&q2).unwrap();
                    let ids = |r: &Request| { let rb = router.rebuild_request(r); let mut v: Vec<String> = router.match_request(&rb).iter().map(|x| x.id().to_string()).collect(); v.sort(); v };
                    let ids_raw = |r: &Request| { let mut v: Vec<String> = router.match_request(r).iter().map(|x| x.id().to_string()).collect(); v.sort(); v };
                    let (m1, m2) = (ids(&q), ids(&q2));
                    let same = m1 == m2 && ids_raw(&q) == ids_raw(&q2);
                    (text.clone(), true, text2 == text, same, json!({"matched": m1, "matched_after": m2}))
                }
            }
        }
    });
    let (text, de_ok, reser_same, obs_same, extra) = match res {
        Ok(x) => x,
        Err(e) => { emit(id, "", input.clone(), &["panic".to_string()], false, json!({"panic": e})); return; }
    };
    let (cj, nonint) = json_text_to_coq(&text);
    let coq = format!("{{| k_is_request := {}; k_json := {}; o_de_ok := {}; o_reser_same := {}; o_obs_same := {} |}}", cq_bool(is_request), cj, cq_bool(de_ok), cq_bool(reser_same), cq_bool(obs_same));
    let mut tags: Vec<String> = vec![format!("kind:{}", input["kind"].as_str().unwrap())];
    if nonint { tags.push("non-integer-number".into()); }
    if !is_request {
        for (needle, tag) in [("\"status_code_update\":{", "has-status-update"), ("\"log_override\":{", "has-log-override"), ("\"element_tree\"", "has-html-filter"), ("\"content\"", "has-text-filter"),
                              ("\"header_filters\":[{", "has-header-filter"), ("\\\"", "escaped-quote"), ("\\u", "unicode-escape"), ("\"fallback_rule_id\":\"", "has-fallback"), ("\"rule_traces\":[{", "has-traces")] {
            if text.contains(needle) { tags.push(tag.into()); }
        }
        if input["rules"].as_array().unwrap().iter().any(|r| r["body_filters"].as_array().map(|a| a.iter().any(|f| f.get("element_tree").is_some() && f["action"].as_str().map(|s| s.ends_with("_text")).unwrap_or(false))).unwrap_or(false)) { tags.push("html-filter-with-text-action-name".into()); }
    } else {
        for k in ["host", "scheme", "method", "ip", "created_at", "override"] { if !input[k].is_null() { tags.push(format!("req:{}", k)); } }
        if let Some(m) = extra["matched"].as_array() { tags.push(format!("matched:{}", m.len().min(3))); }
    }
    let nontrivial = if is_request { extra["matched"].as_array().map(|m| !m.is_empty()).unwrap_or(false) } else { text.len() > 200 };
    emit(id, &coq, input.clone(), &tags, nontrivial, json!({"text": text, "more": extra}));
}
