//! C10: markers capture the matching text and are substituted into targets and filters.
//! One rule (path / query / host / header templates with markers, typed marker expressions, transformer chains,
//! optional variables, target, header filters, body filters), one request built by instantiating every marker.
//! Input:
//!  {"stream":"unamb|amb|witness", "cfg":{"ihc","ihdc","ipqc":bool},
//!   "rule":{"path":str,"query":null|str,"host":null|str,"headers":[{"name","type","value"}],
//!           "markers":[{"name","regex","transformers":[{"type":null|str,"options":null|{..}}]}],
//!           "variables":[{"name","type":<VariableKind json>,"transformers":[..]}],
//!           "target":null|str,"header_filters":[{"action","header","value"}],
//!           "body_filters":[{"action","content"} | {"action","value","inner_value","element_tree","css_selector"}]},
//!   "request":{"url":str,"host":null|str,"scheme":null|str,"method":null|str,"headers":[[n,v]],"remote":null|str},
//!   "expect":{"match":bool,"panic":bool,"captured":[[n,v]],"variables":[[n,v]],"location":null|str,"target":null|str,
//!             "hvalues":[str],"bvalues":[["text",c] | ["html",v,null|i]],"parse":[[template,text]]},
//!   "how":{...free text for readers...}}
//! The "expect" object is written by the GENERATOR from the way it built the case (its own transformer and
//! longest-name substitution code), or, for stream "witness", is the recorded behaviour of the crate on an input
//! outside the stated domain; run_case never computes it.
use crate::common::*;
use redirectionio::action::Action;
use redirectionio::api::{Rule, Transformer, Variable};
use redirectionio::http::{Header, Request};
use redirectionio::marker::StaticOrDynamic;
use redirectionio::router::{IntoRoute, RouteHeaderKind, Router};
use redirectionio::RouterConfig;
use serde_json::{json, Value};
use std::collections::{BTreeMap, HashMap, HashSet};

// ------------------------------------------------------------------------------------------- vocabulary
/// first characters of the literals that follow a marker in the unambiguous stream; no marker alphabet (except
/// "anything") and no instantiation (except of "anything") contains one of them
const SEPCHARS: &str = "/._~:,;!&";

/// one instantiation: the text put into the request, the text the sanitised path carries for it, and whether
/// the marker expression accepts it in the path (sanitised) / elsewhere (raw)
#[derive(Clone, Copy)]
struct V { raw: &'static str, path: &'static str, ok_path: bool, ok_raw: bool }
const fn a(s: &'static str) -> V { V { raw: s, path: s, ok_path: true, ok_raw: true } }
const fn r(s: &'static str) -> V { V { raw: s, path: s, ok_path: false, ok_raw: false } }
const fn x(raw: &'static str, path: &'static str, ok_path: bool, ok_raw: bool) -> V { V { raw, path, ok_path, ok_raw } }

struct Kind { tag: &'static str, regexes: &'static [&'static str], vals: &'static [V], any: bool, simple: bool }

const UUID_RE: &str = "[a-fA-F0-9]{8}-[a-fA-F0-9]{4}-[a-fA-F0-9]{4}-[a-fA-F0-9]{4}-[a-fA-F0-9]{12}";
const DATE_RE: &str = "([0-9]+)-(0[1-9]|1[012])-(0[1-9]|[12][0-9]|3[01])";
const KINDS: &[Kind] = &[
    Kind { tag: "integer", regexes: &["[0-9]+", "([0-9]+)"], any: false, simple: true,
           vals: &[a("0"), a("7"), a("42"), a("007"), a("2024"), r(""), r("4x"), r("x"), r("-1"), x("4 2", "4%202", false, false)] },
    Kind { tag: "integer-range", regexes: &["([0-9]|[1-3][0-9]|4[0-2])"], any: false, simple: true,
           vals: &[a("0"), a("9"), a("17"), a("42"), r("43"), r("100"), r(""), r("4x"), r("007")] },
    Kind { tag: "lowercase", regexes: &["([\\p{Ll}])+?"], any: false, simple: true,
           vals: &[a("x"), a("abc"), a("hello"), r(""), r("Abc"), r("ab1"), r("ABC"), x("\u{e9}t\u{e9}", "%C3%A9t%C3%A9", false, true)] },
    Kind { tag: "lowercase-ascii", regexes: &["[a-z]+"], any: false, simple: true,
           vals: &[a("x"), a("abc"), a("hello"), r(""), r("Abc"), r("ab1"), r("ABC"), x("\u{e9}t\u{e9}", "%C3%A9t%C3%A9", false, false)] },
    Kind { tag: "lowercase-dash", regexes: &["([\\p{Ll}]|\\-)+?"], any: false, simple: false,
           vals: &[a("a-b"), a("foo-bar"), a("x"), a("--"), r(""), r("a+b"), r("A-b"), r("a-1")] },
    Kind { tag: "alphanumeric", regexes: &["([\\p{Ll}\\p{Lu}\\p{Lt}0-9])+?"], any: false, simple: true,
           vals: &[a("Abc1"), a("x9"), a("FooBar"), a("XMLHttp"), a("a1b2"), r(""), r("a-b"), x("a b", "a%20b", false, false)] },
    Kind { tag: "enum", regexes: &["(cat|dog|fish)", "(?:cat|dog|fish)"], any: false, simple: true,
           vals: &[a("cat"), a("dog"), a("fish"), r(""), r("ca"), r("catdog"), r("Cat"), r("bird")] },
    Kind { tag: "uuid", regexes: &[UUID_RE], any: false, simple: false,
           vals: &[a("123e4567-e89b-12d3-a456-426614174000"), a("ABCDEF01-2345-6789-abcd-ef0123456789"),
                   r("123e4567-e89b-12d3-a456-42661417400"), r("g23e4567-e89b-12d3-a456-426614174000"), r(""), r("123e4567e89b12d3a456426614174000")] },
    Kind { tag: "date", regexes: &[DATE_RE], any: false, simple: false,
           vals: &[a("2024-01-31"), a("1999-12-01"), a("5-10-30"), r("2024-13-01"), r("2024-1-31"), r("2024-01-32"), r(""), r("2024-01-31x")] },
    Kind { tag: "percent-encoded", regexes: &["([\\p{Ll}0-9]|%[0-9A-Z]{2})+?"], any: false, simple: false,
           vals: &[a("abc1"), x("caf\u{e9}", "caf%C3%A9", true, true), a("a%20b"), x("a b", "a%20b", true, false), r(""), r("A"), r("%zz"), r("a-b")] },
    Kind { tag: "anything-star", regexes: &[".*"], any: true, simple: false,
           vals: &[a("x"), a(""), a("a-b"), a("A/b.c"), x("\u{e9} t", "%C3%A9%20t", true, true), a("12"), a("Foo_Bar"), a("@id"), a("u@ab"), a("@a@b")] },
    Kind { tag: "anything-lazy", regexes: &["(?:.+?)", ".+?"], any: true, simple: false,
           vals: &[a("x"), a("a-b"), a("A/b.c"), x("\u{e9} t", "%C3%A9%20t", true, true), a("12"), a("foo-bar_Baz"), a("@id2"), a("@n"), r("")] },
    // a non-ASCII expression: Rule::markers percent-encodes it, so it accepts the ENCODED text (the sanitised path, or a
    // header value that literally carries %C3%A9), never the raw character
    Kind { tag: "enum-non-ascii", regexes: &["(caf\u{e9}|th\u{e9}|x)"], any: false, simple: false,
           vals: &[x("caf\u{e9}", "caf%C3%A9", true, false), a("caf%C3%A9"), a("x"), x("th\u{e9}", "th%C3%A9", true, false), r(""), r("cafe"), x("th\u{e8}", "th%C3%A8", false, false)] },
];

/// marker / variable names: many are prefixes of others
const NAMES: &[&str] = &["a", "ab", "abc", "b", "id", "id2", "idx", "i", "n", "name", "x", "y", "year", "ye"];
/// literal text before a marker in the path (every piece starts with '/'); regex meta characters, characters the
/// sanitiser encodes, a literal '@'
const PATH_PRE: &[&str] = &["/", "/", "/p-", "/item/", "/x.", "/(", "/a+b/", "/caf\u{e9}/", "/a b/", "/$", "/[v]", "/{k}/", "/^", "/a|b/", "/*", "/50%/", "/@/", "/v1/", "/q\\"];
/// literal text after the last marker of the path (empty or starting with a separator character)
const PATH_SUF: &[&str] = &["", "", "/", ".html", "/end", "_v2", "~", ":x", ",y", ";z", "!", "/(1)"];
const HOST_TPL: &[(&str, usize)] = &[("@0.example.com", 1), ("www.@0.org", 1), ("@0.@1.net", 2), ("shop-@0.example.com", 1), ("@0.example.com:8080", 1)];
const HDR_NAMES: &[&str] = &["X-Id", "X-Geo", "User-Agent", "x-token"];
const HDR_PRE: &[&str] = &["id=", "v=", "k=t="];
const HDR_SUF: &[&str] = &[";", ";q=1", "/x", ".v"];
/// literal pieces of targets and filter values between references
const TGT_LIT: &[&str] = &["/", "/t/", "-", ".", "?q=", "&r=", "/x", "_", "%20", "\u{e9}", "=", ":", "/@/", "b", "2", "x", "d", "+"];

fn chars_in(s: &str, set: &str) -> bool { s.chars().any(|c| set.contains(c)) }

// ------------------------------------------------------------------------------------------- the generator's own reference code
/// heck's word splitting (heck 0.5 src/lib.rs `transform`) for ASCII input
fn heck_words(s: &str) -> Vec<String> {
    let mut words = Vec::new();
    for word in s.split(|c: char| !c.is_ascii_alphanumeric()) {
        let cs: Vec<char> = word.chars().collect();
        let mut init = 0;
        // 0 boundary, 1 lowercase, 2 uppercase
        let mut mode = 0;
        let mut i = 0;
        while i < cs.len() {
            let c = cs[i];
            if i + 1 < cs.len() {
                let next = cs[i + 1];
                let next_mode = if c.is_ascii_lowercase() { 1 } else if c.is_ascii_uppercase() { 2 } else { mode };
                if next_mode == 1 && next.is_ascii_uppercase() {
                    words.push(cs[init..i + 1].iter().collect()); init = i + 1; mode = 0;
                } else if mode == 2 && c.is_ascii_uppercase() && next.is_ascii_lowercase() {
                    words.push(cs[init..i].iter().collect()); init = i; mode = 0;
                } else { mode = next_mode; }
            } else {
                words.push(cs[init..].iter().collect::<String>());
            }
            i += 1;
        }
    }
    words.into_iter().filter(|w: &String| !w.is_empty()).collect()
}
fn capitalize(w: &str) -> String {
    let mut cs = w.chars();
    match cs.next() { None => String::new(), Some(f) => f.to_ascii_uppercase().to_string() + &cs.as_str().to_ascii_lowercase() }
}
fn ref_heck(kind: &str, s: &str) -> String {
    let ws = heck_words(s);
    match kind {
        "camelize" => ws.iter().enumerate().map(|(i, w)| if i == 0 { w.to_ascii_lowercase() } else { capitalize(w) }).collect::<Vec<_>>().join(""),
        "dasherize" => ws.iter().map(|w| w.to_ascii_lowercase()).collect::<Vec<_>>().join("-"),
        _ => ws.iter().map(|w| w.to_ascii_lowercase()).collect::<Vec<_>>().join("_"),
    }
}
/// usize::from_str as the generator understands it
fn ref_usize(s: &str) -> Option<u64> {
    let d = s.strip_prefix('+').unwrap_or(s);
    if d.is_empty() || !d.bytes().all(|c| c.is_ascii_digit()) { return None; }
    d.parse::<u64>().ok()
}
/// one transformer of the rule JSON applied to a value: Ok(new value) | Err(()) when the slice would panic
fn ref_transform(t: &Value, v: &str) -> Result<String, ()> {
    let kind = match t["type"].as_str() { Some(k) => k, None => return Ok(v.to_string()) };
    let opt = |k: &str| t["options"].get(k).and_then(|x| x.as_str());
    match kind {
        "lowercase" => Ok(v.to_lowercase()),
        "uppercase" => Ok(v.to_uppercase()),
        "camelize" | "dasherize" | "underscorize" => Ok(ref_heck(kind, v)),
        "replace" => match (opt("something"), opt("with")) { (Some(s), Some(w)) => Ok(v.replace(s, w)), _ => Ok(v.to_string()) },
        "slice" => match (opt("from"), opt("to")) {
            (Some(f), Some(t)) => {
                let len = v.len() as u64;
                let from = ref_usize(f).unwrap_or(0);
                let to = ref_usize(t).unwrap_or(len);
                if from > len { return Ok(String::new()); }
                let to = to.min(len);
                // str.get(from..to).unwrap_or_default() since db79cd0 (the pinned str[from..to] panicked here)
                if from > to || !v.is_char_boundary(from as usize) || !v.is_char_boundary(to as usize) { return Ok(String::new()); }
                Ok(String::from_utf8(v.as_bytes()[from as usize..to as usize].to_vec()).unwrap())
            }
            _ => Ok(v.to_string()),
        },
        _ => Ok(v.to_string()),
    }
}
fn ref_chain(ts: &Value, v: &str) -> Result<String, ()> {
    let mut cur = v.to_string();
    if let Some(arr) = ts.as_array() { for t in arr { cur = ref_transform(t, &cur)?; } }
    Ok(cur)
}
/// the reference substitution: scanning left to right, at each '@' the LONGEST variable name that follows is
/// replaced by its value (the first of the list among equal names); values are not rescanned
fn ref_subst(vars: &[(String, String)], text: &str) -> String {
    let b = text.as_bytes();
    let mut out: Vec<u8> = Vec::new();
    let mut i = 0;
    while i < b.len() {
        if b[i] == b'@' {
            let mut best: Option<&(String, String)> = None;
            for nv in vars {
                if b[i + 1..].starts_with(nv.0.as_bytes()) && best.map(|x| nv.0.len() > x.0.len()).unwrap_or(true) { best = Some(nv); }
            }
            if let Some(nv) = best { out.extend(nv.1.as_bytes()); i += 1 + nv.0.len(); continue; }
        }
        out.push(b[i]);
        i += 1;
    }
    String::from_utf8(out).unwrap()
}
/// the PINNED algorithm (before df98c41): one str::replace per variable, longest names first (stable); only for the tag
/// that counts the cases on which the repair matters
fn pinned_subst(vars: &[(String, String)], text: &str) -> String {
    let mut v = vars.to_vec();
    v.sort_by(|a, b| b.0.len().cmp(&a.0.len()));
    let mut cur = text.to_string();
    for nv in &v { cur = cur.replace(&format!("@{}", nv.0), &nv.1); }
    cur
}
/// how many names follow some '@' of the text (max over the '@'s)
fn max_names_at(vars: &[(String, String)], text: &str) -> usize {
    let b = text.as_bytes();
    (0..b.len()).filter(|i| b[*i] == b'@').map(|i| {
        let mut ns: Vec<&str> = vars.iter().filter(|nv| b[i + 1..].starts_with(nv.0.as_bytes())).map(|nv| nv.0.as_str()).collect();
        ns.sort(); ns.dedup(); ns.len()
    }).max().unwrap_or(0)
}
/// the side condition of C10_substitute: names and values free of '@'; no name strictly extends the text between
/// two consecutive '@'
fn subst_safe(vars: &[(String, String)], text: &str) -> bool {
    if vars.iter().any(|nv| nv.0.contains('@') || nv.1.contains('@')) { return false; }
    let chunks: Vec<&str> = text.split('@').collect();
    for (k, u) in chunks.iter().enumerate() {
        if k == 0 || k + 1 == chunks.len() { continue; }
        if vars.iter().any(|nv| nv.0.len() > u.len() && nv.0.starts_with(u)) { return false; }
    }
    true
}

// ------------------------------------------------------------------------------------------- generator
struct MarkerPlan { name: String, kind: usize, regex: String, val: V, place: &'static str, transformers: Value }

fn gen_transformers(rng: &mut Rng, sample: &str) -> Value {
    let n = match rng.below(10) { 0..=4 => 0, 5..=7 => 1, 8 => 2, _ => 3 };
    let mut ts: Vec<Value> = Vec::new();
    let mut cur = sample.to_string();
    let mut tries = 0;
    while ts.len() < n && tries < 30 {
        tries += 1;
        let len = cur.len();
        let t = match rng.below(12) {
            0 => json!({"type": "lowercase", "options": null}),
            1 => json!({"type": "uppercase", "options": null}),
            2 if cur.is_ascii() => json!({"type": "camelize", "options": null}),
            3 if cur.is_ascii() => json!({"type": "dasherize", "options": {}}),
            4 if cur.is_ascii() => json!({"type": "underscorize", "options": null}),
            5 | 6 => {
                let something = match rng.below(6) {
                    0 => String::new(),
                    1 => "-".to_string(),
                    2 if !cur.is_empty() => { let cs: Vec<char> = cur.chars().collect(); let i = rng.below(cs.len()); let j = (i + 1 + rng.below(2)).min(cs.len()); cs[i..j].iter().collect() }
                    3 => "a".to_string(),
                    4 => "%".to_string(),
                    _ => "zz".to_string(),
                };
                let with = *rng.pick(&["", "X", "\u{e9}", "--", "/", "a", "aa", "%20", "@id", "@a"]);
                json!({"type": "replace", "options": {"something": something, "with": with}})
            }
            7 | 8 | 9 => {
                let around = |rng: &mut Rng| -> String {
                    match rng.below(12) {
                        0 => "0".into(), 1 => "1".into(), 2 => "2".into(), 3 => format!("{}", len.saturating_sub(1)), 4 => format!("{}", len),
                        5 => format!("{}", len + 1), 6 => "99".into(), 7 => "+1".into(), 8 => "".into(), 9 => "x".into(), 10 => "-1".into(),
                        _ => "18446744073709551616".into(),
                    }
                };
                let (f, t) = (around(rng), around(rng));
                match rng.below(8) {
                    0 => json!({"type": "slice", "options": {"from": f}}),        // no "to": the transformer is ignored
                    1 => json!({"type": "slice", "options": null}),
                    _ => json!({"type": "slice", "options": {"from": f, "to": t}}),
                }
            }
            10 => json!({"type": *rng.pick(&["reverse", "Lowercase", ""]), "options": null}),
            _ => match rng.below(3) { 0 => json!({"type": null, "options": null}), 1 => json!({"type": "replace", "options": {"something": "a"}}), _ => json!({"type": "replace", "options": null}) },
        };
        // (before db79cd0 a slice with from > to or a bound inside a character panicked and such chains were skipped here)
        match ref_transform(&t, &cur) { Ok(nv) => { cur = nv; ts.push(t); } Err(()) => {} }
    }
    json!(ts)
}

/// values that a case-insensitive match accepts although the expression as written rejects them
const CI_FLIP: &[(&str, &str)] = &[("lowercase", "Abc"), ("lowercase", "ABC"), ("lowercase-ascii", "Abc"), ("lowercase-ascii", "ABC"),
    ("lowercase-dash", "A-b"), ("enum", "Cat"), ("percent-encoded", "A"), ("percent-encoded", "%zz")];
/// is the instantiation accepted where it stands? `ci`: the template is matched case-insensitively
/// (ignore_path_and_query_case for path and query, ignore_host_case for the host)
fn accepted(kind: &Kind, v: &V, place: &str, ci: bool) -> bool {
    let base = if place == "path" || place == "query" { v.ok_path } else { v.ok_raw };
    base || (ci && CI_FLIP.iter().any(|(k, r)| *k == kind.tag && *r == v.raw))
}
fn pick_val(rng: &mut Rng, kind: &Kind, want_ok: bool, place: &str, avoid: &str, ci: bool) -> Option<V> {
    let cands: Vec<V> = kind.vals.iter().cloned().filter(|v| {
        accepted(kind, v, place, ci) == want_ok && !chars_in(v.raw, avoid)
            && (place != "host" || (v.raw.is_ascii() && !v.raw.contains(' ') && !v.raw.contains('%')))
            && (place != "query" || v.raw.chars().all(|c| c.is_ascii_alphanumeric()))
    }).collect();
    if cands.is_empty() { None } else { Some(cands[rng.below(cands.len())]) }
}

fn gen_text(rng: &mut Rng, vars: &[(String, String)], lead: &str) -> String {
    // since df98c41 the substitution is one pass: texts outside the side condition of C10_substitute (a strict prefix
    // of a name between two '@', references glued to each other) are in the domain and generated freely
    {
        let nrefs = 1 + rng.below(3);
        let mut t = lead.to_string();
        for k in 0..nrefs {
            if k > 0 || lead.is_empty() { if !(rng.chance(1, 6)) { t.push_str(*rng.pick(TGT_LIT)); } }
            match rng.below(12) {
                0 => t.push_str("@zz"),                                       // not a variable
                1 if !vars.is_empty() => {                                    // a name cut short / extended by a letter
                    let n = &vars[rng.below(vars.len())].0; t.push('@'); t.push_str(n); t.push_str(*rng.pick(&["b", "2", "x", "c"]));
                }
                _ if !vars.is_empty() => { t.push('@'); t.push_str(&vars[rng.below(vars.len())].0); }
                _ => t.push_str("@zz"),
            }
        }
        if rng.chance(1, 2) { t.push_str(*rng.pick(&["", "/", ".html", "?a=1", "-end", "@", "b"])); }
        t
    }
}

fn gen_case(rng: &mut Rng, stream: &str) -> Option<Value> {
    let unamb = stream == "unamb";
    // ignore-case flags only in the unambiguous stream (the valid-parse check of the other stream is case-sensitive)
    let ipqc = unamb && rng.chance(1, 8);
    let ihc = unamb && rng.chance(1, 8);
    let ci_of = |place: &str| (ipqc && (place == "path" || place == "query")) || (ihc && place == "host");
    let nm = if unamb { 1 + rng.below(4) } else { 2 + rng.below(3) };
    let mut pool: Vec<&str> = NAMES.to_vec();
    // prefer name sets that share prefixes
    let mut names: Vec<String> = Vec::new();
    while names.len() < nm {
        let i = if !names.is_empty() && rng.chance(2, 3) {
            let cands: Vec<usize> = (0..pool.len()).filter(|i| names.iter().any(|n| pool[*i].starts_with(n.as_str()) || n.starts_with(pool[*i]))).collect();
            if cands.is_empty() { rng.below(pool.len()) } else { cands[rng.below(cands.len())] }
        } else { rng.below(pool.len()) };
        names.push(pool.remove(i).to_string());
    }
    // is some instantiation rejected? (unamb only)
    let reject_at: Option<usize> = if unamb && rng.chance(1, 4) { Some(rng.below(nm)) } else { None };
    // places
    let mut plans: Vec<MarkerPlan> = Vec::new();
    let mut any_used_in_path = false;
    let mut has_query_marker = false;
    for (i, name) in names.iter().enumerate() {
        let place = match rng.below(10) { 0..=5 => "path", 6 => "query", 7 => "host", _ => "header" };
        // ambiguity needs several markers in ONE template
        let place = if !unamb && rng.chance(3, 4) { "path" } else { place };
        let place = if i == 0 && nm > 1 && place != "path" && rng.chance(1, 2) { "path" } else { place };
        let place = if place == "query" && has_query_marker { "path" } else { place };
        let mut tries = 0;
        loop {
            tries += 1;
            if tries > 60 { return None; }
            // the ambiguous stream prefers expressions whose languages overlap with the separators it uses
            let ki = if !unamb && rng.chance(4, 5) { *rng.pick(&[0usize, 3, 4, 4, 5, 5, 10, 11]) } else { rng.below(KINDS.len()) };
            let kind = &KINDS[ki];
            if place == "query" && !kind.simple { continue; }
            if place == "host" && (kind.any && unamb || kind.tag == "percent-encoded" || kind.tag == "uuid") { continue; }
            if unamb && kind.any && place == "path" && any_used_in_path { continue; }
            let want_ok = reject_at != Some(i);
            let avoid = if kind.any && unamb { "?#&+=" } else if unamb { "/._~:,;!&?#+=" } else { "?#&+=/" };
            let val = match pick_val(rng, kind, want_ok, place, avoid, ci_of(place)) { Some(v) => v, None => continue };
            if kind.any && place == "path" { any_used_in_path = true; }
            if place == "query" { has_query_marker = true; }
            let regex = rng.pick(kind.regexes).to_string();
            plans.push(MarkerPlan { name: name.clone(), kind: ki, regex, val, place, transformers: json!([]) });
            break;
        }
    }
    // ---- source templates and the request
    let mut how_sep: Vec<String> = Vec::new();
    let path_ms: Vec<usize> = (0..plans.len()).filter(|i| plans[*i].place == "path").collect();
    // the "anything" marker of the path goes last (unambiguous stream)
    let mut path_order = path_ms.clone();
    if unamb { path_order.sort_by_key(|i| KINDS[plans[*i].kind].any); }
    let mut path_t = String::new();
    let mut path_r = String::new();
    if path_order.is_empty() { let p = *rng.pick(&["/", "/plain", "/a/b", "/caf\u{e9}"]); path_t.push_str(p); path_r.push_str(p); }
    for (k, i) in path_order.iter().enumerate() {
        let pre: String = if unamb || k == 0 { rng.pick(PATH_PRE).to_string() } else {
            // ambiguous stream: separators that marker languages contain, or none at all
            rng.pick(&["-", "", "/", "-x-", "a", "1"]).to_string()
        };
        let pre = if k == 0 && !pre.starts_with('/') { format!("/{}", pre) } else { pre };
        how_sep.push(pre.clone());
        path_t.push_str(&pre); path_t.push('@'); path_t.push_str(&plans[*i].name);
        path_r.push_str(&pre); path_r.push_str(plans[*i].val.raw);
    }
    let has_query = plans.iter().any(|p| p.place == "query");
    if !path_order.is_empty() {
        let last_any = KINDS[plans[*path_order.last().unwrap()].kind].any;
        let suf = if last_any && (unamb || has_query) { "" } else if unamb { *rng.pick(PATH_SUF) } else { *rng.pick(&["", "-", "/end", "x", "1"]) };
        path_t.push_str(suf); path_r.push_str(suf);
    }
    // a literal that directly follows "@name" must not extend the name to another marker's name: separators never do
    let mut query_t: Value = Value::Null;
    let mut url = path_r.clone();
    if let Some(p) = plans.iter().find(|p| p.place == "query") {
        let (qt, qr) = match rng.below(4) {
            0 => (format!("k=@{}", p.name), format!("k={}", p.val.raw)),
            1 => (format!("b=@{}&a=1", p.name), format!("b={}&a=1", p.val.raw)),
            2 => (format!("b=@{}&a=1", p.name), format!("a=1&b={}", p.val.raw)),
            _ => (format!("k=@{}&z=9", p.name), format!("z=9&k={}", p.val.raw)),
        };
        query_t = json!(qt);
        url = format!("{}?{}", path_r, qr);
    } else if rng.chance(1, 10) && !path_order.iter().any(|i| KINDS[plans[*i].kind].any) {
        query_t = json!("s=1"); url = format!("{}?s=1", path_r);
    }
    let host_ms: Vec<usize> = (0..plans.len()).filter(|i| plans[*i].place == "host").collect();
    let (mut host_t, mut host_r): (Value, Value) = (Value::Null, Value::Null);
    if !host_ms.is_empty() {
        // the template has as many slots as there are host markers (at most 2; more go to the path would change the plan: give up)
        if host_ms.len() > 2 { return None; }
        let cands: Vec<&(&str, usize)> = HOST_TPL.iter().filter(|t| t.1 == host_ms.len()).collect();
        let tpl = cands[rng.below(cands.len())].0;
        let tpl = if !unamb && rng.chance(1, 2) { if host_ms.len() == 2 { "@0-@1.net" } else { "a-@0-b.example.com" } } else { tpl };
        let (mut t, mut rq) = (tpl.to_string(), tpl.to_string());
        for (k, i) in host_ms.iter().enumerate() {
            t = t.replace(&format!("@{}", k), &format!("@{}", plans[*i].name));
            rq = rq.replace(&format!("@{}", k), plans[*i].val.raw);
        }
        // "@0.@1": after renaming, "@a.@ab" is fine; but "@1" inside a NAME cannot occur (names have no '@')
        host_t = json!(t); host_r = json!(rq);
    } else if rng.chance(1, 8) { host_r = json!("other.example.com"); }
    let hdr_ms: Vec<usize> = (0..plans.len()).filter(|i| plans[*i].place == "header").collect();
    let mut rule_headers: Vec<Value> = Vec::new();
    let mut req_headers: Vec<Value> = Vec::new();
    if rng.chance(1, 5) { req_headers.push(json!(["Accept", "*/*"])); }
    if !hdr_ms.is_empty() {
        // one or two header conditions; markers of one condition are joined by ";k=" pieces
        let split = if hdr_ms.len() >= 2 && rng.chance(1, 2) { 1 } else { hdr_ms.len() };
        let mut hn: Vec<&str> = HDR_NAMES.to_vec();
        for grp in [&hdr_ms[..split], &hdr_ms[split..]] {
            if grp.is_empty() { continue; }
            let name = hn.remove(rng.below(hn.len()));
            let (mut t, mut rq) = (String::new(), String::new());
            for (k, i) in grp.iter().enumerate() {
                let pre = if k == 0 { rng.pick(HDR_PRE).to_string() } else { format!(";m{}=", k) };
                t.push_str(&pre); t.push('@'); t.push_str(&plans[*i].name);
                rq.push_str(&pre); rq.push_str(plans[*i].val.raw);
            }
            let last = &plans[*grp.last().unwrap()];
            // the condition is an UNANCHORED search in the crate: a rejected instantiation only stays rejected when a
            // literal follows (see corpus/C10/kf_header_regex_unanchored.json); "anything" goes to the end
            let suf = if KINDS[last.kind].any { "" } else if reject_at.is_some() || rng.chance(1, 2) { *rng.pick(HDR_SUF) } else { "" };
            t.push_str(suf); rq.push_str(suf);
            rule_headers.push(json!({"name": name, "type": "match_regex", "value": t}));
            if rng.chance(1, 6) { req_headers.push(json!([name, "zzz"])); }
            req_headers.push(json!([name, rq]));
        }
    }
    if rng.chance(1, 6) { rule_headers.push(json!({"name": "Accept-Language", "type": "is_not_defined", "value": null})); }

    // the templates must read as intended: at every '@' the longest marker name that follows is the marker placed there
    {
        let inst: Vec<(String, String)> = plans.iter().map(|p| (p.name.clone(), p.val.raw.to_string())).collect();
        let raw_path = url.split('?').next().unwrap().to_string();
        if ref_subst(&inst, &path_t) != raw_path { return None; }
        if let (Some(t), Some(h)) = (host_t.as_str(), host_r.as_str()) { if ref_subst(&inst, t) != h { return None; } }
        for h in &rule_headers { if h["type"] == "match_regex" {
            let v = req_headers.iter().rev().find(|rh| rh[0] == h["name"]).unwrap();
            if ref_subst(&inst, h["value"].as_str().unwrap()) != v[1].as_str().unwrap() { return None; }
        } }
    }
    // ---- marketing forwarding (C09 x C10): the request carries parameters of the configured marketing set; they are
    // ignored for matching and, when passing is configured, appended to the RENDERED target with '?' or '&'
    let mkt = unamb && rng.chance(1, 5);
    let mkt_pass = mkt && rng.chance(3, 4);
    let mut skipped = String::new();
    let mut url = url;
    if mkt {
        skipped = match rng.below(3) { 0 => "utm_source=news".to_string(), 1 => "utm_medium=em".to_string(), _ => "utm_medium=em&utm_source=news".to_string() };
        // the crate sorts all parameters by key; the added ones go anywhere in the received query
        if url.contains('?') {
            if rng.chance(1, 2) { url = format!("{}&{}", url, skipped); }
            else { let (p, q) = url.split_once('?').unwrap(); url = format!("{}?{}&{}", p, skipped, q); }
        } else { url = format!("{}?{}", url, skipped); }
    }
    // ---- transformers, variables
    let explicit_vars = mkt || rng.chance(2, 5);
    let with_tr = unamb;
    for p in plans.iter_mut() {
        let in_path = p.place == "path" || p.place == "query";
        let captured = if in_path { p.val.path.to_string() } else if p.place == "host" && ihc { p.val.raw.to_lowercase() } else { p.val.raw.to_string() };
        if with_tr && rng.chance(1, 2) { p.transformers = gen_transformers(rng, &captured); }
    }
    // an extra marker that no template uses (its name may be a prefix of a used one)
    let mut markers_json: Vec<Value> = plans.iter().map(|p| json!({"name": p.name, "regex": p.regex, "transformers": p.transformers})).collect();
    if rng.chance(1, 6) && !pool.is_empty() {
        let extra = pool.remove(rng.below(pool.len()));
        // unused in the templates only if no template contains "@extra": a name that is a prefix of a used name occurs textually
        let occurs = |t: &str| t.contains(&format!("@{}", extra));
        let hv: Vec<String> = rule_headers.iter().filter_map(|h| h["value"].as_str().map(|s| s.to_string())).collect();
        if !occurs(&path_t) && !query_t.as_str().map(occurs).unwrap_or(false) && !host_t.as_str().map(occurs).unwrap_or(false) && !hv.iter().any(|s| occurs(s)) {
            let pos = rng.below(markers_json.len() + 1);
            markers_json.insert(pos, json!({"name": extra, "regex": "[0-9]+", "transformers": []}));
        }
    }
    // markers in the JSON in random order (the crate sorts them by name length, stably)
    for i in (1..markers_json.len()).rev() { let j = rng.below(i + 1); markers_json.swap(i, j); }

    let expect_match = plans.iter().all(|p| accepted(&KINDS[p.kind], &p.val, p.place, ci_of(p.place)));
    // the path is captured as sent (sanitised); the host is lowercased by Request::from_config under ignore_host_case
    let mut captured: Vec<(String, String)> = plans.iter().map(|p| (p.name.clone(),
        if p.place == "path" || p.place == "query" { p.val.path.to_string() } else if p.place == "host" && ihc { p.val.raw.to_lowercase() } else { p.val.raw.to_string() })).collect();
    captured.sort();
    // transformed marker values
    let mut input: Vec<(String, String)> = Vec::new();
    for (n, v) in &captured {
        let p = plans.iter().find(|p| &p.name == n).unwrap();
        input.push((n.clone(), ref_chain(&p.transformers, v).ok()?));
    }
    let scheme: Value = if rng.chance(1, 4) { json!("https") } else { Value::Null };
    let method: Value = if rng.chance(1, 4) { json!("POST") } else { Value::Null };
    let remote: Value = if rng.chance(1, 4) { json!("192.0.2.7") } else { Value::Null };
    let mut variables_json: Vec<Value> = Vec::new();
    let mut vars: Vec<(String, String)> = Vec::new();
    let mut mkt_uri_var: Option<String> = None;
    if explicit_vars && unamb {
        // as the redirection.io UI does: one variable per marker, same name; then a few more
        for (n, v) in &input {
            let ts = if rng.chance(1, 3) { gen_transformers(rng, v) } else { json!([]) };
            variables_json.push(json!({"name": n, "type": {"marker": n}, "transformers": ts}));
            vars.push((n.clone(), ref_chain(&ts, v).ok()?));
        }
        let extra_n = rng.below(3);
        for _ in 0..extra_n {
            if pool.is_empty() { break; }
            let n = pool.remove(rng.below(pool.len())).to_string();
            let (ty, base): (Value, String) = match rng.below(8) {
                0 => (json!("request_host"), if ihc { host_r.as_str().unwrap_or("").to_lowercase() } else { host_r.as_str().unwrap_or("").to_string() }),
                1 => (json!("request_method"), method.as_str().unwrap_or("").to_string()),
                2 => (json!("request_scheme"), scheme.as_str().unwrap_or("").to_string()),
                3 => (json!("request_path"), url.clone()),
                4 => (json!("request_remote_address"), remote.as_str().unwrap_or("").to_string()),
                5 => {
                    let hname = if !req_headers.is_empty() && rng.chance(2, 3) { req_headers[rng.below(req_headers.len())][0].as_str().unwrap().to_string() } else { "X-Absent".to_string() };
                    let default: Value = if rng.chance(1, 2) { json!("dflt") } else { Value::Null };
                    let vals: Vec<&str> = req_headers.iter().filter(|h| h[0].as_str().unwrap().to_lowercase() == hname.to_lowercase()).map(|h| h[1].as_str().unwrap()).collect();
                    let base = if vals.is_empty() { default.as_str().unwrap_or("").to_string() } else { vals.join(",") };
                    let hname = if rng.chance(1, 3) { hname.to_uppercase() } else { hname };
                    (json!({"request_header": {"name": hname, "default": default}}), base)
                }
                6 => { let m = &input[rng.below(input.len())]; (json!({"marker": m.0}), m.1.clone()) }
                _ => (json!({"marker": "nosuch"}), String::new()),
            };
            let ts = if rng.chance(1, 2) { gen_transformers(rng, &base) } else { json!([]) };
            variables_json.push(json!({"name": n, "type": ty, "transformers": ts}));
            vars.push((n, ref_chain(&ts, &base).ok()?));
        }
        // under marketing forwarding: a variable holding the received URL, so that a '?' can reach the target by
        // substitution only
        if mkt && !pool.is_empty() && rng.chance(2, 3) {
            let n = pool.remove(rng.below(pool.len())).to_string();
            variables_json.push(json!({"name": n, "type": "request_path", "transformers": []}));
            vars.push((n.clone(), url.clone()));
            mkt_uri_var = Some(n);
        }
        // rule order is the order of the sequential replacement among names of equal length
        let k = variables_json.len();
        let mut idx: Vec<usize> = (0..k).collect();
        for i in (1..k).rev() { let j = rng.below(i + 1); idx.swap(i, j); }
        variables_json = idx.iter().map(|i| variables_json[*i].clone()).collect();
        vars = idx.iter().map(|i| vars[*i].clone()).collect();
    } else { vars = input.clone(); }

    // ---- target, filters
    let target: Value = match (&mkt_uri_var, rng.below(12)) {
        (Some(n), 2..=8) => json!(format!("{}@{}", *rng.pick(&["/t", "https://example.org", "/moved/x"]), n)),
        (_, 0) => Value::Null, (_, 1) => json!(""),
        _ => { let lead = *rng.pick(&["/t/", "https://example.org/", "/", "/r?u="]); json!(gen_text(rng, &vars, lead)) } };
    let nhf = match rng.below(4) { 0 | 1 => 0, 2 => 1, _ => 2 };
    let header_filters: Vec<Value> = (0..nhf).map(|k| { let lead = *rng.pick(&["", "v=", "k:"]); let act = *rng.pick(&["add", "override", "replace"]); json!({"action": act, "header": format!("X-Out{}", k), "value": gen_text(rng, &vars, lead)}) }).collect();
    let nbf = match rng.below(4) { 0 | 1 => 0, 2 => 1, _ => 2 };
    let body_filters: Vec<Value> = (0..nbf).map(|_| {
        if rng.chance(2, 3) { let lead = *rng.pick(&["<!--", "[", ""]); let act = *rng.pick(&["append_text", "prepend_text", "replace_text"]); json!({"action": act, "content": gen_text(rng, &vars, lead)}) }
        else {
            let inner: Value = if rng.chance(1, 2) { Value::Null } else { json!(gen_text(rng, &vars, "<i>")) };
            json!({"action": "append_child", "element_tree": ["html", "body"], "css_selector": null, "value": gen_text(rng, &vars, "<p>"), "inner_value": inner})
        }
    }).collect();

    // ---- expectations
    let sub = |t: &str| ref_subst(&vars, t);
    let fwd = |v: String| if mkt_pass && !skipped.is_empty() { let sep = if v.contains('?') { '&' } else { '?' }; format!("{}{}{}", v, sep, skipped) } else { v };
    let exp_location: Value = match target.as_str() { Some(t) if !t.is_empty() => json!(fwd(sub(t))), _ => Value::Null };
    let exp_target: Value = match target.as_str() { Some(t) => json!(fwd(sub(t))), None => Value::Null };
    let mut exp_h: Vec<Value> = Vec::new();
    if !exp_location.is_null() { exp_h.push(exp_location.clone()); }
    for f in &header_filters { exp_h.push(json!(sub(f["value"].as_str().unwrap()))); }
    let exp_b: Vec<Value> = body_filters.iter().map(|f| match f.get("content") {
        Some(c) => json!(["text", sub(c.as_str().unwrap())]),
        None => { let v = f["value"].as_str().unwrap(); json!(["html", sub(v), sub(f["inner_value"].as_str().unwrap_or(v))]) }
    }).collect();
    // ambiguous stream: every template with the text it is matched against (templates and URLs are ASCII there and
    // need no encoding)
    let mut parse: Vec<Value> = Vec::new();
    if !unamb {
        if !url.is_ascii() || url.contains(' ') || url.contains('?') { return None; }
        parse.push(json!([path_t, url]));
        if let (Some(t), Some(h)) = (host_t.as_str(), host_r.as_str()) { parse.push(json!([t, if ihc { h.to_lowercase() } else { h.to_string() }])); }
        for h in &rule_headers { if h["type"] == "match_regex" { let v = req_headers.iter().rev().find(|rh| rh[0] == h["name"]).unwrap(); parse.push(json!([h["value"], v[1]])); } }
    }
    let pairs = |l: &[(String, String)]| l.iter().map(|(n, v)| json!([n, v])).collect::<Vec<_>>();
    Some(json!({
        "stream": stream, "cfg": {"ihc": ihc, "ihdc": false, "ipqc": ipqc, "mk": if mkt { json!(["utm_source", "utm_medium"]) } else { json!([]) }, "pass": mkt_pass},
        "rule": {"path": path_t, "query": query_t, "host": host_t, "headers": rule_headers, "markers": markers_json, "variables": variables_json,
                 "target": target, "header_filters": header_filters, "body_filters": body_filters},
        "request": {"url": url, "host": host_r, "scheme": scheme, "method": method, "headers": req_headers, "remote": remote},
        "expect": {"match": expect_match, "panic": false, "captured": pairs(&captured), "variables": pairs(&vars), "location": exp_location, "target": exp_target,
                   "hvalues": exp_h, "bvalues": exp_b, "parse": parse},
        "how": {"kinds": plans.iter().map(|p| json!([p.name, KINDS[p.kind].tag, p.place, p.val.raw])).collect::<Vec<_>>(), "rejected": reject_at.map(|i| names[i].clone()), "separators": how_sep,
                "ci_only": plans.iter().filter(|p| ci_of(p.place) && CI_FLIP.iter().any(|(k, r)| *k == KINDS[p.kind].tag && *r == p.val.raw)).map(|p| p.name.clone()).collect::<Vec<_>>()}
    }))
}

pub fn generate(seed: u64, thorough: bool) -> Vec<Value> {
    let mut rng = Rng::new(seed ^ 0x10);
    let n = if thorough { 12000 } else { 2400 };
    let mut out = Vec::new();
    while out.len() < n {
        let stream = if rng.chance(3, 4) { "unamb" } else { "amb" };
        let mut r = rng.fork();
        if let Some(c) = gen_case(&mut r, stream) { out.push(c); }
    }
    out
}

// ------------------------------------------------------------------------------------------- running
fn cq_ostr(v: &Value) -> String { match v.as_str() { None => "None".into(), Some(s) => format!("(Some {})", cq_str(s)) } }
fn cq_pairs(v: &Value) -> String { cq_list(v.as_array().map(|a| a.as_slice()).unwrap_or(&[]), |p| format!("({}, {})", cq_str(p[0].as_str().unwrap_or("")), cq_str(p[1].as_str().unwrap_or("")))) }
fn cq_strs(v: &Value) -> String { cq_list(v.as_array().map(|a| a.as_slice()).unwrap_or(&[]), |s| cq_str(s.as_str().unwrap_or(""))) }
fn cq_transformers(v: &Value) -> String {
    cq_list(v.as_array().map(|a| a.as_slice()).unwrap_or(&[]), |t| {
        let opts = match t.get("options").and_then(|o| o.as_object()) {
            None => "None".to_string(),
            // a JSON object read into a HashMap<String,String>: one entry per key; sorted here, looked up by key there
            Some(o) => { let m: BTreeMap<&String, &Value> = o.iter().collect(); format!("(Some {})", cq_list(&m.iter().collect::<Vec<_>>(), |(k, v)| format!("({}, {})", cq_str(k), cq_str(v.as_str().unwrap_or(""))))) }
        };
        format!("mk_tr {} {}", cq_ostr(t.get("type").unwrap_or(&Value::Null)), opts)
    })
}
fn cq_vkind(t: &Value) -> String {
    if let Some(s) = t.as_str() {
        return match s { "request_host" => "VRequestHost", "request_method" => "VRequestMethod", "request_path" => "VRequestPath",
            "request_remote_address" => "VRequestRemoteAddress", "request_scheme" => "VRequestScheme", _ => "VRequestTime" }.to_string();
    }
    if let Some(m) = t.get("marker") { return format!("(VMarker {})", cq_str(m.as_str().unwrap_or(""))); }
    let h = &t["request_header"];
    format!("(VRequestHeader {} {})", cq_str(h["name"].as_str().unwrap_or("")), cq_ostr(&h["default"]))
}
fn cq_bfs(v: &Value) -> String {
    cq_list(v.as_array().map(|a| a.as_slice()).unwrap_or(&[]), |f| {
        if f[0] == "text" { format!("BFText {}", cq_str(f[1].as_str().unwrap_or(""))) } else { format!("BFHtml {} {}", cq_str(f[1].as_str().unwrap_or("")), cq_ostr(&f[2])) }
    })
}
fn rule_bfs(v: &Value) -> String {
    cq_list(v.as_array().map(|a| a.as_slice()).unwrap_or(&[]), |f| match f.get("content") {
        Some(c) => format!("BFText {}", cq_str(c.as_str().unwrap_or(""))),
        None => format!("BFHtml {} {}", cq_str(f["value"].as_str().unwrap_or("")), cq_ostr(f.get("inner_value").unwrap_or(&Value::Null))),
    })
}

struct Obs { matched: bool, captured: Vec<(String, String)>, location: Option<String>, target: Option<String>, hvalues: Vec<String>, bvalues: Vec<Value>, oracle: Vec<(u8, String, String)> }

fn rule_json(rule: &Value) -> Value {
    json!({"id": "r", "rank": 0, "status_code": 301,
           "source": {"path": rule["path"], "query": rule["query"], "host": rule["host"], "headers": if rule["headers"].as_array().map(|a| a.is_empty()).unwrap_or(true) { Value::Null } else { rule["headers"].clone() }},
           "markers": if rule["markers"].is_null() { json!([]) } else { rule["markers"].clone() }, "variables": if rule["variables"].is_null() { json!([]) } else { rule["variables"].clone() }, "target": rule["target"],
           "header_filters": if rule["header_filters"].as_array().map(|a| a.is_empty()).unwrap_or(true) { Value::Null } else { rule["header_filters"].clone() },
           "body_filters": if rule["body_filters"].as_array().map(|a| a.is_empty()).unwrap_or(true) { Value::Null } else { rule["body_filters"].clone() }})
}

/// replays a transformer chain with the crate's own Transform objects to learn the (kind, input, output) of the heck
/// and case-mapping steps: these are ORACLES of the model (heck, Unicode tables), not part of what is checked
fn oracle_chain(ts: &Value, start: &str, out: &mut Vec<(u8, String, String)>) -> String {
    let mut cur = start.to_string();
    if let Some(arr) = ts.as_array() {
        for t in arr {
            let tr: Transformer = match serde_json::from_value(t.clone()) { Ok(x) => x, Err(_) => continue };
            if let Some(x) = tr.to_transform() {
                let next = x.transform(cur.clone());
                let k = match t["type"].as_str() { Some("camelize") => 1, Some("dasherize") => 2, Some("underscorize") => 3, Some("lowercase") => 4, Some("uppercase") => 5, _ => 0 };
                if k != 0 { out.push((k, cur.clone(), next.clone())); }
                cur = next;
            }
        }
    }
    cur
}

pub fn run_case(id: usize, input: &Value) {
    let c = &input["cfg"];
    let flag = |n: &str| c[n].as_bool().unwrap_or(false);
    let config = RouterConfig {
        ignore_host_case: flag("ihc"), ignore_header_case: flag("ihdc"), ignore_path_and_query_case: flag("ipqc"),
        ignore_marketing_query_params: true,
        marketing_query_params: c["mk"].as_array().map(|a| a.iter().filter_map(|x| x.as_str().map(|s| s.to_string())).collect()).unwrap_or_default(),
        pass_marketing_query_params_to_target: flag("pass"), always_match_any_host: false,
    };
    let stream = input["stream"].as_str().unwrap_or("witness").to_string();
    let rule_in = input["rule"].clone();
    let rq = input["request"].clone();
    let ihdc = flag("ihdc");
    let (cfg2, rule2, rq2) = (config.clone(), rule_in.clone(), rq.clone());
    let res = catch(move || {
        let rule: Rule = serde_json::from_value(rule_json(&rule2)).expect("rule json");
        let mut router = Router::<Rule>::from_config(cfg2.clone());
        router.insert(rule);
        // half of the cases (decided by the input itself, so that a replay does the same): the router is cached before it is
        // used, as the proxies do after loading their rules; captures and substitutions must not depend on it
        if serde_json::to_string(&rule2).map(|t| t.len()).unwrap_or(0) % 2 == 1 { router.cache(None); }
        let remote = rq2["remote"].as_str().map(|s| s.parse().expect("remote address"));
        let mut req = Request::from_config(&cfg2, rq2["url"].as_str().unwrap_or("").to_string(), rq2["host"].as_str().map(|s| s.to_string()),
            rq2["scheme"].as_str().map(|s| s.to_string()), rq2["method"].as_str().map(|s| s.to_string()), remote, None);
        if let Some(hs) = rq2["headers"].as_array() { for h in hs { req.add_header(h[0].as_str().unwrap_or("").to_string(), h[1].as_str().unwrap_or("").to_string(), ihdc); } }
        let matched = router.match_request(&req);
        // the proxies rebuild the request before matching: same verdict expected
        let rebuilt = router.rebuild_request(&req);
        if router.match_request(&rebuilt).len() != matched.len() { panic!("harness: match verdict differs after rebuild_request"); }
        let mut obs = Obs { matched: !matched.is_empty(), captured: Vec::new(), location: None, target: None, hvalues: Vec::new(), bvalues: Vec::new(), oracle: Vec::new() };
        if obs.matched {
            let route = matched[0].clone();
            let caps: HashMap<String, String> = route.capture(&req);
            let mut cv: Vec<(String, String)> = caps.iter().map(|(k, v)| (k.clone(), v.clone())).collect();
            cv.sort();
            obs.captured = cv.clone();
            // oracle entries: marker chains, then variable chains on the value Variable::get_value starts from
            let mut inputm: HashMap<String, String> = HashMap::new();
            for (n, v) in &cv {
                let ts = rule2["markers"].as_array().and_then(|ms| ms.iter().find(|m| m["name"].as_str() == Some(n.as_str()))).map(|m| m["transformers"].clone()).unwrap_or(Value::Null);
                let tv = oracle_chain(&ts, v, &mut obs.oracle);
                inputm.insert(n.clone(), tv);
            }
            if let Some(vs) = rule2["variables"].as_array() {
                for v in vs {
                    let bare: Variable = serde_json::from_value(json!({"name": v["name"], "type": v["type"], "transformers": []})).expect("variable json");
                    let start = bare.get_value(&inputm, &req);
                    oracle_chain(&v["transformers"], &start, &mut obs.oracle);
                }
            }
            obs.target = Action::get_target(&route, &req);
            let mut action = Action::from_routes_rule(matched, &req, None);
            let aj = serde_json::to_value(&action).unwrap();
            obs.hvalues = aj["header_filters"].as_array().unwrap().iter().map(|h| h["filter"]["value"].as_str().unwrap().to_string()).collect();
            obs.bvalues = aj["body_filters"].as_array().unwrap().iter().map(|b| {
                let f = &b["filter"];
                match f.get("content") { Some(c) => json!(["text", c]), None => json!(["html", f["value"], f["inner_value"]]) }
            }).collect();
            let hs: Vec<Header> = action.filter_headers(Vec::new(), 200, false, None);
            let locs: Vec<&Header> = hs.iter().filter(|h| h.name.to_lowercase() == "location").collect();
            if locs.len() > 1 { panic!("harness: more than one Location header"); }
            obs.location = locs.first().map(|h| h.value.clone());
            // the text body filters really carry the substituted content
            let texts: Vec<String> = obs.bvalues.iter().filter(|b| b[0] == "text").map(|b| b[1].as_str().unwrap().to_string()).collect();
            let has_replace = rule2["body_filters"].as_array().map(|a| a.iter().any(|f| f["action"] == "replace_text")).unwrap_or(false);
            if !texts.is_empty() && !has_replace {
                if let Some(mut f) = action.create_filter_body(200, &hs) {
                    let mut body = f.filter(b"BODY".to_vec(), None); body.extend(f.end(None));
                    let body = String::from_utf8_lossy(&body).to_string();
                    for t in &texts { if !body.contains(t.as_str()) { panic!("harness: filtered body lacks a substituted text filter content"); } }
                }
            }
        }
        obs
    });
    // the route the rule is turned into: Static / Dynamic(regex, capture) of the path, the host, the match_regex headers
    let (cfg3, rule3) = (config.clone(), rule_in.clone());
    let route_obs: Vec<String> = catch(move || {
        let rule: Rule = serde_json::from_value(rule_json(&rule3)).expect("rule json");
        let route = rule.into_route(&cfg3);
        let sod = |x: &StaticOrDynamic| match x {
            StaticOrDynamic::Static(s) => format!("SObsStatic {}", cq_str(s)),
            StaticOrDynamic::Dynamic(m) => format!("SObsDynamic {} {}", cq_str(&m.regex), cq_str(&m.capture)),
        };
        let mut v = vec![sod(route.path_and_query())];
        if let Some(h) = route.host() { v.push(sod(h)); }
        for h in route.headers() { if let RouteHeaderKind::MatchRegex(m) = &h.kind { v.push(format!("SObsDynamic {} {}", cq_str(&m.regex), cq_str(&m.capture))); } }
        v
    }).unwrap_or_default();
    let (obs, panic_msg) = match res { Ok(o) => (o, None), Err(e) => (Obs { matched: false, captured: Vec::new(), location: None, target: None, hvalues: Vec::new(), bvalues: Vec::new(), oracle: Vec::new() }, Some(e)) };
    let e = &input["expect"];
    let r = &rule_in;
    let cq_rule = format!("{{| r_path := {}; r_query := {}; r_host := {}; r_headers := {}; r_markers := {}; r_variables := {}; r_target := {}; r_header_filters := {}; r_body_filters := {} |}}",
        cq_str(r["path"].as_str().unwrap_or("")), cq_ostr(&r["query"]), cq_ostr(&r["host"]),
        cq_list(r["headers"].as_array().map(|a| a.as_slice()).unwrap_or(&[]), |h| format!("mk_sh {} {} {}", cq_str(h["name"].as_str().unwrap_or("")), cq_str(h["type"].as_str().unwrap_or("")), cq_ostr(&h["value"]))),
        cq_list(r["markers"].as_array().map(|a| a.as_slice()).unwrap_or(&[]), |m| format!("mk_marker {} {} {}", cq_str(m["name"].as_str().unwrap_or("")), cq_str(m["regex"].as_str().unwrap_or("")), cq_transformers(&m["transformers"]))),
        cq_list(r["variables"].as_array().map(|a| a.as_slice()).unwrap_or(&[]), |v| format!("mk_var {} {} {}", cq_str(v["name"].as_str().unwrap_or("")), cq_vkind(&v["type"]), cq_transformers(&v["transformers"]))),
        cq_ostr(&r["target"]), cq_list(r["header_filters"].as_array().map(|a| a.as_slice()).unwrap_or(&[]), |f| cq_str(f["value"].as_str().unwrap_or(""))), rule_bfs(&r["body_filters"]));
    let opt = |s: &Option<String>| match s { None => "None".to_string(), Some(x) => format!("(Some {})", cq_str(x)) };
    let coq = format!("{{| c_stream := {}; c_cfg := mk_cfg10m {} {} {} {} {}; c_rule := {}; c_url := {}; c_host := {}; c_scheme := {}; c_method := {}; c_headers := {}; c_remote := {}; c_oracle := {}; \
c_expect_match := {}; c_expect_panic := {}; c_expect_captured := {}; c_expect_variables := {}; c_expect_location := {}; c_expect_target := {}; c_expect_hvalues := {}; c_expect_bvalues := {}; c_parse_checks := {}; \
o_route := {}; o_panic := {}; o_match := {}; o_captured := {}; o_location := {}; o_target := {}; o_hvalues := {}; o_bvalues := {} |}}",
        match stream.as_str() { "unamb" => "SUnamb", "amb" => "SAmb", _ => "SWitness" }, cq_bool(flag("ihc")), cq_bool(flag("ihdc")), cq_bool(flag("ipqc")), cq_strs(&c["mk"]), cq_bool(flag("pass")), cq_rule,
        cq_str(rq["url"].as_str().unwrap_or("")), cq_ostr(&rq["host"]), cq_ostr(&rq["scheme"]), cq_ostr(&rq["method"]), cq_pairs(&rq["headers"]), cq_ostr(&rq["remote"]),
        cq_list(&obs.oracle, |(k, i, o)| format!("({}, {}, {})", k, cq_str(i), cq_str(o))),
        cq_bool(e["match"].as_bool().unwrap_or(false)), cq_bool(e["panic"].as_bool().unwrap_or(false)), cq_pairs(&e["captured"]), cq_pairs(&e["variables"]),
        cq_ostr(&e["location"]), cq_ostr(&e["target"]), cq_strs(&e["hvalues"]), cq_bfs(&e["bvalues"]), cq_pairs(&e["parse"]),
        cq_list(&route_obs, |x| x.clone()), cq_bool(panic_msg.is_some()), cq_bool(obs.matched), cq_list(&obs.captured, |(n, v)| format!("({}, {})", cq_str(n), cq_str(v))), opt(&obs.location), opt(&obs.target),
        cq_list(&obs.hvalues, |s| cq_str(s)), cq_bfs(&json!(obs.bvalues)));

    // ---- tags
    let mut tags = vec![format!("stream:{}", stream)];
    let markers = r["markers"].as_array().cloned().unwrap_or_default();
    let names: Vec<String> = markers.iter().map(|m| m["name"].as_str().unwrap_or("").to_string()).collect();
    tags.push(format!("markers:{}", markers.len()));
    if names.iter().any(|n| names.iter().any(|m| m != n && m.starts_with(n.as_str()))) { tags.push("names:prefix-sharing".into()); }
    if let Some(ks) = input["how"]["kinds"].as_array() {
        for k in ks { tags.push(format!("kind:{}", k[1].as_str().unwrap_or("?"))); tags.push(format!("place:{}", k[2].as_str().unwrap_or("?"))); }
        let places: HashSet<&str> = ks.iter().map(|k| k[2].as_str().unwrap_or("?")).collect();
        if places.len() >= 2 { tags.push("places>=2".into()); }
        if places.len() >= 3 { tags.push("places>=3".into()); }
    }
    if !input["how"]["rejected"].is_null() {
        tags.push("inst:one-rejected".into());
        if let Some(k) = input["how"]["kinds"].as_array().and_then(|ks| ks.iter().find(|k| k[0] == input["how"]["rejected"])) {
            tags.push(format!("rejected-in:{}", k[2].as_str().unwrap_or("?")));
            tags.push(format!("rejected-kind:{}", k[1].as_str().unwrap_or("?")));
            tags.push(format!("rejected-value:{}", match k[3].as_str().unwrap_or("") { "" => "empty", v if !v.is_ascii() => "non-ascii", v if v.len() > 20 => "long", _ => "one-off" }));
        }
    } else { tags.push("inst:all-accepted".into()); }
    if input["how"]["ci_only"].as_array().map(|a| !a.is_empty()).unwrap_or(false) { tags.push("inst:accepted-only-case-insensitively".into()); }
    if stream == "amb" && obs.matched {
        let exp_c: Vec<(String, String)> = e["captured"].as_array().map(|a| a.iter().map(|p| (p[0].as_str().unwrap_or("").to_string(), p[1].as_str().unwrap_or("").to_string())).collect()).unwrap_or_default();
        tags.push(if exp_c == obs.captured { "amb:parse=instantiation".into() } else { "amb:other-parse-than-instantiation".into() });
    }
    let all_tr: Vec<&Value> = markers.iter().chain(r["variables"].as_array().map(|a| a.iter()).into_iter().flatten()).flat_map(|m| m["transformers"].as_array().map(|a| a.iter()).into_iter().flatten()).collect();
    for t in &all_tr {
        let tr: Option<Transformer> = serde_json::from_value((*t).clone()).ok();
        let live = tr.map(|x| x.to_transform().is_some()).unwrap_or(false);
        if live { tags.push(format!("tr:{}", t["type"].as_str().unwrap_or("?"))); } else { tags.push("tr:ignored".into()); }
        if t["type"] == "replace" && t["options"]["something"] == "" { tags.push("tr:replace-empty-pattern".into()); }
        if live && t["type"] == "slice" {
            let (f, to) = (t["options"]["from"].as_str().unwrap_or(""), t["options"]["to"].as_str().unwrap_or(""));
            if ref_usize(f).is_none() { tags.push("slice:from-unparsable(0)".into()); }
            if ref_usize(to).is_none() { tags.push("slice:to-unparsable(end)".into()); }
            if ref_usize(f).map(|x| x >= 90).unwrap_or(false) { tags.push("slice:from-beyond-end".into()); }
            if let (Some(a), Some(b)) = (ref_usize(f), ref_usize(to)) { if a > b { tags.push("slice:from>to".into()); } }
            if ref_usize(to).map(|x| x >= 90).unwrap_or(false) { tags.push("slice:to-beyond-end".into()); }
        }
    }
    if all_tr.len() >= 2 { tags.push("tr:chain>=2".into()); }
    if markers.iter().any(|m| m["transformers"].as_array().map(|a| !a.is_empty()).unwrap_or(false)) { tags.push("tr:on-marker".into()); }
    let vars_j = r["variables"].as_array().cloned().unwrap_or_default();
    if vars_j.is_empty() { tags.push("vars:none(markers)".into()); } else {
        tags.push("vars:explicit".into());
        for v in &vars_j { tags.push(format!("varkind:{}", if let Some(s) = v["type"].as_str() { s.to_string() } else if v["type"].get("marker").is_some() { "marker".into() } else { "request_header".into() })); }
        if vars_j.iter().any(|v| v["transformers"].as_array().map(|a| !a.is_empty()).unwrap_or(false)) { tags.push("tr:on-variable".into()); }
    }
    let expv: Vec<(String, String)> = e["variables"].as_array().map(|a| a.iter().map(|p| (p[0].as_str().unwrap_or("").to_string(), p[1].as_str().unwrap_or("").to_string())).collect()).unwrap_or_default();
    let mut texts: Vec<String> = Vec::new();
    if let Some(t) = r["target"].as_str() { texts.push(t.to_string()); }
    for f in r["header_filters"].as_array().map(|a| a.as_slice()).unwrap_or(&[]) { texts.push(f["value"].as_str().unwrap_or("").to_string()); }
    for f in r["body_filters"].as_array().map(|a| a.as_slice()).unwrap_or(&[]) { for k in ["content", "value", "inner_value"] { if let Some(s) = f.get(k).and_then(|x| x.as_str()) { texts.push(s.to_string()); } } }
    if texts.iter().any(|t| max_names_at(&expv, t) >= 2) { tags.push("ref:longest-of-several-names".into()); }
    if texts.iter().any(|t| t.contains("@zz")) { tags.push("ref:unknown-name".into()); }
    // classes on which the pinned sequential algorithm differed from the property (fixed by df98c41)
    if expv.iter().any(|nv| nv.1.contains('@')) { tags.push("subst:value-contains-at".into()); }
    if expv.iter().any(|nv| expv.iter().any(|m| nv.1.contains(&format!("@{}", m.0)))) { tags.push("subst:value-contains-at-name".into()); }
    if texts.iter().any(|t| !subst_safe(&expv, t)) { tags.push("subst:outside-pinned-side-condition".into()); }
    if obs.matched && texts.iter().any(|t| pinned_subst(&expv, t) != ref_subst(&expv, t)) { tags.push("subst:pinned-algorithm-would-differ".into()); }
    if texts.iter().any(|t| { let ch: Vec<&str> = t.split('@').collect(); ch.len() > 2 && ch[1..ch.len() - 1].iter().any(|u| expv.iter().any(|nv| nv.0 == *u)) }) { tags.push("ref:adjacent".into()); }
    if texts.iter().any(|t| t.ends_with('@') || t.contains("@/")) { tags.push("ref:literal-at".into()); }
    if !r["header_filters"].as_array().map(|a| a.is_empty()).unwrap_or(true) { tags.push("out:header-filter".into()); }
    for f in r["body_filters"].as_array().map(|a| a.as_slice()).unwrap_or(&[]) { tags.push(if f.get("content").is_some() { "out:body-text".into() } else { "out:body-html".into() }); }
    match r["target"].as_str() { None => tags.push("target:none".into()), Some("") => tags.push("target:empty".into()), _ => {} }
    tags.push(if obs.matched { "matched".into() } else { "not-matched".into() });
    if obs.captured.iter().any(|(_, v)| v.contains('%')) { tags.push("captured:percent-encoded".into()); }
    if !rq["url"].as_str().unwrap_or("").is_ascii() || rq["headers"].as_array().map(|a| a.iter().any(|h| !h[1].as_str().unwrap_or("").is_ascii())).unwrap_or(false) { tags.push("non-ascii".into()); }
    if r["path"].as_str().unwrap_or("").chars().any(|c| "\\.+*?()|[]{}^$#&-~".contains(c)) { tags.push("template:regex-meta-literal".into()); }
    if !obs.oracle.is_empty() { tags.push("oracle:used".into()); }
    if let Some(p) = &panic_msg { tags.push("c07:panic".into()); tags.push(format!("panic:{}", p.chars().take(40).collect::<String>())); }
    for f in ["ihc", "ihdc", "ipqc"] { if flag(f) { tags.push(format!("flag:{}", f)); } }
    let substituted = obs.matched && texts.iter().any(|t| max_names_at(&expv, t) >= 1);
    let nontrivial = substituted || (!obs.matched && !input["how"]["rejected"].is_null());
    emit(id, &coq, input.clone(), &tags, nontrivial, json!({"panic": panic_msg, "match": obs.matched, "captured": obs.captured, "location": obs.location, "target": obs.target,
        "hvalues": obs.hvalues, "bvalues": obs.bvalues, "oracle": obs.oracle}));
}
