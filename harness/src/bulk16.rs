//! bulk16: bulk correspondence feed for C16 (child module of c16: it calls c16's own private driver `observe`,
//! the one `run_case` uses, so the program run on the real Tokenizer is literally the same).
//!
//!   rio-harness bulk16 --alphabet <name | hex,hex,...> --len <n> --shard <i>/<k>
//!                      [--ctx <context tag>] [--minlen <m>] [--random <N> --seed <S>]
//!
//! Enumerates ALL strings of <m>..=<n> symbols over the alphabet (a symbol is one or more bytes), in the order
//! "shorter first, then lexicographic in the symbol indices"; the case number j of that order belongs to the shard
//! j mod k.  With --random N the shard draws its share of N random strings of m..=n symbols instead (splitmix64 of
//! common.rs, seeded by S and the shard number).
//!
//! One line per case on stdout:   CASE \t OBSERVATION
//!   CASE          INPUTHEX;CTXHEX;TABLE      TABLE = K:V,K:V,... the to_lowercase oracle exactly as run_case computes
//!                                            it (lower_candidates on every tag token + the context tag), hex:hex
//!   OBSERVATION   TOK|TOK|...|Fend,ers,ere,ERRRAW,REST
//!                 TOK  = kind,rs,re,RAW,TEXT,NAME,ATTR+ATTR+...
//!                 TEXT = E | - | =HEX          NAME = E | -.b | =HEX.b          ATTR = E | K:V.b  (K, V = - | =HEX)
//!                 a panic of the crate:  !<message>
//! This is, byte for byte, what mlrun/main.ml prints for the model (tokrun) — `tokrun --check` compares the two.
//! A summary goes to stderr:  bulk16 shard=i/k cases=<n> panics=<p> lower_table_cases=<t> alphabet_lower=<..>
use super::{ascii_lower, kind_code, lower_candidates, observe, AttrRes, NameRes, Obs, TextRes, ALPHABET};
use crate::common::{catch, Rng};
use redirectionio::html::TokenType;
use std::collections::BTreeMap;
use std::io::Write;

const HEX: &[u8; 16] = b"0123456789abcdef";

fn hex(out: &mut Vec<u8>, b: &[u8]) {
    for x in b {
        out.push(HEX[(x >> 4) as usize]);
        out.push(HEX[(x & 15) as usize]);
    }
}
fn num(out: &mut Vec<u8>, n: usize) {
    out.extend_from_slice(n.to_string().as_bytes());
}
fn bit(out: &mut Vec<u8>, b: bool) {
    out.push(if b { b'1' } else { b'0' });
}
fn opt(out: &mut Vec<u8>, o: &Option<Vec<u8>>) {
    match o {
        None => out.push(b'-'),
        Some(s) => {
            out.push(b'=');
            hex(out, s);
        }
    }
}
fn r_text(out: &mut Vec<u8>, r: &TextRes) {
    match r {
        Err(()) => out.push(b'E'),
        Ok(o) => opt(out, o),
    }
}
fn r_name(out: &mut Vec<u8>, r: &NameRes) {
    match r {
        Err(()) => out.push(b'E'),
        Ok((o, m)) => {
            opt(out, o);
            out.push(b'.');
            bit(out, *m);
        }
    }
}
fn r_attr(out: &mut Vec<u8>, r: &AttrRes) {
    match r {
        Err(()) => out.push(b'E'),
        Ok((k, v, m)) => {
            opt(out, k);
            out.push(b':');
            opt(out, v);
            out.push(b'.');
            bit(out, *m);
        }
    }
}
fn r_obs(out: &mut Vec<u8>, o: &Obs) {
    for t in &o.toks {
        num(out, kind_code(t.kind) as usize);
        out.push(b',');
        num(out, t.rs);
        out.push(b',');
        num(out, t.re);
        out.push(b',');
        hex(out, &t.raw);
        out.push(b',');
        r_text(out, &t.text);
        out.push(b',');
        r_name(out, &t.name);
        out.push(b',');
        for (i, a) in t.attrs.iter().enumerate() {
            if i > 0 {
                out.push(b'+');
            }
            r_attr(out, a);
        }
        out.push(b'|');
    }
    out.push(b'F');
    num(out, o.end as usize);
    out.push(b',');
    num(out, o.ers);
    out.push(b',');
    num(out, o.ere);
    out.push(b',');
    hex(out, &o.err_raw);
    out.push(b',');
    hex(out, &o.rest);
}

struct Stats {
    cases: u64,
    panics: u64,
    table_cases: u64,
}

/// One case: the same steps as c16::run_case (observe under catch_unwind, to_lowercase table), other printer.
/// progress of the feeder, watched by a monitor thread: a case on which the tokenizer does not return stops the run
static PROGRESS: std::sync::atomic::AtomicU64 = std::sync::atomic::AtomicU64::new(0);
static CURRENT: std::sync::Mutex<Vec<u8>> = std::sync::Mutex::new(Vec::new());
pub fn start_monitor() {
    std::thread::spawn(|| {
        let mut last = u64::MAX;
        let mut stuck = 0;
        loop {
            std::thread::sleep(std::time::Duration::from_secs(5));
            let p = PROGRESS.load(std::sync::atomic::Ordering::Relaxed);
            if p == last { stuck += 1; } else { stuck = 0; last = p; }
            if stuck >= 4 {
                let cur = CURRENT.lock().map(|c| c.clone()).unwrap_or_default();
                let hexs: String = cur.iter().map(|b| format!("{:02x}", b)).collect();
                eprintln!("bulk16: HANG the tokenizer did not return within 20 s on input (hex) {}", hexs);
                std::process::exit(5);
            }
        }
    });
}

fn one(out: &mut Vec<u8>, bytes: &[u8], ctx: &str, st: &mut Stats) {
    st.cases += 1;
    if let Ok(mut c) = CURRENT.lock() { c.clear(); c.extend_from_slice(bytes); }
    PROGRESS.fetch_add(1, std::sync::atomic::Ordering::Relaxed);
    let b2 = bytes.to_vec();
    let c2 = ctx.to_string();
    let r = catch(move || observe(b2, c2));
    let mut table: BTreeMap<Vec<u8>, Vec<u8>> = BTreeMap::new();
    if let Ok(o) = &r {
        for t in &o.toks {
            match t.kind {
                TokenType::StartTagToken | TokenType::EndTagToken | TokenType::SelfClosingTagToken => lower_candidates(&t.raw, &mut table),
                _ => {}
            }
        }
    }
    if ctx.to_lowercase().as_bytes() != ascii_lower(ctx.as_bytes()).as_slice() {
        table.insert(ctx.as_bytes().to_vec(), ctx.to_lowercase().into_bytes());
    }
    if !table.is_empty() {
        st.table_cases += 1;
    }
    hex(out, bytes);
    out.push(b';');
    hex(out, ctx.as_bytes());
    out.push(b';');
    for (i, (k, v)) in table.iter().enumerate() {
        if i > 0 {
            out.push(b',');
        }
        hex(out, k);
        out.push(b':');
        hex(out, v);
    }
    out.push(b'\t');
    match &r {
        Ok(o) => r_obs(out, o),
        Err(msg) => {
            st.panics += 1;
            out.push(b'!');
            out.extend(msg.bytes().map(|c| if c == b'\n' || c == b'\t' || c == b'\r' { b' ' } else { c }));
        }
    }
    out.push(b'\n');
}

fn unhex(s: &str) -> Vec<u8> {
    let s = s.trim();
    if s.len() % 2 != 0 {
        eprintln!("bulk16: odd number of hex digits in '{}'", s);
        std::process::exit(2);
    }
    (0..s.len() / 2)
        .map(|i| {
            u8::from_str_radix(&s[2 * i..2 * i + 2], 16).unwrap_or_else(|_| {
                eprintln!("bulk16: bad hex '{}'", s);
                std::process::exit(2)
            })
        })
        .collect()
}

fn syms(xs: &[&[u8]]) -> Vec<Vec<u8>> {
    xs.iter().map(|x| x.to_vec()).collect()
}

/// Named alphabets, or a comma separated list of hex-encoded symbols ("3c,3e,c3a9").
pub fn alphabet(name: &str) -> Vec<Vec<u8>> {
    match name {
        // the 21 symbols of c16::gen_exhaustive
        "c16" => syms(ALPHABET),
        // tags, attributes (both quote styles through " only), comments, one upper-case letter (tag_name / tag_attr
        // lower-casing), one two-byte character
        "markup12" => syms(&[b"<", b">", b"/", b"!", b"-", b"=", b"\"", b" ", b"a", b"A", b"s", b"\xc3\xa9"]),
        // raw text with the shortest raw-text element name: "</xmp>" fits in 6 symbols (use with --ctx xmp)
        "xmp12" => syms(&[b"<", b">", b"/", b"!", b"-", b" ", b"x", b"m", b"p", b"X", b"P", b"a"]),
        // script data states (use with --ctx script)
        "script12" => syms(&[b"<", b">", b"/", b"!", b"-", b" ", b"s", b"c", b"r", b"i", b"p", b"t"]),
        other => other.split(',').map(unhex).collect(),
    }
}

/// True when String::to_lowercase provably is byte-wise ASCII lower-casing on every valid-UTF-8 substring of every
/// string over the alphabet: every symbol is valid UTF-8 (so a valid substring is a sequence of whole characters of
/// symbols), every character lower-cases to ASCII-lower of itself, and the one context-sensitive character of
/// to_lowercase (U+03A3, final sigma) does not occur.
pub fn lower_is_ascii(alpha: &[Vec<u8>]) -> bool {
    alpha.iter().all(|s| match std::str::from_utf8(s) {
        Err(_) => false,
        Ok(st) => st.chars().all(|c| {
            let mut buf = [0u8; 4];
            let enc = c.encode_utf8(&mut buf).as_bytes().to_vec();
            c != '\u{3a3}' && c.to_lowercase().collect::<String>().into_bytes() == ascii_lower(&enc)
        }),
    })
}

pub fn main(args: &[String]) {
    start_monitor();
    let mut alpha_name = "c16".to_string();
    let mut len: usize = 3;
    let mut minlen: usize = 0;
    let mut shard: (u64, u64) = (0, 1);
    let mut ctx = String::new();
    let mut random: Option<u64> = None;
    let mut seed: u64 = 1;
    let mut i = 0;
    let need = |i: usize| -> &String {
        args.get(i + 1).unwrap_or_else(|| {
            eprintln!("bulk16: missing value after {}", args[i]);
            std::process::exit(2)
        })
    };
    while i < args.len() {
        match args[i].as_str() {
            "--alphabet" => alpha_name = need(i).clone(),
            "--len" => len = need(i).parse().expect("--len"),
            "--minlen" => minlen = need(i).parse().expect("--minlen"),
            "--ctx" => ctx = need(i).clone(),
            "--random" => random = Some(need(i).parse().expect("--random")),
            "--seed" => seed = need(i).parse().expect("--seed"),
            "--shard" => {
                let v = need(i);
                let mut it = v.split('/');
                let a: u64 = it.next().and_then(|x| x.parse().ok()).expect("--shard i/k");
                let b: u64 = it.next().and_then(|x| x.parse().ok()).expect("--shard i/k");
                assert!(b > 0 && a < b, "--shard i/k with 0 <= i < k");
                shard = (a, b);
            }
            other => {
                eprintln!("bulk16: unknown argument {}", other);
                std::process::exit(2);
            }
        }
        i += 2;
    }
    let alpha = alphabet(&alpha_name);
    assert!(!alpha.is_empty() && alpha.iter().all(|s| !s.is_empty()), "empty alphabet or symbol");
    let stdout = std::io::stdout();
    let mut w = std::io::BufWriter::with_capacity(1 << 20, stdout.lock());
    let mut out: Vec<u8> = Vec::with_capacity(1 << 12);
    let mut st = Stats { cases: 0, panics: 0, table_cases: 0 };
    let mut flush = |out: &mut Vec<u8>| {
        if w.write_all(out).is_err() {
            eprintln!("bulk16: write error (consumer gone?)");
            std::process::exit(3);
        }
        out.clear();
    };
    let mut bytes: Vec<u8> = Vec::new();
    match random {
        None => {
            let mut j: u64 = 0; // case number in the global order
            for l in minlen..=len {
                let mut digits = vec![0usize; l];
                loop {
                    if j % shard.1 == shard.0 {
                        bytes.clear();
                        for d in &digits {
                            bytes.extend_from_slice(&alpha[*d]);
                        }
                        one(&mut out, &bytes, &ctx, &mut st);
                        if out.len() > (1 << 16) {
                            flush(&mut out);
                        }
                    }
                    j += 1;
                    // odometer, last digit fastest; a carry out of the first digit ends this length
                    let mut carry = true;
                    let mut p = l;
                    while carry && p > 0 {
                        p -= 1;
                        digits[p] += 1;
                        if digits[p] < alpha.len() {
                            carry = false;
                        } else {
                            digits[p] = 0;
                        }
                    }
                    if carry {
                        break;
                    }
                }
            }
        }
        Some(n) => {
            let mine = n / shard.1 + if shard.0 < n % shard.1 { 1 } else { 0 };
            let mut rng = Rng::new(seed.wrapping_mul(0x1000193) ^ (shard.0 << 32) ^ 0x16b);
            for _ in 0..mine {
                let l = minlen + rng.below(len.saturating_sub(minlen) + 1);
                bytes.clear();
                for _ in 0..l {
                    bytes.extend_from_slice(&alpha[rng.below(alpha.len())]);
                }
                one(&mut out, &bytes, &ctx, &mut st);
                if out.len() > (1 << 16) {
                    flush(&mut out);
                }
            }
        }
    }
    flush(&mut out);
    drop(flush);
    if w.flush().is_err() {
        eprintln!("bulk16: write error (consumer gone?)");
        std::process::exit(3);
    }
    eprintln!(
        "bulk16 shard={}/{} cases={} panics={} lower_table_cases={} alphabet_lower={}",
        shard.0,
        shard.1,
        st.cases,
        st.panics,
        st.table_cases,
        if lower_is_ascii(&alpha) && ctx.to_lowercase().as_bytes() == ascii_lower(ctx.as_bytes()).as_slice() { "ascii-exact" } else { "table" }
    );
}
