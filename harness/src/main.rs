//! Correspondence harness: drives the real crate (path dependency on /repo, rebuilt from the working
//! tree on every run) and prints one JSON line per case: the input and the implementation's
//! canonicalised observation, both also as a Coq term for the model side.
mod common;
mod alloc_audit;

#[global_allocator]
static GLOBAL: alloc_audit::Recorder = alloc_audit::Recorder;
mod c16;
mod c13;
mod c08;
mod c05;
mod c09;
mod c01;
mod c03;
mod c14;
mod c06;
mod c19;
mod c18;
mod c10;
mod c07;

fn main() {
    let args: Vec<String> = std::env::args().collect();
    if args.len() < 2 {
        eprintln!("usage: rio-harness <property> [--seed N] [--tier quick|thorough] [--replay file]");
        eprintln!("       rio-harness bulk03 --filters <spec> --alphabet <name|hex,hex,..> --len <n> --shard <i>/<k> [--ct type] [--cuts single|all|bytes] [--minlen m] [--random N --seed S]");
        eprintln!("       rio-harness bulk16 --alphabet <name|hex,hex,..> --len <n> --shard <i>/<k> [--ctx tag] [--minlen m] [--random N --seed S]");
        std::process::exit(2);
    }
    if args[1] == "bulk03" {
        // bulk feed for mlrun/bodyrun --check (see c03/bulk03.rs)
        std::panic::set_hook(Box::new(|_| {}));
        c03::bulk03::main(&args[2..]);
        return;
    }
    if args[1] == "bulk16" {
        // bulk feed for mlrun/tokrun --check (see c16/bulk16.rs); panics are observations here too
        std::panic::set_hook(Box::new(|_| {}));
        c16::bulk16::main(&args[2..]);
        return;
    }
    let mut seed: u64 = 1;
    let mut tier = "quick".to_string();
    let mut replay: Option<String> = None;
    let mut i = 2;
    while i < args.len() {
        match args[i].as_str() {
            "--seed" => { seed = args[i + 1].parse().unwrap_or(1); i += 2; }
            "--tier" => { tier = args[i + 1].clone(); i += 2; }
            "--replay" => { replay = Some(args[i + 1].clone()); i += 2; }
            _ => { i += 1; }
        }
    }
    // silence the default panic message: panics are observations here
    std::panic::set_hook(Box::new(|_| {}));
    let thorough = tier == "thorough";
    let prop = args[1].as_str();
    let inputs: Vec<serde_json::Value> = match replay {
        // a replay file holds one JSON value per line, or a single object with an "input" field
        Some(path) => {
            let text = std::fs::read_to_string(&path).expect("replay file");
            let mut v = Vec::new();
            if let Ok(j) = serde_json::from_str::<serde_json::Value>(&text) {
                if let Some(inp) = j.get("input") { v.push(inp.clone()); } else { v.push(j); }
            } else {
                for line in text.lines() {
                    if line.trim().is_empty() { continue; }
                    let j: serde_json::Value = serde_json::from_str(line).expect("replay json");
                    if let Some(inp) = j.get("input") { v.push(inp.clone()); } else { v.push(j); }
                }
            }
            v
        }
        None => generate(prop, seed, thorough),
    };
    crash_report::install();
    for (i, input) in inputs.iter().enumerate() {
        crash_report::set_current(input);
        run_case(prop, i, input);
    }
}

/// A crash of the process (SIGSEGV / SIGBUS / SIGABRT / SIGILL: invalid free, stack overflow, abort) names the input that
/// was being run: the handler writes "CRASHED-ON <signal> <input json>" to stderr with write(2) only, then lets the default
/// action kill the process.  tools/check.py turns that line into a violation with the input.
mod crash_report {
    use std::sync::atomic::{AtomicPtr, AtomicUsize, Ordering};
    static CUR: AtomicPtr<u8> = AtomicPtr::new(std::ptr::null_mut());
    static LEN: AtomicUsize = AtomicUsize::new(0);
    pub fn set_current(input: &serde_json::Value) {
        let mut s = serde_json::to_string(input).unwrap_or_default().into_bytes();
        s.push(b'\n');
        let b = s.into_boxed_slice();
        let len = b.len();
        let p = Box::into_raw(b) as *mut u8;
        let (op, ol) = (CUR.load(Ordering::SeqCst), LEN.load(Ordering::SeqCst));
        LEN.store(0, Ordering::SeqCst);
        CUR.store(p, Ordering::SeqCst);
        LEN.store(len, Ordering::SeqCst);
        if !op.is_null() { unsafe { drop(Box::from_raw(std::ptr::slice_from_raw_parts_mut(op, ol))) }; }
    }
    extern "C" fn on_signal(sig: libc::c_int) {
        unsafe {
            let head: &[u8] = match sig { libc::SIGSEGV => b"\nCRASHED-ON SIGSEGV ", libc::SIGBUS => b"\nCRASHED-ON SIGBUS ", libc::SIGABRT => b"\nCRASHED-ON SIGABRT ", _ => b"\nCRASHED-ON SIGNAL " };
            libc::write(2, head.as_ptr() as *const libc::c_void, head.len());
            let (p, l) = (CUR.load(Ordering::SeqCst), LEN.load(Ordering::SeqCst));
            if !p.is_null() && l > 0 { libc::write(2, p as *const libc::c_void, l); }
            libc::signal(sig, libc::SIG_DFL);
            libc::raise(sig);
        }
    }
    pub fn install() {
        unsafe {
            // an alternate stack, so that a stack overflow can still be reported
            let size = 1 << 16;
            let stack = Box::leak(vec![0u8; size].into_boxed_slice());
            let ss = libc::stack_t { ss_sp: stack.as_mut_ptr() as *mut libc::c_void, ss_flags: 0, ss_size: size };
            libc::sigaltstack(&ss, std::ptr::null_mut());
            for sig in [libc::SIGSEGV, libc::SIGBUS, libc::SIGABRT, libc::SIGILL] {
                let mut sa: libc::sigaction = std::mem::zeroed();
                sa.sa_sigaction = on_signal as usize;
                sa.sa_flags = libc::SA_ONSTACK | libc::SA_NODEFER;
                libc::sigemptyset(&mut sa.sa_mask);
                libc::sigaction(sig, &sa, std::ptr::null_mut());
            }
        }
    }
}

fn generate(prop: &str, seed: u64, thorough: bool) -> Vec<serde_json::Value> {
    match prop {
        "C13" => c13::generate(seed, thorough),
        "C16" => c16::generate(seed, thorough),
        "C08" => c08::generate(seed, thorough),
        "C05" => c05::generate(seed, thorough),
        "C09" => c09::generate(seed, thorough),
        "C11" => c05::generate_c11(seed, thorough),
        "C01" | "C02" | "C17" => c01::generate(prop, seed, thorough),
        "C03" | "C04" | "C15" => c03::generate(prop, seed, thorough),
        "C12" => c08::generate_c12(seed, thorough),
        "C14" => c14::generate(seed, thorough),
        "C06" => c06::generate(seed, thorough),
        "C19" => c19::generate(seed, thorough),
        "C18" => c18::generate(seed, thorough),
        "C10" => c10::generate(seed, thorough),
        "C07" => c07::generate(seed, thorough),
        other => { eprintln!("unknown property {}", other); std::process::exit(2); }
    }
}

fn run_case(prop: &str, id: usize, input: &serde_json::Value) {
    match prop {
        "C13" => c13::run_case(id, input),
        "C16" => c16::run_case(id, input),
        "C08" | "C12" => c08::run_case(id, input),
        "C05" | "C11" => c05::run_case(id, input),
        "C09" => c09::run_case(id, input),
        "C01" | "C02" | "C17" => c01::run_case(id, input),
        "C03" | "C04" | "C15" => c03::run_case(id, input),
        "C14" => c14::run_case(id, input),
        "C06" => c06::run_case(id, input),
        "C19" => c19::run_case(id, input),
        "C18" => c18::run_case(id, input),
        "C10" => c10::run_case(id, input),
        "C07" => c07::run_case(id, input),
        other => { eprintln!("unknown property {}", other); std::process::exit(2); }
    }
}
