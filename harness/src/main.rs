//! Correspondence harness: drives the real crate (path dependency on /repo, rebuilt from the working
//! tree on every run) and prints one JSON line per case: the input and the implementation's
//! canonicalised observation, both also as a Coq term for the model side.
mod common;
mod alloc_audit;

#[global_allocator]
static GLOBAL: alloc_audit::Recorder = alloc_audit::Recorder;
mod c16;
mod c13;
mod c08;
mod c05;
mod c09;
mod c01;
mod c03;
mod c14;
mod c06;
mod c19;
mod c18;
mod c10;
mod c07;

fn main() {
    let args: Vec<String> = std::env::args().collect();
    if args.len() < 2 {
        eprintln!("usage: rio-harness <property> [--seed N] [--tier quick|thorough] [--replay file]");
        eprintln!("       rio-harness bulk03 --filters <spec> --alphabet <name|hex,hex,..> --len <n> --shard <i>/<k> [--ct type] [--cuts single|all|bytes] [--minlen m] [--random N --seed S]");
        eprintln!("       rio-harness bulk16 --alphabet <name|hex,hex,..> --len <n> --shard <i>/<k> [--ctx tag] [--minlen m] [--random N --seed S]");
        std::process::exit(2);
    }
    if args[1] == "bulk03" {
        // bulk feed for mlrun/bodyrun --check (see c03/bulk03.rs)
        std::panic::set_hook(Box::new(|_| {}));
        c03::bulk03::main(&args[2..]);
        return;
    }
    if args[1] == "bulk16" {
        // bulk feed for mlrun/tokrun --check (see c16/bulk16.rs); panics are observations here too
        std::panic::set_hook(Box::new(|_| {}));
        c16::bulk16::main(&args[2..]);
        return;
    }
    let mut seed: u64 = 1;
    let mut tier = "quick".to_string();
    let mut replay: Option<String> = None;
    let mut i = 2;
    while i < args.len() {
        match args[i].as_str() {
            "--seed" => { seed = args[i + 1].parse().unwrap_or(1); i += 2; }
            "--tier" => { tier = args[i + 1].clone(); i += 2; }
            "--replay" => { replay = Some(args[i + 1].clone()); i += 2; }
            _ => { i += 1; }
        }
    }
    // silence the default panic message: panics are observations here
    std::panic::set_hook(Box::new(|_| {}));
    let thorough = tier == "thorough";
    let prop = args[1].as_str();
    let inputs: Vec<serde_json::Value> = match replay {
        // a replay file holds one JSON value per line, or a single object with an "input" field
        Some(path) => {
            let text = std::fs::read_to_string(&path).expect("replay file");
            let mut v = Vec::new();
            if let Ok(j) = serde_json::from_str::<serde_json::Value>(&text) {
                if let Some(inp) = j.get("input") { v.push(inp.clone()); } else { v.push(j); }
            } else {
                for line in text.lines() {
                    if line.trim().is_empty() { continue; }
                    let j: serde_json::Value = serde_json::from_str(line).expect("replay json");
                    if let Some(inp) = j.get("input") { v.push(inp.clone()); } else { v.push(j); }
                }
            }
            v
        }
        None => generate(prop, seed, thorough),
    };
    for (i, input) in inputs.iter().enumerate() {
        run_case(prop, i, input);
    }
}

fn generate(prop: &str, seed: u64, thorough: bool) -> Vec<serde_json::Value> {
    match prop {
        "C13" => c13::generate(seed, thorough),
        "C16" => c16::generate(seed, thorough),
        "C08" => c08::generate(seed, thorough),
        "C05" => c05::generate(seed, thorough),
        "C09" => c09::generate(seed, thorough),
        "C11" => c05::generate_c11(seed, thorough),
        "C01" | "C02" | "C17" => c01::generate(prop, seed, thorough),
        "C03" | "C04" | "C15" => c03::generate(prop, seed, thorough),
        "C12" => c08::generate_c12(seed, thorough),
        "C14" => c14::generate(seed, thorough),
        "C06" => c06::generate(seed, thorough),
        "C19" => c19::generate(seed, thorough),
        "C18" => c18::generate(seed, thorough),
        "C10" => c10::generate(seed, thorough),
        "C07" => c07::generate(seed, thorough),
        other => { eprintln!("unknown property {}", other); std::process::exit(2); }
    }
}

fn run_case(prop: &str, id: usize, input: &serde_json::Value) {
    match prop {
        "C13" => c13::run_case(id, input),
        "C16" => c16::run_case(id, input),
        "C08" | "C12" => c08::run_case(id, input),
        "C05" | "C11" => c05::run_case(id, input),
        "C09" => c09::run_case(id, input),
        "C01" | "C02" | "C17" => c01::run_case(id, input),
        "C03" | "C04" | "C15" => c03::run_case(id, input),
        "C14" => c14::run_case(id, input),
        "C06" => c06::run_case(id, input),
        "C19" => c19::run_case(id, input),
        "C18" => c18::run_case(id, input),
        "C10" => c10::run_case(id, input),
        "C07" => c07::run_case(id, input),
        other => { eprintln!("unknown property {}", other); std::process::exit(2); }
    }
}
