//! C07: no input makes the library panic.  SEARCH (testing, not proof): grammar-generated then mutated inputs through
//! every public entry point of the crate, each case in a watched thread under catch_unwind.
//!
//! Input: {"fam": <family>, ...family specific, all documents carried as JSON TEXT (strings) so that text-level
//! mutations (byte flips, truncation, duplicated members) survive the replay file}.
//! Output per case: the Coq record of RIO.C07Run.case07 (family, optional Slice model input, panicked, timed out),
//! tags "ep:<entry point>" for every entry point the case went through (the evidence shows the distribution),
//! "panic-at:<entry point>" for the last one entered before a panic.
//!
//! A stack overflow / abort cannot be caught: the process dies; the input in flight is in
//! $VERIF_C07_INFLIGHT (default /verif/build/cases/C07_inflight.json) and the driver reports harness-run.
//!
//! extern "C" entry points are NOT called here (C18 owns the FFI harness).  Hook: FFI_ENTRY_TAGS lists the tags under
//! which C18's documented-null cases are to be counted for C07; `ffi_entry_tag` maps a function name to its tag.
use crate::common::*;
use redirectionio::action::{Action, TraceAction, UnitTrace};
use redirectionio::api::*;
use redirectionio::filter::{FilterBodyAction, FilterHeaderAction};
use redirectionio::html;
use redirectionio::http::{Addr, PathAndQueryWithSkipped, Request};
use redirectionio::marker::{Marker as RouteMarker, MarkerString, StaticOrDynamic, Transform};
use redirectionio::regex_radix_tree::{RegexTreeMap, UniqueRegexTreeMap};
use redirectionio::router::{IntoRoute, RouteDateTime, RouteTime, RouteWeekday, Router, Trace};
use redirectionio::RouterConfig;
use serde_json::{json, Map, Value};
use std::collections::{HashMap, HashSet};
use std::io::Write;
use std::str::FromStr;
use std::sync::{Arc, Mutex};

type HttpHeader = redirectionio::http::Header;

/// Tags reserved for the extern "C" layer (exercised by harness/src/c18.rs; counted under C07 by tag).
#[allow(dead_code)]
pub const FFI_ENTRY_TAGS: &[&str] = &[
    "ep:ffi:redirectionio_action_json_deserialize", "ep:ffi:redirectionio_action_json_serialize", "ep:ffi:redirectionio_action_drop",
    "ep:ffi:redirectionio_action_get_status_code", "ep:ffi:redirectionio_action_header_filter_filter", "ep:ffi:redirectionio_action_body_filter_create",
    "ep:ffi:redirectionio_action_body_filter_filter", "ep:ffi:redirectionio_action_body_filter_close", "ep:ffi:redirectionio_action_body_filter_drop",
    "ep:ffi:redirectionio_action_should_log_request", "ep:ffi:redirectionio_api_create_log_in_json", "ep:ffi:redirectionio_api_buffer_drop",
    "ep:ffi:redirectionio_request_json_deserialize", "ep:ffi:redirectionio_request_json_serialize", "ep:ffi:redirectionio_request_create",
    "ep:ffi:redirectionio_request_from_str", "ep:ffi:redirectionio_request_set_remote_addr", "ep:ffi:redirectionio_request_drop",
    "ep:ffi:redirectionio_trusted_proxies_create", "ep:ffi:redirectionio_trusted_proxies_add_proxy", "ep:ffi:redirectionio_trusted_proxies_drop",
    "ep:ffi:redirectionio_log_init_stderr", "ep:ffi:redirectionio_log_init_with_callback",
];
#[allow(dead_code)]
pub fn ffi_entry_tag(function: &str) -> String { format!("ep:ffi:{}", function) }

pub const FAMILIES: &[&str] = &["pipeline", "analysis", "body", "tokenizer", "request", "transform", "serde", "log", "tree", "changeset"];
fn family_code(f: &str) -> usize { FAMILIES.iter().position(|x| *x == f).map(|i| i + 1).unwrap_or(0) }

/// the shared PRNG (common::Rng, seeded by --seed) behind a RefCell, so that generator expressions can nest
pub struct R(std::cell::RefCell<Rng>, std::cell::Cell<bool>);
impl R {
    pub fn new(seed: u64) -> Self { R(std::cell::RefCell::new(Rng::new(seed)), std::cell::Cell::new(false)) }
    /// sane mode: values are drawn from the well-formed head of each pool (so that rules compile and requests match)
    fn sane(&self) -> bool { self.1.get() }
    fn set_sane(&self, b: bool) { self.1.set(b) }
    fn below(&self, n: usize) -> usize { self.0.borrow_mut().below(n) }
    fn chance(&self, num: usize, den: usize) -> bool { self.0.borrow_mut().chance(num, den) }
    fn pick<'a, T>(&self, xs: &'a [T]) -> &'a T { let i = self.below(xs.len()); &xs[i] }
    fn ps<'a>(&self, xs: &[&'a str]) -> &'a str { xs[self.below(xs.len())] }
    fn fork(&self) -> R { R(std::cell::RefCell::new(self.0.borrow_mut().fork()), std::cell::Cell::new(false)) }
}

// ------------------------------------------------------------------------------------------------ entry-point log
#[derive(Clone, Default)]
struct Ep(Arc<Mutex<Vec<&'static str>>>);
impl Ep {
    fn at(&self, name: &'static str) { if let Ok(mut v) = self.0.lock() { v.push(name); } }
    fn all(&self) -> Vec<&'static str> { self.0.lock().map(|v| v.clone()).unwrap_or_default() }
}

#[derive(Default)]
struct Obs { deep: bool, slice: Option<(u64, Option<u64>, String, String)>, notes: Vec<String> }

// ------------------------------------------------------------------------------------------------ byte / string helpers
fn hex(b: &[u8]) -> String { let mut s = String::with_capacity(b.len() * 2); for x in b { s.push_str(&format!("{:02x}", x)); } s }
fn unhex(s: &str) -> Vec<u8> { let b = s.as_bytes(); let mut out = Vec::new(); let mut i = 0; while i + 1 < b.len() { if let Ok(x) = u8::from_str_radix(&s[i..i + 2], 16) { out.push(x); } i += 2; } out }
/// bytes in a case: a JSON string (its UTF-8) or {"hex": ".."}
fn bytes_val(b: &[u8]) -> Value { match std::str::from_utf8(b) { Ok(s) => json!(s), Err(_) => json!({"hex": hex(b)}) } }
fn bytes_of(v: &Value) -> Vec<u8> { if let Some(s) = v.as_str() { s.as_bytes().to_vec() } else if let Some(h) = v.get("hex").and_then(|h| h.as_str()) { unhex(h) } else { Vec::new() } }
fn str_of(v: &Value) -> String { match v { Value::String(s) => s.clone(), Value::Null => String::new(), other => String::from_utf8_lossy(&bytes_of(other)).into_owned() } }
fn opt_str(v: &Value) -> Option<String> { if v.is_null() { None } else { Some(str_of(v)) } }

// ------------------------------------------------------------------------------------------------ value pools
const STRS: &[&str] = &["", "a", "A", "ab", "é", "É", "😀", "İ", "ß", "ǅ", "\u{0}", "\n", "\r\n", "\t", " ", "%", "%zz", "%C3", "%C3%A9", "%00", "@", "@a", "@@", "../", "?", "#", "//", "[", "]", "(", ")", "\\", "\"", "'", "\u{2028}", "\u{feff}", "\u{fffd}", "\u{7f}", "a b", "a+b", "<", ">", "</script>", "{", "}", "$", "^", "|", "*", "+", ".", "-1", "0", "18446744073709551616", "null", "true", "\u{202e}x", "\u{1}\u{2}"];
const PATHS: &[&str] = &["/", "/a", "/a/b", "/é", "/a b", "/%C3%A9", "/a?x=1", "/a?b=2&a=1", "/a?utm_source=x&b=1", "/A/b", "/a?", "/?=", "/a?&&", "/a#f", "/@id", "/a/@id/b", "/@a@ab", "/@id.html", "/x/@year-@month", "", "*", "a", "//a", "/a//b", "/a/../b", "/`", "/a?x=%zz", "/a?x=%FF", "/%", "/\u{0}", "/a\nb", "/a?é=é", "/A", "/a?X=1", "http://example.org/a", "/(", "/[a", "/a.b", "/a+", "/a{2}"];
const HOSTS: &[&str] = &["example.org", "Example.ORG", "www.example.org", "@sub.example.org", "é.org", "xn--9ca.org", "", " ", "example.org:8080", "[::1]", "a..b", "@", "@a@b", "localhost", "*.example.org", "exa mple.org"];
const METHODS: &[&str] = &["GET", "POST", "PUT", "get", "", "DELETE", "PATCH", "G E T", "é", "OPTIONS"];
const SCHEMES: &[&str] = &["http", "https", "HTTP", "", "ws", "é"];
const IPS: &[&str] = &["10.0.0.0/8", "192.168.1.0/24", "::/0", "1.2.3.4", "2001:db8::/32", "0.0.0.0/0", "10.0.0.1/32", "", "10.0.0.0/33", "abc", "1.2.3.4/-1", "::1/129", "10.0.0.1/8", "1.2.3", " 10.0.0.0/8", "10.0.0.0/8 ", "::ffff:10.0.0.1/104", "1.2.3.4/", "/8", "256.0.0.0/8", "any", "é"];
const ADDRS: &[&str] = &["10.0.0.1", "192.168.1.7", "::1", "2001:db8::1", "::ffff:10.0.0.1", "1.2.3.4:80", "[::1]:8080", "", "abc", "1.2.3", "1.2.3.4.5", "256.1.1.1", " 1.2.3.4", "1.2.3.4\u{0}", "\u{0}", "é", "0.0.0.0", "255.255.255.255", "[::1", "fe80::1%eth0"];
const DATETIMES: &[&str] = &["2024-06-01T12:00:00Z", "2020-01-01T00:00:00+02:00", "1969-12-31T23:59:59Z", "2024-02-29T00:00:00Z", "2024-02-30T00:00:00Z", "9999-12-31T23:59:59Z", "+262142-12-31T23:59:59Z", "+262143-12-31T23:59:59Z", "-262143-01-01T00:00:00Z", "-262144-01-01T00:00:00Z", "2024-01-01T00:00:60Z", "2024-01-01 00:00:00", "0000-01-01T00:00:00+23:59", "2024-06-01T12:00:00.999999999Z", "2024-06-01T12:00:00.9999999999Z", "", "x", "2024", "2024-06-01", "2024-06-01T25:00:00Z", "2024-06-01T12:00:00", "2024-06-01T12:00:00+99:99", "0", "é", "2024-06-01T12:00:00Z "];
const TIMES: &[&str] = &["12:00", "12:00:00", "00:00:00", "23:59:59", "23:59:60", "24:00:00", "", "x", "12", "12:60", "12:00:00.5", "-1:00", "12:00:00Z", "é", " 12:00"];
const WEEKDAYS: &[&str] = &["monday", "Mon", "MON", "tue", "wednesday", "thu", "fri", "sat", "sunday", "", "funday", "sunday ", "1", "é", "mo"];
const REGEXES: &[&str] = &["[0-9]+", "([0-9]+)", ".*", ".+?", "(?:.+?)", "(a|b)", "(cat|dog)", "[a-z]+", "([\\p{Ll}])+?", "([\\p{Ll}]|\\-)+?", "[0-9a-f]{8}", "a{2,3}", "[a-z]+(?P<ext>\\.html)?", "(?:x(?P<alt>y)|[0-9]+)", "é+", "(caf\u{e9}|x)", "", "(", ")", "[", "]", "a{99999}", "a{1000}{1000}", "(?P<n>", "(?P<id>x)", "(?P<a>.)(?P<a>.)", "\\", "*", "+", "?", "(?i)a", "(?<a>x)", "a**", "((((((((((x))))))))))", "\\p{Foo}", "\\d+", "\\b", "^a$", "$", "^", "a|", "|", "(?s).", "(?-u:\\xff)", "\\x{110000}", "[z-a]", "(?#c)", "@id", "@", "x{0}", "(?:)", "(()|())*", "\\pL", "[[:alpha:]]", "(?x) a b"];
const NAMES: &[&str] = &["id", "a", "ab", "abc", "b", "year", "month", "idx", "", "a.b", "a[0]", "é", "1", "a-b", "@", "a b", "_x", "ID", "sub", "n"];
const HEADER_NAMES: &[&str] = &["X-A", "x-a", "X-B", "Location", "location", "Content-Type", "Content-Encoding", "User-Agent", "Referer", "X-Forwarded-For", "Forwarded", "Host", "", " ", "é", "X A", "x:y", "\u{0}", "Set-Cookie"];
const HEADER_KINDS: &[&str] = &["is_defined", "is_not_defined", "is_equals", "is_not_equal_to", "contains", "does_not_contain", "ends_with", "starts_with", "match_regex", "bogus", ""];
const HF_ACTIONS: &[&str] = &["add", "remove", "replace", "override", "default", "bogus", ""];
const CODES: &[u64] = &[0, 1, 200, 301, 302, 307, 308, 404, 410, 500, 65535];
const SELECTORS: &[&str] = &["", "em", "p", "em.mark", "*", "p >", "::", ":nth-child(999999999999)", "a[", "a[href]", "div p em", "#id", ".c", ":not(p)", "p:first-child", "é", ",", "p,", ":nth-child(2n+1)", ":is(p, em)", "\u{0}", "p > > p", "a[b=\"", "[", ":root", ":has(p)"];
const ELEMENTS: &[&str] = &["html", "body", "head", "p", "div", "main", "script", "title", "br", "", "HTML", "é", "x-y"];
const TF_KINDS: &[&str] = &["camelize", "dasherize", "lowercase", "replace", "slice", "underscorize", "uppercase", "bogus", ""];
const NUMS: &[&str] = &["0", "1", "2", "3", "5", "99", "-1", "+1", "", "x", "18446744073709551615", "18446744073709551616", " 1", "1 ", "１", "0x1", "1e3", "01"];
const URLS: &[&str] = &["/a", "/b", "/a?x=1", "https://example.org/a", "http://other.net/b", "mailto:x@y", "javascript:alert(1)", "data:,x", "http://[::1", "//x", "//example.org/a", "", "*", "http://é.org/", "/a b", "https://example.org:99999/", "http://example.org", "http://user:pw@example.org/a", "file:///etc/passwd", "http://example.org/a#f", "?x", "#f", "a", "../a", "http://", "http:/a", "urn:x", "HTTP://EXAMPLE.ORG/A", "http://example.org/\u{0}", "http://example.org/a\nb", "/\u{e9}", "tel:+1", "http://example.org./a", "ht tp://x"];

fn pick_s(rng: &R, pool: &[&str]) -> String { rng.pick(pool).to_string() }

/// an adversarial string: pool, concatenations, repeats, very long
fn gen_string(rng: &R) -> String {
    match rng.below(12) {
        0..=5 => pick_s(rng, STRS),
        6 | 7 => { let mut s = String::new(); for _ in 0..(1 + rng.below(4)) { s.push_str(rng.ps(STRS)); } s }
        8 => { let u = *rng.pick(&["a", "é", "/a", "%41", "@", "(", "😀", "a=b&"]); u.repeat(1 + rng.below(40)) }
        9 => { let u = *rng.pick(&["a", "é", "x/", "&a=1"]); u.repeat(*rng.pick(&[256usize, 1000, 5000, 20000])) }
        10 => (0..rng.below(12)).map(|_| char::from_u32(rng.below(0x250) as u32).unwrap_or('x')).collect(),
        _ => (0..rng.below(8)).map(|_| *rng.pick(&['a', 'Z', '0', '/', '?', '&', '=', '%', '@', '.', '-', '_', ' ', 'é', '\u{0}', '<', '>', '"'])).collect(),
    }
}
fn maybe(rng: &R, num: usize, den: usize, v: Value) -> Value { if rng.chance(num, den) { v } else { Value::Null } }
fn pool_or_wild(rng: &R, pool: &[&str]) -> String {
    if rng.sane() { let k = head(pool); return pool[rng.below(k.min(pool.len()).max(1))].to_string(); }
    if rng.chance(1, 8) { gen_string(rng) } else { pick_s(rng, pool) }
}
/// number of leading well-formed entries of the pools that have such a head
fn head(pool: &[&str]) -> usize {
    let p = pool.as_ptr();
    if p == PATHS.as_ptr() { 10 } else if p == HOSTS.as_ptr() { 3 } else if p == REGEXES.as_ptr() { 15 } else if p == DATETIMES.as_ptr() { 4 } else if p == TIMES.as_ptr() { 4 }
    else if p == WEEKDAYS.as_ptr() { 9 } else if p == IPS.as_ptr() { 7 } else if p == ADDRS.as_ptr() { 5 } else if p == URLS.as_ptr() { 5 } else if p == SELECTORS.as_ptr() { 4 } else { pool.len() }
}
fn sample_for(regex: &str) -> &'static str {
    match regex { "[0-9]+" => "12", "([0-9]+)" => "7", ".*" => "x/y", ".+?" => "abc", "(?:.+?)" => "q", "(a|b)" => "a", "(cat|dog)" => "dog", "[a-z]+" => "abc", "([\\p{Ll}])+?" => "é",
                  "([\\p{Ll}]|\\-)+?" => "a-b", "[0-9a-f]{8}" => "deadbeef", "a{2,3}" => "aa",
                  // named groups INSIDE a marker which a successful match can skip (the samples take the branch without them)
                  "[a-z]+(?P<ext>\\.html)?" => "abc", "(?:x(?P<alt>y)|[0-9]+)" => "12", _ => "12" }
}

fn gen_bytes(rng: &R) -> Vec<u8> {
    match rng.below(6) {
        0 => (0..rng.below(64)).map(|_| rng.below(256) as u8).collect(),
        1 => { let mut b = gen_html(rng).into_bytes(); for _ in 0..(1 + rng.below(4)) { if b.is_empty() { break; } let i = rng.below(b.len()); b[i] = rng.below(256) as u8; } b }
        2 => { let mut b = gen_html(rng).into_bytes(); let k = rng.below(b.len() + 1); b.truncate(k); b }
        3 => { let mut b = Vec::new(); for _ in 0..(1 + rng.below(6)) { b.extend_from_slice(*rng.pick(&[&b"\xc3"[..], b"\xe2\x82", b"\xf0\x9f\x98", b"\xed\xa0\x80", b"\xc0\x80", b"\xf4\x90\x80\x80", b"\xff", b"\xfe", b"<p>", b"</p>", b"\x00", b"a"])); } b }
        _ => gen_html(rng).into_bytes(),
    }
}

const HTML_FRAGS: &[&str] = &["<!DOCTYPE html>", "<html>", "</html>", "<head>", "</head>", "<body>", "</body>", "<p>", "</p>", "<div class=\"c\">", "</div>", "<main>", "</main>", "<br>", "<br/>", "<img src=x>", "text", "é€😀", "&amp;", "<!-- c -->", "<!--", "-->", "<script>", "</script>", "<script>if (a<b) x=\"</p>\";</script>", "<script><!--<script></script>", "<style>p{}</style>", "<title>", "</title>", "<textarea>", "<![CDATA[x]]>", "<", ">", "</", "<a b=\"c\" d='e' f=g h>", "<a b=\">\">", "<P>", "</P>", "<p/>", "<p", "<p a=", "<p a=\"", "</p", "<!", "<?x?>", "\u{0}", "\n", " ", "<em class=\"mark\">m</em>", "<xmp>", "<plaintext>", "<iframe>", "<noscript>", "</x-y>", "<x-y>", "<É>"];
fn gen_html(rng: &R) -> String {
    let mut s = String::new();
    if rng.chance(1, 2) { s.push_str("<!DOCTYPE html><html><head></head><body>"); }
    for _ in 0..rng.below(14) { s.push_str(rng.ps(HTML_FRAGS)); }
    if rng.chance(1, 2) { s.push_str("</body></html>"); }
    if rng.chance(1, 12) { let k = *rng.pick(&[500usize, 3000, 20000]); s.push_str(&(*rng.pick(&["a", "<p>x</p>", "<script>a", "<!--", "<div>", "</div>", "<a b=c "])).repeat(k / 4)); }
    s
}

// ------------------------------------------------------------------------------------------------ grammar: rule sets
fn gen_transformer(rng: &R) -> Value {
    let kind: Value = match rng.below(12) { 0 => Value::Null, 1 => json!(gen_string(rng)), _ => json!(pick_s(rng, TF_KINDS)) };
    let options: Value = match rng.below(8) {
        0 => Value::Null,
        1 => json!({}),
        2 | 3 => json!({"from": pick_s(rng, NUMS), "to": pick_s(rng, NUMS)}),
        4 => json!({"from": pick_s(rng, NUMS)}),
        5 => json!({"something": pool_or_wild(rng, STRS), "with": pool_or_wild(rng, STRS)}),
        6 => json!({"something": "", "with": pool_or_wild(rng, STRS)}),
        _ => json!({"from": pick_s(rng, NUMS), "to": pick_s(rng, NUMS), "something": pick_s(rng, STRS), "with": pick_s(rng, STRS), "x": "y"}),
    };
    json!({"type": kind, "options": options})
}
fn gen_transformers(rng: &R) -> Value { let n = rng.below(4); json!((0..n).map(|_| gen_transformer(rng)).collect::<Vec<_>>()) }

fn gen_marker(rng: &R, name: &str) -> Value {
    let mut m = json!({"name": name, "regex": pool_or_wild(rng, REGEXES)});
    if rng.chance(3, 4) { m["transformers"] = gen_transformers(rng); }
    m
}
fn gen_variable(rng: &R, names: &[String]) -> Value {
    let some_name = if names.is_empty() || rng.chance(1, 5) { pick_s(rng, NAMES) } else { rng.pick(names).clone() };
    let kind: Value = match rng.below(11) {
        0 => json!("request_host"), 1 => json!("request_method"), 2 => json!("request_path"), 3 => json!("request_remote_address"),
        4 => json!("request_scheme"), 5 => json!("request_time"),
        6 | 7 => json!({"marker": some_name.clone()}),
        8 => json!({"request_header": {"name": pick_s(rng, HEADER_NAMES), "default": maybe(rng, 1, 2, json!(gen_string(rng)))}}),
        9 => json!({"request_header": {"name": gen_string(rng), "default": Value::Null}}),
        _ => json!("bogus"),
    };
    json!({"name": if rng.chance(1, 2) { some_name } else { pick_s(rng, NAMES) }, "type": kind, "transformers": gen_transformers(rng)})
}
fn gen_header_cond(rng: &R, names: &[String]) -> Value {
    let kind = pick_s(rng, HEADER_KINDS);
    let value: Value = match rng.below(6) {
        0 => Value::Null,
        1 | 2 if kind == "match_regex" && !names.is_empty() => json!(format!("{}@{}{}", rng.pick(&["", "id=", "(", "^"]), rng.pick(names), rng.pick(&["", "$", ";x", ")"]))),
        3 => json!(pick_s(rng, REGEXES)),
        _ => json!(gen_string(rng)),
    };
    json!({"type": kind, "name": pick_s(rng, HEADER_NAMES), "value": value})
}
fn gen_dt_constraints(rng: &R, pool: &[&str]) -> Value {
    let n = 1 + rng.below(3);
    json!((0..n).map(|_| json!([maybe(rng, 3, 4, json!(pool_or_wild(rng, pool))), maybe(rng, 3, 4, json!(pool_or_wild(rng, pool)))])).collect::<Vec<_>>())
}
pub fn gen_example(rng: &R) -> Value {
    let mut e = json!({
        "url": pool_or_wild(rng, URLS),
        "method": maybe(rng, 1, 2, json!(pick_s(rng, METHODS))),
        "headers": maybe(rng, 1, 3, json!((0..rng.below(3)).map(|_| json!({"name": pick_s(rng, HEADER_NAMES), "value": gen_string(rng)})).collect::<Vec<_>>())),
        "ip_address": maybe(rng, 1, 2, json!(pool_or_wild(rng, ADDRS))),
        "response_status_code": maybe(rng, 1, 2, json!(*rng.pick(CODES))),
        "must_match": rng.chance(1, 2),
        "unit_ids_applied": maybe(rng, 3, 4, json!((0..rng.below(3)).map(|_| pick_s(rng, &["u1", "u2", "u3", ""])).collect::<Vec<_>>())),
    });
    if rng.chance(1, 2) { e["datetime"] = json!(pool_or_wild(rng, DATETIMES)); }
    e
}
fn gen_body_filter(rng: &R) -> Value {
    if rng.chance(1, 3) {
        json!({"action": pick_s(rng, &["append_text", "prepend_text", "replace_text"]), "content": pool_or_wild(rng, &["[X]", "", "é", "@id", "<b>"]), "id": maybe(rng, 1, 2, json!("u1")), "target_hash": maybe(rng, 1, 2, json!("h"))})
    } else {
        let n = match rng.below(8) { 0 => 0, k => 1 + k % 4 };
        let tree: Vec<String> = if rng.chance(3, 4) { ["html", "body", "main", "div"].iter().take(n).map(|s| s.to_string()).collect() } else { (0..n).map(|_| pick_s(rng, ELEMENTS)).collect() };
        json!({"action": pick_s(rng, &["append_child", "prepend_child", "replace", "append_text", "bogus", ""]), "value": pool_or_wild(rng, &["<i>V</i>", "", "é\"<b>", "@id", "<p>", "</body>", "<script>"]),
               "inner_value": maybe(rng, 1, 3, json!(gen_string(rng))), "element_tree": tree, "css_selector": maybe(rng, 2, 3, json!(pool_or_wild(rng, SELECTORS))),
               "id": maybe(rng, 1, 2, json!("u2")), "target_hash": maybe(rng, 1, 2, json!("h2"))})
    }
}
fn gen_header_filter(rng: &R) -> Value {
    json!({"action": pick_s(rng, HF_ACTIONS), "header": pick_s(rng, HEADER_NAMES), "value": pool_or_wild(rng, &["v", "", "/t", "@id", "é", "a\r\nb"]), "id": maybe(rng, 1, 2, json!("u3")), "target_hash": maybe(rng, 1, 2, json!("h3"))})
}
pub fn gen_rule(rng: &R, id: &str) -> Value {
    let was = rng.sane();
    rng.set_sane(was || rng.chance(3, 4));
    let r = gen_rule_inner(rng, id);
    rng.set_sane(was);
    r
}
fn gen_rule_inner(rng: &R, id: &str) -> Value {
    let nm = match rng.below(6) { 0 | 1 => 0, 2 | 3 => 1, 4 => 2, _ => 3 };
    let mut names: Vec<String> = (0..nm).map(|_| if rng.sane() { NAMES[rng.below(8)].to_string() } else { pick_s(rng, NAMES) }).collect();
    if rng.sane() { names.sort(); names.dedup(); }
    let markers: Vec<Value> = names.iter().map(|n| gen_marker(rng, n)).collect();
    let path = if !names.is_empty() && rng.chance(3, 4) { let mut p = String::from(*rng.pick(&["/", "/a/", "/x-", ""])); for n in &names { p.push('@'); p.push_str(n); p.push_str(rng.ps(&["", "/", "-", ".html", "@"])); } p } else { pool_or_wild(rng, PATHS) };
    let host: Value = match rng.below(10) { 0 => json!(pool_or_wild(rng, HOSTS)), 1 if !names.is_empty() => json!(format!("@{}.example.org", names[0])),
        // marker hosts that share a NON-ASCII literal prefix with another rule of the set: the host tree splits nodes at
        // a character index inside multi-byte text
        2 if !names.is_empty() => json!(format!("{}@{}{}", rng.ps(&["caf\u{e9}", "caf\u{e9}-", "\u{4f8b}\u{3048}", "\u{e9}", "x\u{1f600}y"]), names[0], rng.ps(&[".example.org", ".jp", "-b.org"]))), _ => Value::Null };
    let mut source = json!({
        "scheme": maybe(rng, 1, 12, json!(pick_s(rng, SCHEMES))), "host": host,
        "ips": maybe(rng, 1, if rng.sane() { 20 } else { 5 }, json!((0..(1 + rng.below(3))).map(|_| if rng.chance(1, 2) { json!({"in_range": pool_or_wild(rng, IPS)}) } else { json!({"not_in_range": pool_or_wild(rng, IPS)}) }).collect::<Vec<_>>())),
        "path": path, "query": maybe(rng, 1, 4, json!(pool_or_wild(rng, &["a=1", "b=2&a=1", "", "=", "&&", "a", "é=é", "a=%zz", "a=@id", "utm_source=x"]))),
        "headers": maybe(rng, 1, 5, json!((0..(1 + rng.below(3))).map(|_| gen_header_cond(rng, &names)).collect::<Vec<_>>())),
        "methods": maybe(rng, 1, 8, json!((0..rng.below(3)).map(|_| pick_s(rng, METHODS)).collect::<Vec<_>>())),
        "exclude_methods": maybe(rng, 1, 6, json!(rng.chance(1, 2))),
        "response_status_codes": maybe(rng, 1, 3, json!((0..rng.below(3)).map(|_| *rng.pick(CODES)).collect::<Vec<_>>())),
        "exclude_response_status_codes": maybe(rng, 1, 6, json!(rng.chance(1, 2))),
        "sampling": maybe(rng, 1, 6, json!(*rng.pick(&[0u64, 1, 50, 100, 101, 4294967295]))),
    });
    let dden = if rng.sane() { 20 } else { 4 };
    if rng.chance(1, dden) { source["datetime"] = gen_dt_constraints(rng, DATETIMES); }
    if rng.chance(1, dden) { source["time"] = gen_dt_constraints(rng, TIMES); }
    if rng.chance(1, dden) { source["weekdays"] = json!((0..rng.below(4)).map(|_| pool_or_wild(rng, WEEKDAYS)).collect::<Vec<_>>()); }
    let target: Value = match rng.below(6) {
        0 => Value::Null,
        1 if !names.is_empty() => { let mut t = String::from("/t"); for n in &names { t.push_str(rng.ps(&["/@", "@", "?q=@", "-@"])); t.push_str(n); } json!(t) }
        2 if !rng.sane() => json!(gen_string(rng)),
        3 => json!(pick_s(rng, &["mailto:x@y", "javascript:alert(1)", "data:,x", "urn:x", "tel:+1", "//other.net/a", "b", "?x=1", "https://example.org/a", "http://[::1]/a"])),
        _ => json!(pool_or_wild(rng, URLS)),
    };
    let mut r = json!({
        "id": id, "source": source, "target": target,
        "status_code": maybe(rng, 4, 5, json!(*rng.pick(&[0u64, 301, 301, 302, 302, 307, 308, 410, 200, 65535]))),
        "rank": *rng.pick(&[0u64, 1, 2, 65535]),
        "body_filters": maybe(rng, 1, 3, json!((0..rng.below(3)).map(|_| gen_body_filter(rng)).collect::<Vec<_>>())),
        "header_filters": maybe(rng, 1, 3, json!((0..rng.below(3)).map(|_| gen_header_filter(rng)).collect::<Vec<_>>())),
        "log_override": maybe(rng, 1, 5, json!(rng.chance(1, 2))), "reset": maybe(rng, 1, 8, json!(rng.chance(1, 2))), "stop": maybe(rng, 1, 8, json!(rng.chance(1, 2))),
        "examples": maybe(rng, 1, 3, json!((0..rng.below(3)).map(|_| gen_example(rng)).collect::<Vec<_>>())),
        "redirect_unit_id": maybe(rng, 1, 2, json!("u1")), "configuration_log_unit_id": maybe(rng, 1, 4, json!("u4")), "configuration_reset_unit_id": maybe(rng, 1, 4, json!("u5")),
        "target_hash": maybe(rng, 1, 2, json!("th")),
    });
    if !markers.is_empty() || rng.chance(1, 4) { r["markers"] = json!(markers); }
    let inst: Vec<(String, Value, Value, Value, Vec<Value>)> = (0..4).map(|_| instantiate(rng, &r)).collect();
    if let Some(exs) = r["examples"].as_array_mut() {
        for (e, (url, host, method, _, headers)) in exs.iter_mut().zip(inst) {
            if rng.chance(2, 3) {
                e["url"] = match host.as_str() { Some(h) if rng.chance(1, 2) => json!(format!("https://{}{}", h, url)), _ => json!(url) };
                e["method"] = method;
                e["headers"] = json!(headers.iter().map(|h| json!({"name": h[0], "value": h[1]})).collect::<Vec<_>>());
            }
        }
    }
    if rng.chance(1, 3) { let nv = rng.below(4); r["variables"] = json!((0..nv).map(|_| gen_variable(rng, &names)).collect::<Vec<_>>()); }
    r
}
pub fn gen_cfg(rng: &R) -> Value {
    let mut c = Map::new();
    for k in ["ignore_host_case", "ignore_header_case", "ignore_path_and_query_case", "ignore_marketing_query_params", "pass_marketing_query_params_to_target", "always_match_any_host"] {
        if rng.chance(5, 6) { c.insert(k.to_string(), json!(rng.chance(1, 2))); }
    }
    if rng.chance(1, 2) { c.insert("marketing_query_params".into(), json!((0..rng.below(4)).map(|_| pick_s(rng, &["utm_source", "utm_medium", "ref", "", "a", "é", "x"])).collect::<Vec<_>>())); }
    Value::Object(c)
}
/// a URL / host / method / scheme / headers that the rule's own source is likely to accept
fn instantiate(rng: &R, r: &Value) -> (String, Value, Value, Value, Vec<Value>) {
    let src = &r["source"];
    let mut url = String::new();
    let mut ms: Vec<(String, String)> = r["markers"].as_array().map(|a| a.iter().map(|m| (str_of(&m["name"]), str_of(&m["regex"]))).collect()).unwrap_or_default();
    ms.sort_by(|a, b| b.0.len().cmp(&a.0.len()));
    let fill = |t: &str| -> String { let mut t = t.to_string(); for (n, re) in &ms { if !n.is_empty() { t = t.replace(&format!("@{}", n), if rng.chance(7, 8) { sample_for(re) } else { rng.ps(&["", "é", "x%20y", "-", "0"]) }); } } t };
    if let Some(p) = src["path"].as_str() { url.push_str(&fill(p)); }
    if let Some(q) = src["query"].as_str() { url.push('?'); url.push_str(&q.replace('@', "")); }
    let host = match src["host"].as_str() { Some(h) => json!(fill(h)), None => maybe(rng, 1, 3, json!(pick_s(rng, HOSTS))) };
    let method = match src["methods"].as_array().and_then(|m| m.first()) { Some(m) if src["exclude_methods"] != json!(true) => m.clone(), _ => maybe(rng, 1, 3, json!(pick_s(rng, METHODS))) };
    let scheme = match src["scheme"].as_str() { Some(x) => json!(x), None => maybe(rng, 1, 3, json!(pick_s(rng, SCHEMES))) };
    let mut headers = Vec::new();
    for h in src["headers"].as_array().map(|a| a.as_slice()).unwrap_or(&[]) { if rng.chance(3, 4) { headers.push(json!([h["name"], match h["value"].as_str() { Some(v) => fill(v), None => "v".to_string() }])); } }
    (url, host, method, scheme, headers)
}
fn gen_request(rng: &R, rules: &[Value]) -> Value {
    let mut req = json!({"url": pool_or_wild(rng, PATHS), "host": maybe(rng, 1, 2, json!(pool_or_wild(rng, HOSTS))), "scheme": maybe(rng, 1, 2, json!(pick_s(rng, SCHEMES))), "method": maybe(rng, 1, 2, json!(pick_s(rng, METHODS))),
           "ip": maybe(rng, 1, 2, json!(pick_s(rng, ADDRS))), "created_at": maybe(rng, 1, 2, json!(pool_or_wild(rng, DATETIMES))),
           "override": maybe(rng, 1, 4, json!(rng.chance(1, 2))), "ignore_case": rng.chance(1, 3),
           "headers": (0..rng.below(4)).map(|_| json!([pick_s(rng, HEADER_NAMES), pool_or_wild(rng, &["v", "v1", "id=12", "", "é", "for=1.2.3.4;by=x", "for=\"[::1]:80\", for=x", "1.2.3.4, ::1, x", "=", ";;,,", "for"])])).collect::<Vec<_>>()});
    // three quarters of the requests are derived from a rule's own source so that matching paths are taken
    if !rules.is_empty() && rng.chance(3, 4) {
        let (url, host, method, scheme, headers) = instantiate(rng, rng.pick(rules));
        req["url"] = json!(url); req["host"] = host; req["method"] = method; req["scheme"] = scheme;
        if let Some(a) = req["headers"].as_array_mut() { a.extend(headers); }
    }
    req
}

fn compress(enc: &str, level: u32, body: &[u8]) -> Vec<u8> {
    match enc {
        "gzip" => { let mut e = flate2::write::GzEncoder::new(Vec::new(), flate2::Compression::new(level.min(9))); let _ = e.write_all(body); e.finish().unwrap_or_default() }
        "deflate" => { let mut e = flate2::write::ZlibEncoder::new(Vec::new(), flate2::Compression::new(level.min(9))); let _ = e.write_all(body); e.finish().unwrap_or_default() }
        "br" => { let mut out = Vec::new(); { let mut w = brotli::CompressorWriter::new(&mut out, 4096, level.min(11), 18); let _ = w.write_all(body); let _ = w.flush(); } out }
        _ => body.to_vec(),
    }
}
/// response: code, headers, body chunks (valid or corrupt compressed streams under a Content-Encoding header, arbitrary chunking)
/// unbalanced soups of start / end tags over the element-tree names the generated filters use (the visitors'
/// enter / leave cursor is driven by exactly these)
fn gen_tag_soup(rng: &R) -> Vec<u8> {
    let mut s = String::new();
    for _ in 0..rng.below(12) {
        let name = *rng.pick(&["html", "body", "main", "div", "html", "body"]);
        match rng.below(5) { 0 | 1 => { s.push('<'); s.push_str(name); s.push('>'); } 2 | 3 => { s.push_str("</"); s.push_str(name); s.push('>'); } _ => { s.push('<'); s.push_str(name); s.push_str("/>"); } }
        if rng.chance(1, 4) { s.push_str("t"); }
    }
    s.into_bytes()
}

fn gen_response(rng: &R) -> Value {
    let plain = match rng.below(9) { 0 | 1 | 2 => gen_tag_soup(rng), 3 | 4 | 5 | 6 => gen_html(rng).into_bytes(), _ => gen_bytes(rng) };
    let mut headers: Vec<Value> = Vec::new();
    let mut wire = plain.clone();
    if rng.chance(1, 2) {
        let enc = pick_s(rng, &["gzip", "deflate", "br", "GZIP", "Br", "zstd", "identity", "", "gzip, br", " gzip", "x"]);
        wire = compress(enc.to_lowercase().trim(), rng.below(10) as u32, &plain);
        match rng.below(6) {
            0 => { for _ in 0..(1 + rng.below(4)) { if wire.is_empty() { break; } let i = rng.below(wire.len()); wire[i] ^= 1 << rng.below(8); } }       // corrupt
            1 => { let k = rng.below(wire.len() + 1); wire.truncate(k); }                                                                           // truncated
            2 => { wire.extend_from_slice(&gen_bytes(rng)); }                                                                                         // trailing garbage
            3 => { wire = plain.clone(); }                                                                                                            // header lies
            _ => {}
        }
        headers.push(json!([pick_s(rng, &["Content-Encoding", "content-encoding", "CONTENT-ENCODING"]), enc]));
    }
    if rng.chance(1, 2) { headers.push(json!(["Content-Type", pick_s(rng, &["text/html", "text/html; charset=utf-8", "TEXT/HTML", "text/plain", "application/json", "", "é", "text/html;charset=latin1"])])); }
    for _ in 0..rng.below(3) { headers.push(json!([pick_s(rng, HEADER_NAMES), gen_string(rng)])); }
    let mut cuts: Vec<usize> = match rng.below(4) { 0 => vec![], 1 => (1..wire.len().min(40)).collect(), _ => (0..rng.below(5)).map(|_| rng.below(wire.len() + 1)).collect() };
    cuts.sort();
    let mut chunks: Vec<Value> = Vec::new();
    let mut prev = 0;
    for c in cuts { if c >= prev && c <= wire.len() { chunks.push(bytes_val(&wire[prev..c])); prev = c; } }
    chunks.push(bytes_val(&wire[prev..]));
    json!({"code": *rng.pick(CODES), "headers": headers, "chunks": chunks, "add_ids": rng.chance(1, 2)})
}

// ------------------------------------------------------------------------------------------------ mutations
fn all_paths(v: &Value, cur: &mut Vec<Value>, out: &mut Vec<Vec<Value>>) {
    out.push(cur.clone());
    match v {
        Value::Array(a) => for (i, x) in a.iter().enumerate() { cur.push(json!(i)); all_paths(x, cur, out); cur.pop(); },
        Value::Object(o) => for (k, x) in o { cur.push(json!(k)); all_paths(x, cur, out); cur.pop(); },
        _ => {}
    }
}
fn at_path<'a>(v: &'a mut Value, path: &[Value]) -> Option<&'a mut Value> {
    let mut cur = v;
    for p in path { cur = if let Some(i) = p.as_u64() { cur.get_mut(i as usize)? } else { cur.get_mut(p.as_str()?)? }; }
    Some(cur)
}
fn empty_strings(v: &mut Value) { match v { Value::String(s) => s.clear(), Value::Array(a) => a.iter_mut().for_each(empty_strings), Value::Object(o) => o.values_mut().for_each(empty_strings), _ => {} } }
/// structured mutation: type confusion, huge numbers, deep nesting, nulls, dropped members, empty strings everywhere
fn mutate_value(rng: &R, v: &mut Value) {
    if rng.chance(1, 12) { empty_strings(v); return; }
    let mut paths = Vec::new();
    all_paths(v, &mut Vec::new(), &mut paths);
    let path = rng.pick(&paths).clone();
    if let Some(node) = at_path(v, &path) {
        let old = node.clone();
        *node = match rng.below(14) {
            0 => Value::Null,
            1 => json!(*rng.pick(&[0i64, -1, 1, 255, 256, 65535, 65536, 4294967295, 4294967296, i64::MAX, i64::MIN])),
            2 => json!(u64::MAX), 3 => json!(1.5), 4 => json!(1e308), 5 => json!(rng.chance(1, 2)),
            6 => json!(gen_string(rng)), 7 => json!([]), 8 => json!({}), 9 => json!([old]),
            10 => { let mut x = old; for _ in 0..*rng.pick(&[3usize, 60, 140]) { x = json!([x]); } x }
            11 => match old { Value::String(s) => json!(s.parse::<f64>().unwrap_or(7.0)), Value::Number(n) => json!(n.to_string()), Value::Bool(b) => json!(b.to_string()), Value::Array(a) => a.into_iter().next().unwrap_or(Value::Null), o => json!(o.to_string()) },
            12 => match old { Value::Object(mut o) => { let ks: Vec<String> = o.keys().cloned().collect(); if !ks.is_empty() { o.remove(rng.pick(&ks)); } Value::Object(o) } Value::Array(mut a) => { if !a.is_empty() { let i = rng.below(a.len()); let x = a[i].clone(); a.push(x); } Value::Array(a) } o => o },
            _ => match old { Value::String(s) => json!(format!("{}{}", s, gen_string(rng))), o => o },
        };
    }
}
/// textual mutation of a JSON document: byte flips, truncation, duplicated members, inserted bytes, nesting bombs
fn mutate_text(rng: &R, text: &str) -> Value {
    let mut b = text.as_bytes().to_vec();
    match rng.below(7) {
        0 => { for _ in 0..(1 + rng.below(3)) { if b.is_empty() { break; } let i = rng.below(b.len()); b[i] ^= 1 << rng.below(8); } }
        1 => { let k = rng.below(b.len() + 1); b.truncate(k); }
        2 => { // duplicate a member: copy `"key":value,` in front of itself (serde: duplicate field error, or last-wins in maps)
            let pos: Vec<usize> = (0..b.len()).filter(|&i| b[i] == b'"' && i > 0 && (b[i - 1] == b'{' || b[i - 1] == b',')).collect();
            if !pos.is_empty() { let st = *rng.pick(&pos); let mut depth = 0i32; let mut instr = false; let mut j = st; while j < b.len() { let c = b[j]; if instr { if c == b'\\' { j += 1; } else if c == b'"' { instr = false; } } else if c == b'"' { instr = true; } else if c == b'{' || c == b'[' { depth += 1; } else if c == b'}' || c == b']' { if depth == 0 { break; } depth -= 1; } else if c == b',' && depth == 0 { break; } j += 1; }
                let mut piece = b[st..j.min(b.len())].to_vec(); piece.push(b','); let mut nb = b[..st].to_vec(); nb.extend_from_slice(&piece); nb.extend_from_slice(&b[st..]); b = nb; } }
        3 => { let i = rng.below(b.len() + 1); let ins = gen_bytes(rng); let mut nb = b[..i].to_vec(); nb.extend_from_slice(&ins[..ins.len().min(16)]); nb.extend_from_slice(&b[i..]); b = nb; }
        4 => { let n = *rng.pick(&[100usize, 200, 5000]); let mut nb = vec![b'['; n]; nb.extend_from_slice(&b); nb.extend(std::iter::repeat(b']').take(n)); b = nb; }
        5 => { let s = String::from_utf8_lossy(&b).replace(rng.ps(&["null", "true", "\"\"", "0", "[", "1"]), rng.ps(&["1e999", "-0", "\"\\ud800\"", "\"\\u0000\"", "{}", "18446744073709551616", "nul", "0.0000000000000000000000000000001"])); b = s.into_bytes(); }
        _ => { if !b.is_empty() { let i = rng.below(b.len()); let j = (i + 1 + rng.below(8)).min(b.len()); b.drain(i..j); } }
    }
    bytes_val(&b)
}
/// a JSON value -> the document carried in the case: pristine, value-mutated, and / or text-mutated
fn doc(rng: &R, mut v: Value, p_value: usize, p_text: usize) -> Value {
    if rng.below(100) < p_value { for _ in 0..(1 + rng.below(2)) { mutate_value(rng, &mut v); } }
    let text = v.to_string();
    if rng.below(100) < p_text { mutate_text(rng, &text) } else { json!(text) }
}

// ------------------------------------------------------------------------------------------------ runners: shared pieces
fn de<T: serde::de::DeserializeOwned>(v: &Value) -> Option<T> { serde_json::from_slice::<T>(&bytes_of(v)).ok() }

fn parse_cfg(ep: &Ep, v: &Value) -> RouterConfig { ep.at("RouterConfig::deserialize"); de::<RouterConfig>(v).unwrap_or_default() }
fn parse_rule(ep: &Ep, v: &Value) -> Option<Rule> {
    let b = bytes_of(v);
    match std::str::from_utf8(&b) {
        Ok(s) if b.len() % 2 == 0 => { ep.at("Rule::from_json"); Rule::from_json(s) }
        _ => { ep.at("Rule::deserialize"); serde_json::from_slice::<Rule>(&b).ok() }
    }
}
fn http_headers(v: &Value) -> Vec<HttpHeader> {
    v.as_array().map(|a| a.iter().map(|h| HttpHeader { name: str_of(&h[0]), value: str_of(&h[1]) }).collect()).unwrap_or_default()
}
fn build_request(ep: &Ep, cfg: &RouterConfig, r: &Value) -> Request {
    ep.at("Request::from_config");
    let ip = r["ip"].as_str().and_then(|s| s.parse::<std::net::IpAddr>().ok());
    let mut req = Request::from_config(cfg, str_of(&r["url"]), opt_str(&r["host"]), opt_str(&r["scheme"]), opt_str(&r["method"]), ip, r["override"].as_bool());
    let ic = r["ignore_case"].as_bool().unwrap_or(false);
    if let Some(hs) = r["headers"].as_array() { ep.at("Request::add_header"); for h in hs { req.add_header(str_of(&h[0]), str_of(&h[1]), ic); } }
    if let Some(c) = r["created_at"].as_str() { ep.at("Request::set_created_at"); req.set_created_at(Some(c.to_string())); }
    if let Some(s) = r["ip"].as_str() { if let Ok(a) = s.parse::<Addr>() { ep.at("Request::set_remote_ip"); req.set_remote_ip(a.addr); } }
    req
}

/// response phase of an action, as a proxy drives it
fn drive_action(ep: &Ep, action: &mut Action, resp: &Value, with_trace: bool) {
    let code = resp["code"].as_u64().unwrap_or(200) as u16;
    let headers = http_headers(&resp["headers"]);
    let mut ut = UnitTrace::default();
    ep.at("Action::get_status_code");
    let at_request = action.get_status_code(0, if with_trace { Some(&mut ut) } else { None });
    let _ = action.get_status_code(code, None);
    ep.at("Action::get_final_status_code_with_fallback");
    let _ = action.get_final_status_code_with_fallback(code, 200, &mut ut);
    let backend = if at_request != 0 { at_request } else { code };
    ep.at("Action::filter_headers");
    let out_headers = action.filter_headers(headers.clone(), backend, resp["add_ids"].as_bool().unwrap_or(false), if with_trace { Some(&mut ut) } else { None });
    ep.at("Action::create_filter_body");
    if let Some(mut f) = action.create_filter_body(backend, &headers) {
        ep.at("FilterBodyAction::filter");
        if let Some(chunks) = resp["chunks"].as_array() { for c in chunks { let _ = f.filter(bytes_of(c), if with_trace { Some(&mut ut) } else { None }); } }
        ep.at("FilterBodyAction::end");
        let _ = f.end(if with_trace { Some(&mut ut) } else { None });
        let _ = f.filter(b"<p>late</p>".to_vec(), None); // a chunk after end()
        let _ = f.end(None);
    }
    ep.at("Action::should_log_request");
    let _ = action.should_log_request(true, backend, if with_trace { Some(&mut ut) } else { None });
    let _ = action.should_log_request(false, code, None);
    ep.at("Action::get_applied_rule_ids");
    let _ = action.get_applied_rule_ids().len();
    ep.at("UnitTrace::squash_with_target_unit_traces");
    ut.squash_with_target_unit_traces();
    let _ = ut.diff(vec!["u1".to_string(), "".to_string()]);
    let _ = (ut.get_rule_ids_applied(), ut.get_unit_ids_applied(), ut.rule_ids_contains("r0"));
    ep.at("UnitTrace::serialize");
    let _ = serde_json::to_string(&ut);
    let _ = out_headers;
}

fn drive_request(ep: &Ep, router: &Router<Rule>, req: &Request, resp: &Value, obs: &mut Obs) {
    ep.at("Router::rebuild_request");
    let rebuilt = router.rebuild_request(req);
    ep.at("Router::match_request");
    let routes = router.match_request(req);
    let _ = router.match_request(&rebuilt);
    if !routes.is_empty() { obs.deep = true; }
    ep.at("Router::trace_request");
    let traces = router.trace_request(req);
    ep.at("Router::get_route");
    let _ = router.get_route(req);
    ep.at("Router::get_trace");
    let _ = router.get_trace(req);
    ep.at("Trace::get_routes_from_traces");
    let _ = Trace::get_routes_from_traces(&traces);
    ep.at("TraceAction::from_trace_rules");
    let ta = TraceAction::from_trace_rules(&traces, req);
    ep.at("Trace::serialize");
    let _ = serde_json::to_string(&traces);
    let _ = serde_json::to_string(&ta);
    for route in &routes {
        ep.at("Route::capture");
        let _ = route.capture(req);
        ep.at("Action::get_target");
        let _ = Action::get_target(route, req);
        ep.at("Action::from_route_rule");
        let _ = Action::from_route_rule(route.clone(), req);
    }
    ep.at("Action::from_routes_rule");
    let mut ut = UnitTrace::default();
    let mut action = Action::from_routes_rule(routes.clone(), req, Some(&mut ut));
    let _ = Action::from_routes_rule(routes, &rebuilt, None);
    ep.at("Action::serialize");
    let text = serde_json::to_string(&action).unwrap_or_default();
    ep.at("Action::deserialize");
    if let Ok(mut back) = serde_json::from_str::<Action>(&text) { drive_action(ep, &mut back, resp, false); }
    drive_action(ep, &mut action, resp, true);
    ep.at("Request::serialize");
    let rtext = serde_json::to_string(req).unwrap_or_default();
    ep.at("Request::deserialize");
    if let Ok(back) = serde_json::from_str::<Request>(&rtext) { let _ = router.match_request(&back); }
    ep.at("Log::from_proxy");
    let log = Log::from_proxy(req, resp["code"].as_u64().unwrap_or(200) as u16, &http_headers(&resp["headers"]), Some(&action), "c07", 1_700_000_000_000, "10.0.0.1:80");
    let _ = serde_json::to_string(&log);
}

fn apply_ops(ep: &Ep, router: &mut Router<Rule>, rules: &[Option<Rule>], ops: &Value) {
    let pick = |i: &Value| -> Option<Rule> { rules.get(i.as_u64()? as usize)?.clone() };
    for o in ops.as_array().map(|a| a.as_slice()).unwrap_or(&[]) {
        match o["op"].as_str().unwrap_or("") {
            "insert" => { if let Some(r) = pick(&o["i"]) { ep.at("Router::insert"); router.insert(r); } }
            "insert_route" => { if let Some(r) = pick(&o["i"]) { ep.at("Rule::into_route"); let rt = r.into_route(router.config.as_ref()); ep.at("Route::compile"); let _ = rt.compile(); ep.at("Router::insert_route"); router.insert_route(rt); } }
            "remove" => { ep.at("Router::remove"); let _ = router.remove(&str_of(&o["id"])); }
            "batch_remove" => { ep.at("Router::batch_remove"); let ids: HashSet<String> = o["ids"].as_array().map(|a| a.iter().map(str_of).collect()).unwrap_or_default(); router.batch_remove(&ids); }
            "cache" => { ep.at("Router::cache"); router.cache(o["limit"].as_u64()); }
            "change" => {
                ep.at("Router::apply_change_set");
                let idx = |k: &str| -> Vec<Rule> { o[k].as_array().map(|a| a.iter().filter_map(|i| pick(i)).collect()).unwrap_or_default() };
                let deleted: HashSet<String> = o["deleted"].as_array().map(|a| a.iter().map(str_of).collect()).unwrap_or_default();
                router.apply_change_set(idx("added"), idx("updated"), deleted);
            }
            "clone" => { ep.at("Router::clone"); let mut c = router.clone(); c.cache(Some(2)); let _ = c.len(); }
            "lookup" => { ep.at("Router::get_route_by_id"); let _ = router.get_route_by_id(&str_of(&o["id"])); let _ = (router.len(), router.is_empty(), router.routes().len()); }
            _ => {}
        }
    }
}

// ------------------------------------------------------------------------------------------------ family runners
fn run_pipeline(ep: &Ep, inp: &Value, obs: &mut Obs) {
    let cfg = parse_cfg(ep, &inp["cfg"]);
    let rules: Vec<Option<Rule>> = inp["rules"].as_array().map(|a| a.iter().map(|r| parse_rule(ep, r)).collect()).unwrap_or_default();
    obs.notes.push(format!("rules_ok:{}/{}", rules.iter().filter(|r| r.is_some()).count(), rules.len()));
    ep.at("Router::from_config");
    let mut router = Router::<Rule>::from_config(cfg.clone());
    apply_ops(ep, &mut router, &rules, &inp["ops"]);
    for r in inp["requests"].as_array().map(|a| a.as_slice()).unwrap_or(&[]) {
        let req = build_request(ep, &cfg, r);
        drive_request(ep, &router, &req, &inp["response"], obs);
    }
}

fn run_analysis(ep: &Ep, inp: &Value, obs: &mut Obs) {
    let cfg = parse_cfg(ep, &inp["base_cfg"]);
    let mut base = Router::<Rule>::from_config(cfg);
    for r in inp["base"].as_array().map(|a| a.as_slice()).unwrap_or(&[]) { if let Some(rule) = parse_rule(ep, r) { base.insert(rule); } }
    if inp["cache"].as_bool().unwrap_or(false) { base.cache(Some(3)); }
    let existing = Arc::new(base);
    let project = inp["project"].as_bool().unwrap_or(false);
    let d = &inp["doc"];
    match (inp["kind"].as_str().unwrap_or(""), project) {
        ("test", false) => { ep.at("TestExamplesInput::deserialize"); if let Some(i) = de::<TestExamplesInput>(d) { obs.deep = true; ep.at("TestExamplesOutput::create_result_without_project"); let o = TestExamplesOutput::create_result_without_project(i); let _ = serde_json::to_string(&o); } }
        ("test", true) => { ep.at("TestExamplesProjectInput::deserialize"); if let Some(i) = de::<TestExamplesProjectInput>(d) { obs.deep = true; ep.at("TestExamplesOutput::from_project"); let o = TestExamplesOutput::from_project(i, existing); let _ = serde_json::to_string(&o); } }
        ("units", false) => { ep.at("UnitIdsInput::deserialize"); if let Some(i) = de::<UnitIdsInput>(d) { obs.deep = true; ep.at("UnitIdsOutput::create_result_without_project"); let o = UnitIdsOutput::create_result_without_project(i); let _ = serde_json::to_string(&o); } }
        ("units", true) => { ep.at("UnitIdsProjectInput::deserialize"); if let Some(i) = de::<UnitIdsProjectInput>(d) { obs.deep = true; ep.at("UnitIdsOutput::create_result_from_project"); let o = UnitIdsOutput::create_result_from_project(i, existing); let _ = serde_json::to_string(&o); } }
        ("explain", false) => { ep.at("ExplainRequestInput::deserialize"); if let Some(i) = de::<ExplainRequestInput>(d) { obs.deep = true; ep.at("ExplainRequestOutput::create_result_without_project"); match ExplainRequestOutput::create_result_without_project(i) { Ok(o) => { let _ = serde_json::to_string(&o); } Err(e) => { let _ = serde_json::to_string(&e); } } } }
        ("explain", true) => { ep.at("ExplainRequestProjectInput::deserialize"); if let Some(i) = de::<ExplainRequestProjectInput>(d) { obs.deep = true; ep.at("ExplainRequestOutput::create_result_from_project"); match ExplainRequestOutput::create_result_from_project(i, existing) { Ok(o) => { let _ = serde_json::to_string(&o); } Err(e) => { let _ = serde_json::to_string(&e); } } } }
        ("impact", false) => { ep.at("ImpactInput::deserialize"); if let Some(i) = de::<ImpactInput>(d) { obs.deep = true; ep.at("ImpactOutput::create_result"); let o = ImpactOutput::create_result(i); let _ = serde_json::to_string(&o); } }
        ("impact", true) => { ep.at("ImpactProjectInput::deserialize"); if let Some(i) = de::<ImpactProjectInput>(d) { obs.deep = true; ep.at("ImpactOutput::from_impact_project"); let o = ImpactOutput::from_impact_project(i, existing); let _ = serde_json::to_string(&o); } }
        _ => {}
    }
}

fn run_body(ep: &Ep, inp: &Value, obs: &mut Obs) {
    let resp = &inp["response"];
    let headers = http_headers(&resp["headers"]);
    ep.at("BodyFilter::deserialize");
    if let Some(filters) = de::<Vec<BodyFilter>>(&inp["filters"]) {
        ep.at("FilterBodyAction::new");
        let mut f = FilterBodyAction::new(filters, &headers);
        if !f.is_empty() { obs.deep = true; }
        ep.at("FilterBodyAction::filter");
        for c in resp["chunks"].as_array().map(|a| a.as_slice()).unwrap_or(&[]) { let mut ut = UnitTrace::default(); let _ = f.filter(bytes_of(c), Some(&mut ut)); }
        ep.at("FilterBodyAction::end");
        let _ = f.end(None);
        let _ = f.end(None);
    }
    ep.at("HeaderFilter::deserialize");
    if let Some(hf) = de::<Vec<HeaderFilter>>(&inp["hfilters"]) {
        ep.at("FilterHeaderAction::new");
        if let Some(a) = FilterHeaderAction::new(hf) { ep.at("FilterHeaderAction::filter"); let mut ut = UnitTrace::default(); let out = a.filter(headers.clone(), Some(&mut ut)); let _ = a.filter(out, None); }
    }
    ep.at("Header::create_header_map");
    let _ = HttpHeader::create_header_map(headers);
}

fn run_tokenizer(ep: &Ep, inp: &Value, obs: &mut Obs) {
    let data = bytes_of(&inp["data"]);
    let mode = inp["mode"].as_u64().unwrap_or(0);
    let mut t = match inp["ctx"].as_str() { Some(c) => { ep.at("Tokenizer::new_fragment"); html::Tokenizer::new_fragment(data.clone(), c.to_string()) } None => { ep.at("Tokenizer::new"); html::Tokenizer::new(data.clone()) } };
    if let Some(b) = inp["cdata"].as_bool() { ep.at("Tokenizer::allow_cdata"); t.allow_cdata(b); }
    let mut n = 0usize;
    loop {
        ep.at("Tokenizer::next");
        let tt = match t.next() { Ok(x) => x, Err(_) => break };
        n += 1;
        let _ = (t.raw_tag().len(), t.err().is_some());
        ep.at("Tokenizer::raw"); let _ = t.raw(); let _ = t.raw_as_string();
        ep.at("Tokenizer::buffered"); let _ = t.buffered(); if n % 7 == 0 { let _ = t.buffered_as_string(); }
        if tt == html::TokenType::ErrorToken { break; }
        match mode % 4 {
            0 => { ep.at("Tokenizer::token"); if let Ok(tok) = t.token() { ep.at("Token::to_string"); let _ = tok.to_string(); } }
            1 => { ep.at("Tokenizer::text"); let _ = t.text(); ep.at("Tokenizer::tag_name"); let _ = t.tag_name(); ep.at("Tokenizer::tag_attr"); for _ in 0..6 { match t.tag_attr() { Ok((_, _, true)) => {} _ => break } } }
            2 => { ep.at("Tokenizer::tag_attr"); let _ = t.tag_attr(); ep.at("Tokenizer::tag_name"); let _ = t.tag_name(); let _ = t.tag_name(); ep.at("Tokenizer::text"); let _ = t.text(); let _ = t.text(); }
            _ => {}
        }
        if n > data.len() + 8 { obs.notes.push("more tokens than bytes".into()); break; }
    }
    let _ = t.next(); // after the end
    let _ = (t.raw(), t.buffered());
    if n >= 2 { obs.deep = true; }
}

fn run_request(ep: &Ep, inp: &Value, obs: &mut Obs) {
    let cfg = parse_cfg(ep, &inp["cfg"]);
    let s = str_of(&inp["s"]);
    ep.at("Request::from_str");
    if let Ok(r) = Request::from_str(&s) { obs.deep = true; let _ = (r.path_and_query(), r.method().len(), r.host().is_some(), r.scheme().is_some()); ep.at("Request::rebuild_with_config"); let _ = Request::rebuild_with_config(&cfg, &r); }
    ep.at("sanitize_url"); let _ = redirectionio::http::sanitize_url(&s);
    ep.at("PathAndQueryWithSkipped::from_config"); let _ = PathAndQueryWithSkipped::from_config(&cfg, &s);
    ep.at("PathAndQueryWithSkipped::from_static"); let _ = PathAndQueryWithSkipped::from_static(&s);
    ep.at("Request::build_sorted_query"); let _ = Request::build_sorted_query(&s);
    ep.at("Addr::from_str"); if let Ok(a) = s.parse::<Addr>() { let _ = a.to_string(); }
    let req = build_request(ep, &cfg, &inp["request"]);
    ep.at("Request::header_values"); for n in HEADER_NAMES.iter().take(6) { let _ = (req.header_exists(n), req.header_values(n).len(), req.header_value(n)); }
    ep.at("Request::rebuild_with_config"); let rb = Request::rebuild_with_config(&cfg, &req); let _ = Request::rebuild_with_config(&cfg, &rb);
    ep.at("Request::serialize"); let text = serde_json::to_string(&req).unwrap_or_default(); ep.at("Request::deserialize"); let _ = serde_json::from_str::<Request>(&text);
    ep.at("Request::new"); let _ = Request::new(PathAndQueryWithSkipped::from_static(&s), s.clone(), opt_str(&inp["request"]["host"]), None, None, None, None);
    ep.at("Example::deserialize");
    if let Some(ex) = de::<Example>(&inp["example"]) {
        ep.at("Request::from_example");
        if let Ok(r) = Request::from_example(&cfg, &ex) { obs.deep = true; let _ = r.path_and_query(); }
        let _ = ex.with_url(s.clone()).with_method(Some(s.clone()));
    }
    ep.at("RouteDateTime::from_range"); let d = RouteDateTime::from_range(&opt_str(&inp["a"]), &opt_str(&inp["b"])); let _ = d.to_string();
    ep.at("RouteTime::from_range"); let tm = RouteTime::from_range(&opt_str(&inp["a"]), &opt_str(&inp["b"])); let _ = tm.to_string();
    ep.at("RouteWeekday::from_weekdays"); let w = RouteWeekday::from_weekdays(&vec![str_of(&inp["a"]), str_of(&inp["b"])]);
    if let Some(c) = req.created_at { let _ = (d.match_datetime(&c), tm.match_datetime(&c), w.map(|w| w.match_datetime(&c))); }
}

fn run_transform(ep: &Ep, inp: &Value, obs: &mut Obs) {
    let value = str_of(&inp["value"]);
    if let Some(sl) = inp.get("slice") {
        // Slice through the public Transformer: options are strings, parsed as the crate parses them
        let (fs, ts) = (str_of(&sl["from"]), opt_str(&sl["to"]));
        let mut options = HashMap::new();
        options.insert("from".to_string(), fs.clone());
        options.insert("to".to_string(), ts.clone().unwrap_or_else(|| "none".to_string()));
        let t = Transformer { kind: Some("slice".to_string()), options: Some(options) };
        ep.at("Transformer::to_transform");
        if let Some(tr) = t.to_transform() {
            ep.at("Slice::transform");
            let out = tr.transform(value.clone());
            let from = fs.parse::<usize>().unwrap_or(0) as u64;
            let to = ts.and_then(|s| s.parse::<usize>().ok()).map(|x| x as u64);
            // the model comparison is made for values up to 2000 bytes (longer list literals overflow coqc's parser stack)
            if value.len() <= 2000 { obs.slice = Some((from, to, value.clone(), out)); } else { obs.notes.push("slice value too long for the model comparison".into()); }
            obs.deep = true;
        }
    }
    ep.at("Transformer::deserialize");
    if let Some(ts) = de::<Vec<Transformer>>(&inp["transformers"]) {
        let mut v = value.clone();
        for t in &ts { ep.at("Transformer::to_transform"); if let Some(tr) = t.to_transform() { ep.at("Transform::transform"); v = tr.transform(v); obs.deep = true; } }
        let _ = serde_json::to_string(&ts);
    }
    ep.at("Marker::deserialize");
    if let Some(m) = de::<Marker>(&inp["marker"]) { ep.at("Marker::transform"); let _ = m.transform(value.clone()); }
    let cfg = RouterConfig::default();
    let req = build_request(ep, &cfg, &inp["request"]);
    ep.at("Variable::deserialize");
    if let Some(vars) = de::<Vec<Variable>>(&inp["variables"]) {
        let mut caps = HashMap::new();
        for n in NAMES.iter().take(8) { caps.insert(n.to_string(), value.clone()); }
        ep.at("Variable::get_value");
        for v in &vars { let _ = v.get_value(&caps, &req); }
    }
    // marker strings with arbitrary (also invalid) expressions
    let markers: Vec<RouteMarker> = inp["markers"].as_array().map(|a| a.iter().map(|m| RouteMarker::new(str_of(&m[0]), str_of(&m[1]))).collect()).unwrap_or_default();
    let tpl = str_of(&inp["template"]);
    let ic = inp["ic"].as_bool().unwrap_or(false);
    ep.at("MarkerString::new");
    if let Some(ms) = MarkerString::new(&tpl, markers.clone(), ic) {
        ep.at("MarkerString::capture"); let _ = ms.capture(&value);
        ep.at("MarkerString::compile"); let _ = ms.compile(); let _ = ms.capture(&value); let _ = ms.capture(&tpl);
        let _ = serde_json::to_string(&ms);
    }
    ep.at("StaticOrDynamic::new_with_markers");
    let sod = StaticOrDynamic::new_with_markers(&tpl, markers, ic);
    let caps = sod.capture(&value); let _ = sod.compile();
    ep.at("StaticOrDynamic::replace");
    let vars: Vec<(String, String)> = caps.into_iter().chain(vec![("id".to_string(), value.clone()), ("".to_string(), "E".to_string()), ("a".to_string(), "@a".to_string())]).collect();
    let _ = StaticOrDynamic::replace(tpl.clone(), &vars);
}

fn run_serde(ep: &Ep, inp: &Value, obs: &mut Obs) {
    let d = &inp["doc"];
    let resp = &inp["response"];
    match inp["type"].as_str().unwrap_or("") {
        "action" => { ep.at("Action::deserialize"); if let Some(mut a) = de::<Action>(d) { obs.deep = true; drive_action(ep, &mut a, resp, true); ep.at("Action::serialize"); let t = serde_json::to_string(&a).unwrap_or_default(); let _ = serde_json::from_str::<Action>(&t); let mut b = Action::default(); ep.at("Action::merge"); b.merge(a); drive_action(ep, &mut b, resp, false); } }
        "request" => { ep.at("Request::deserialize"); if let Some(r) = de::<Request>(d) { obs.deep = true; let cfg = RouterConfig::default(); let mut router = Router::<Rule>::from_config(cfg.clone()); for x in inp["rules"].as_array().map(|a| a.as_slice()).unwrap_or(&[]) { if let Some(rule) = parse_rule(ep, x) { router.insert(rule); } } drive_request(ep, &router, &r, resp, &mut Obs::default()); ep.at("Request::rebuild_with_config"); let _ = Request::rebuild_with_config(&cfg, &r); } }
        "rule" => { if let Some(r) = parse_rule(ep, d) { obs.deep = true; ep.at("Rule::serialize"); let t = serde_json::to_string(&r).unwrap_or_default(); let _ = Rule::from_json(&t); ep.at("Rule::into_route"); let cfg = RouterConfig::default(); let rt = r.clone().into_route(&cfg); let _ = (rt.compile(), rt.priority(), rt.id().len()); let _ = r.cmp(&r); } }
        "example" => { ep.at("Example::deserialize"); if let Some(e) = de::<Example>(d) { obs.deep = true; ep.at("Request::from_example"); let _ = Request::from_example(&RouterConfig::default(), &e); let _ = serde_json::to_string(&e); } }
        "unit_trace" => { ep.at("UnitTrace::deserialize"); if let Some(mut u) = de::<UnitTrace>(d) { obs.deep = true; u.squash_with_target_unit_traces(); let _ = u.diff(vec![]); let _ = serde_json::to_string(&u); } }
        "log" => { ep.at("Log::deserialize"); if let Some(l) = de::<Log>(d) { obs.deep = true; let _ = serde_json::to_string(&l); } }
        "legacy_log" => { ep.at("LegacyLog::deserialize"); if let Some(l) = de::<LegacyLog>(d) { obs.deep = true; ep.at("Log::from_legacy"); let _ = serde_json::to_string(&Log::from_legacy(l, str_of(&inp["proxy"]))); } }
        "config" => { let c = parse_cfg(ep, d); let _ = serde_json::to_string(&c); use std::hash::{Hash, Hasher}; let mut h = std::collections::hash_map::DefaultHasher::new(); c.hash(&mut h); let _ = h.finish(); }
        _ => {}
    }
}

fn run_log(ep: &Ep, inp: &Value, obs: &mut Obs) {
    let cfg = RouterConfig::default();
    let req = build_request(ep, &cfg, &inp["request"]);
    let start: u128 = inp["start"].as_str().and_then(|s| s.parse().ok()).unwrap_or(0);
    ep.at("Log::from_proxy");
    let l = Log::from_proxy(&req, inp["code"].as_u64().unwrap_or(0) as u16, &http_headers(&inp["headers"]), None, &str_of(&inp["proxy"]), start, &str_of(&inp["client_ip"]));
    ep.at("Log::serialize"); let t = serde_json::to_string(&l).unwrap_or_default(); let _ = serde_json::from_str::<Log>(&t);
    let mut a = Action::default();
    let _ = a.get_status_code(301, None);
    let l2 = Log::from_proxy(&req, 301, &http_headers(&inp["headers"]), Some(&a), "", u128::MAX, "");
    let _ = serde_json::to_string(&l2);
    obs.deep = true;
}

fn run_tree(ep: &Ep, inp: &Value, obs: &mut Obs) {
    let ic = inp["ic"].as_bool().unwrap_or(false);
    let unique = inp["unique"].as_bool().unwrap_or(false);
    let mut t: RegexTreeMap<u64> = RegexTreeMap::new(ic);
    let mut u: UniqueRegexTreeMap<u64> = UniqueRegexTreeMap::new(ic);
    for (k, o) in inp["ops"].as_array().map(|a| a.as_slice()).unwrap_or(&[]).iter().enumerate() {
        let re = str_of(&o["re"]);
        match o["op"].as_str().unwrap_or("") {
            "insert" => { ep.at("RegexTreeMap::insert"); if unique { u.insert(&re, k as u64) } else { t.insert(&re, &str_of(&o["id"]), k as u64) } }
            "remove" => { ep.at("RegexTreeMap::remove"); if unique { let _ = u.remove(&re); } else { let _ = t.remove(&str_of(&o["id"])); } }
            "find" => { ep.at("RegexTreeMap::find"); if unique { if !u.find(&re).is_empty() { obs.deep = true; } } else if !t.find(&re).is_empty() { obs.deep = true; } }
            "get" => { ep.at("RegexTreeMap::get"); if unique { let _ = u.get(&re); let _ = u.get_mut(&re); } else { let _ = t.get(&re).len(); let _ = t.get_mut(&re).len(); } }
            "cache" => { ep.at("RegexTreeMap::cache"); if unique { let _ = u.cache(o["limit"].as_u64().unwrap_or(0), o["level"].as_u64()); } else { let _ = t.cache(o["limit"].as_u64().unwrap_or(0), o["level"].as_u64()); } }
            "retain" => { ep.at("RegexTreeMap::retain"); let drop: Vec<String> = o["drop"].as_array().map(|a| a.iter().map(str_of).collect()).unwrap_or_default(); let f = |k: &str, _v: &mut u64| !drop.iter().any(|d| d == k); if unique { u.retain(&f) } else { t.retain(&f) } }
            "iter" => { ep.at("RegexTreeMap::iter"); if unique { let _ = u.iter().count(); for v in u.iter_mut() { *v += 1; } } else { let _ = t.iter().count(); for v in t.iter_mut() { *v += 1; } } }
            "trace" => { ep.at("RegexTreeMap::trace"); if unique { let _ = u.trace(&re); } else { let _ = t.trace(&re); } }
            _ => { ep.at("RegexTreeMap::len"); let _ = (t.len(), t.cached_len(), t.is_empty(), u.len(), u.is_empty()); let c = t.clone(); let _ = c.len(); }
        }
    }
}

fn run_changeset(ep: &Ep, inp: &Value, obs: &mut Obs) {
    let cfg = parse_cfg(ep, &inp["cfg"]);
    let mut router = Router::<Rule>::from_config(cfg.clone());
    ep.at("RulesMessage::deserialize");
    if let Some(m) = de::<RulesMessage>(&inp["message"]) { obs.deep = true; for r in m.rules { router.insert(r); } }
    let mut arc = Arc::new(router);
    for s in inp["sets"].as_array().map(|a| a.as_slice()).unwrap_or(&[]) {
        ep.at("RuleChangeSet::deserialize");
        if let Some(cs) = de::<RuleChangeSet>(s) { obs.deep = true; let _ = cs.is_empty(); ep.at("RuleChangeSet::update_existing_router"); arc = Arc::new(cs.update_existing_router(arc.clone())); }
    }
    for r in inp["requests"].as_array().map(|a| a.as_slice()).unwrap_or(&[]) { let req = build_request(ep, &cfg, r); drive_request(ep, arc.as_ref(), &req, &inp["response"], obs); }
}

fn run_family(ep: &Ep, inp: &Value) -> Obs {
    let mut obs = Obs::default();
    match inp["fam"].as_str().unwrap_or("") {
        "pipeline" => run_pipeline(ep, inp, &mut obs),
        "analysis" => run_analysis(ep, inp, &mut obs),
        "body" => run_body(ep, inp, &mut obs),
        "tokenizer" => run_tokenizer(ep, inp, &mut obs),
        "request" => run_request(ep, inp, &mut obs),
        "transform" => run_transform(ep, inp, &mut obs),
        "serde" => run_serde(ep, inp, &mut obs),
        "log" => run_log(ep, inp, &mut obs),
        "tree" => run_tree(ep, inp, &mut obs),
        "changeset" => run_changeset(ep, inp, &mut obs),
        _ => {}
    }
    obs
}

// ------------------------------------------------------------------------------------------------ one case
const FLAG_SECS: f64 = 2.0;     // more CPU time than this in the worker thread = "timed out" in the verdict (CPU time,
                                // not wall-clock time: a loaded machine must not raise an alarm)
fn thread_cpu_secs() -> f64 {
    let mut ts = libc::timespec { tv_sec: 0, tv_nsec: 0 };
    if unsafe { libc::clock_gettime(libc::CLOCK_THREAD_CPUTIME_ID, &mut ts) } != 0 { return 0.0; }
    ts.tv_sec as f64 + ts.tv_nsec as f64 * 1e-9
}
const GIVE_UP_SECS: u64 = 20;   // the watchdog stops the harness: the hung thread cannot be killed

/// Panics that are LISTED open findings (known_findings.json, property C07, field "code"): recognised by the panic
/// message when the message pins the site.  The driver prints KNOWN-FINDING for them while the entry is open and a
/// violation as soon as it is closed.  The table is empty: the one finding of this search (request_time variable,
/// to_rfc2822 on a year outside 0..=9999, code 1) is repaired in e6980ed.
const KNOWN_PANICS: &[(&str, u64)] = &[];
fn known_class(msg: &str) -> u64 {
    KNOWN_PANICS.iter().find(|(m, _)| msg.contains(m)).map(|(_, c)| *c).unwrap_or(0)
}

pub fn run_case(id: usize, input: &Value) {
    let inflight = std::env::var("VERIF_C07_INFLIGHT").unwrap_or_else(|_| "/verif/build/cases/C07_inflight.json".to_string());
    let _ = std::fs::write(&inflight, json!({"property": "C07", "input": input}).to_string());
    let ep = Ep::default();
    let (tx, rx) = std::sync::mpsc::channel();
    let (inp, ep2) = (input.clone(), ep.clone());
    let t0 = std::time::Instant::now();
    let handle = std::thread::Builder::new().name(format!("c07-{}", id)).stack_size(8 << 20).spawn(move || {
        let c0 = thread_cpu_secs();
        let r = catch(std::panic::AssertUnwindSafe(|| run_family(&ep2, &inp)));
        let _ = tx.send((r, thread_cpu_secs() - c0));
    });
    let fam = input["fam"].as_str().unwrap_or("?").to_string();
    let mut tags: Vec<String> = vec![format!("fam:{}", fam)];
    let mut cpu_secs = 0.0f64;
    let (panicked, timed_out, obs, panic_msg): (bool, bool, Obs, Option<String>) = match handle {
        Err(e) => (false, true, Obs::default(), Some(format!("cannot spawn: {}", e))),
        Ok(h) => match rx.recv_timeout(std::time::Duration::from_secs(GIVE_UP_SECS)) {
            Ok((Ok(o), cpu)) => { let _ = h.join(); cpu_secs = cpu; (false, cpu > FLAG_SECS, o, None) }
            Ok((Err(msg), cpu)) => { let _ = h.join(); cpu_secs = cpu; (true, false, Obs::default(), Some(msg)) }
            Err(_) => (false, true, Obs::default(), Some(format!("no return within {} s: harness stops here", GIVE_UP_SECS))),
        },
    };
    let secs = t0.elapsed().as_secs_f64();
    let eps = ep.all();
    if panicked || timed_out { if let Some(last) = eps.last() { tags.push(format!("{}:{}", if panicked { "panic-at" } else { "slow-at" }, last)); } }
    let mut seen = std::collections::BTreeSet::new();
    for e in &eps { if seen.insert(*e) { tags.push(format!("ep:{}", e)); } }
    if obs.deep { tags.push("deep".into()); }
    if obs.slice.is_some() { tags.push("model:slice".into()); }
    let k_slice = match &obs.slice { Some((f, t, v, _)) => format!("(Some ({}%N, {}, {}%N))", f, match t { Some(t) => format!("(Some {}%N)", t), None => "None".to_string() }, cq_str(v)), None => "None".to_string() };
    let o_slice = match &obs.slice { Some((_, _, _, out)) => format!("(Some {}%N)", cq_str(out)), None => "None".to_string() };
    let known = if panicked { known_class(panic_msg.as_deref().unwrap_or("")) } else { 0 };
    if known != 0 { tags.push(format!("known-finding-code:{}", known)); }
    let coq = format!("{{| k_family := {}%N; k_slice := {}; o_panicked := {}; o_timed_out := {}; o_slice_out := {}; o_known := {}%N |}}", family_code(&fam), k_slice, cq_bool(panicked), cq_bool(timed_out), o_slice, known);
    emit(id, &coq, input.clone(), &tags, obs.deep, json!({"panic": panic_msg, "seconds": (secs * 1000.0).round() / 1000.0, "cpu_seconds": (cpu_secs * 1000.0).round() / 1000.0, "last_entry": eps.last(), "notes": obs.notes}));
    if secs >= GIVE_UP_SECS as f64 { let _ = std::io::stdout().flush(); std::process::exit(3); }
}

// ------------------------------------------------------------------------------------------------ generators
fn gen_rules(rng: &R, n: usize) -> Vec<Value> {
    let ids = ["r0", "r1", "r2", "r3", "r1", "", "é", "r0"];
    (0..n).map(|i| gen_rule(rng, if rng.chance(1, 10) { *rng.pick(&ids) } else { ids[i % 4] })).collect()
}
fn gen_ops(rng: &R, n: usize) -> Vec<Value> {
    let mut ops: Vec<Value> = (0..n).map(|i| json!({"op": if rng.chance(1, 6) { "insert_route" } else { "insert" }, "i": i})).collect();
    for _ in 0..rng.below(5) {
        ops.push(match rng.below(8) {
            0 => json!({"op": "remove", "id": pick_s(rng, &["r0", "r1", "zz", ""])}),
            1 => json!({"op": "batch_remove", "ids": [pick_s(rng, &["r0", "r2", "zz"]), pick_s(rng, &["r1", ""])]}),
            2 | 3 => json!({"op": "cache", "limit": *rng.pick(&[json!(null), json!(0), json!(1), json!(2), json!(5), json!(1000), json!(u64::MAX), json!(9223372036854775808u64)])}),
            4 => json!({"op": "change", "added": [rng.below(n + 1)], "updated": [rng.below(n + 1), rng.below(n + 1)], "deleted": [pick_s(rng, &["r0", "r3", "zz"])]}),
            5 => json!({"op": "clone"}),
            6 => json!({"op": "insert", "i": rng.below(n + 1)}),   // same id again: possibly another bucket
            _ => json!({"op": "lookup", "id": pick_s(rng, &["r0", "zz"])}),
        });
    }
    ops
}

fn gen_pipeline(rng: &R) -> Value {
    let n = 1 + rng.below(4);
    let rules = gen_rules(rng, n);
    let requests: Vec<Value> = (0..(1 + rng.below(3))).map(|_| gen_request(rng, &rules)).collect();
    let (pv, pt) = *rng.pick(&[(0usize, 0usize), (0, 0), (50, 0), (100, 0), (0, 60), (40, 40)]);
    json!({"fam": "pipeline", "cfg": doc(rng, gen_cfg(rng), pv / 2, pt / 2), "rules": rules.into_iter().map(|r| doc(rng, r, pv, pt)).collect::<Vec<_>>(),
           "ops": gen_ops(rng, n), "requests": requests, "response": gen_response(rng)})
}
fn gen_change_set(rng: &R) -> Value {
    json!({"added": gen_rules(rng, rng.below(3)), "updated": gen_rules(rng, rng.below(3)), "deleted": (0..rng.below(3)).map(|_| pick_s(rng, &["r0", "r1", "zz", ""])).collect::<Vec<_>>()})
}
/// redirect-chain flavour: plain rules /pK -> target, unconditional redirects, examples on the rule's own URL
fn gen_chain_rules(rng: &R) -> Vec<Value> {
    let paths = ["/p0", "/p1", "/p2", "/p3"];
    let targets = ["/p0", "/p1", "/p2", "/p3", "p1", "?x=1", "https://example.org/p1", "http://other.net/p2", "//example.org/p3", "mailto:x@y", "javascript:alert(1)", "data:,x", "urn:x", "tel:+1", "", "http://[::1]/p0", "https://example.org:99999/", "http://", "/p1#f", "/é", "\u{0}"];
    (0..(1 + rng.below(4))).map(|i| {
        let ex = json!({"url": if rng.chance(1, 3) { format!("https://example.org{}", paths[i]) } else { paths[i].to_string() }, "method": maybe(rng, 1, 3, json!(pick_s(rng, &["GET", "POST"]))), "headers": null, "ip_address": null,
                        "response_status_code": maybe(rng, 1, 4, json!(*rng.pick(&[200u64, 404, 301]))), "must_match": rng.chance(3, 4), "unit_ids_applied": maybe(rng, 5, 6, json!(if rng.chance(1, 2) { vec!["u1"] } else { vec![] }))});
        json!({"id": format!("r{}", i), "source": {"path": paths[i], "host": maybe(rng, 1, 6, json!("example.org"))}, "rank": rng.below(3), "target": pick_s(rng, &targets), "status_code": *rng.pick(&[301u64, 302, 307, 308, 301, 410]),
               "redirect_unit_id": "u1", "target_hash": "th", "examples": [ex],
               "header_filters": maybe(rng, 1, 6, json!([{"action": "override", "header": "Location", "value": pick_s(rng, &targets), "id": "u3", "target_hash": "h3"}]))})
    }).collect()
}
fn gen_chain_analysis(rng: &R) -> Value {
    let kind = pick_s(rng, &["test", "explain", "impact"]);
    let project = rng.chance(1, 2);
    let rules = gen_chain_rules(rng);
    let hops = *rng.pick(&[0u64, 1, 2, 3, 5, 255]);
    let domains: Value = match rng.below(4) { 0 => json!([]), 1 => json!(["example.org"]), 2 => json!(["example.org", "other.net"]), _ => json!([""]) };
    let example = rules[rng.below(rules.len())]["examples"][0].clone();
    let cs = json!({"added": rules, "updated": [], "deleted": []});
    let d = match (kind.as_str(), project) {
        ("test", false) => json!({"router_config": gen_cfg(rng), "rules": rules, "max_hops": hops, "project_domains": domains}),
        ("test", true) => json!({"change_set": cs, "max_hops": hops, "project_domains": domains}),
        ("explain", false) => json!({"router_config": gen_cfg(rng), "example": example, "rules": rules, "max_hops": hops, "project_domains": domains}),
        ("explain", true) => json!({"example": example, "change_set": cs, "max_hops": hops, "project_domains": domains}),
        ("impact", false) => json!({"router_config": gen_cfg(rng), "max_hops": hops, "with_redirection_loop": true, "domains": domains, "rule": rules[0], "action": pick_s(rng, &["add", "update", "delete"]), "rules": rules}),
        _ => json!({"max_hops": hops, "with_redirection_loop": true, "domains": domains, "rule": rules[0], "action": pick_s(rng, &["add", "update", "delete"]), "change_set": cs}),
    };
    json!({"fam": "analysis", "kind": kind, "project": project, "doc": doc(rng, d, 10, 5), "base_cfg": "{}", "base": [], "cache": rng.chance(1, 2)})
}
fn gen_analysis(rng: &R) -> Value {
    if rng.chance(1, 4) { return gen_chain_analysis(rng); }
    let kind = pick_s(rng, &["test", "units", "explain", "impact"]);
    let project = rng.chance(1, 2);
    let hops = *rng.pick(&[0u64, 1, 2, 3, 10, 255]);
    let domains: Value = match rng.below(4) { 0 => json!([]), 1 => json!(["example.org"]), 2 => json!(["example.org", "other.net", ""]), _ => Value::Null };
    let rules = gen_rules(rng, 1 + rng.below(4));
    let mut impact_rule = gen_rule(rng, &pick_s(rng, &["r0", "imp"]));
    impact_rule["examples"] = json!((0..(1 + rng.below(3))).map(|_| gen_example(rng)).collect::<Vec<_>>());
    // the explained example usually instantiates one of the rules in play
    let cs = gen_change_set(rng);
    let explain_example = {
        let mut e = gen_example(rng);
        let pool: Vec<&Value> = if project { cs["added"].as_array().unwrap().iter().chain(cs["updated"].as_array().unwrap().iter()).collect() } else { rules.iter().collect() };
        if !pool.is_empty() && rng.chance(3, 4) {
            let (url, host, method, _, headers) = instantiate(rng, pool[rng.below(pool.len())]);
            e["url"] = match host.as_str() { Some(h) if rng.chance(1, 2) => json!(format!("https://{}{}", h, url)), _ => json!(url) };
            e["method"] = method;
            e["headers"] = json!(headers.iter().map(|h| json!({"name": h[0], "value": h[1]})).collect::<Vec<_>>());
            if rng.chance(1, 2) { e["ip_address"] = Value::Null; }
        }
        e
    };
    let mut d = match (kind.as_str(), project) {
        ("test", false) => json!({"router_config": gen_cfg(rng), "rules": rules, "max_hops": hops, "project_domains": domains}),
        ("test", true) => json!({"change_set": gen_change_set(rng), "max_hops": hops, "project_domains": domains}),
        ("units", false) => json!({"router_config": gen_cfg(rng), "rules": rules}),
        ("units", true) => json!({"change_set": gen_change_set(rng)}),
        ("explain", false) => json!({"router_config": gen_cfg(rng), "example": explain_example, "rules": rules, "max_hops": hops, "project_domains": domains}),
        ("explain", true) => json!({"example": explain_example, "change_set": cs, "max_hops": hops, "project_domains": domains}),
        ("impact", false) => json!({"router_config": gen_cfg(rng), "max_hops": hops, "with_redirection_loop": rng.chance(2, 3), "domains": domains, "rule": impact_rule, "action": pick_s(rng, &["add", "update", "delete", "", "x"]), "rules": rules}),
        _ => json!({"max_hops": hops, "with_redirection_loop": rng.chance(2, 3), "domains": domains, "rule": impact_rule, "action": pick_s(rng, &["add", "update", "delete", "x"]), "change_set": gen_change_set(rng)}),
    };
    if d.get("project_domains").map(|x| x.is_null()).unwrap_or(false) { d.as_object_mut().unwrap().remove("project_domains"); }
    if d.get("domains").map(|x| x.is_null()).unwrap_or(false) { d.as_object_mut().unwrap().remove("domains"); }
    let (pv, pt) = *rng.pick(&[(0usize, 0usize), (0, 0), (0, 0), (60, 0), (0, 50), (40, 30)]);
    let base = gen_rules(rng, rng.below(4));
    json!({"fam": "analysis", "kind": kind, "project": project, "doc": doc(rng, d, pv, pt), "base_cfg": doc(rng, gen_cfg(rng), 0, 0), "base": base.into_iter().map(|r| doc(rng, r, 0, 0)).collect::<Vec<_>>(), "cache": rng.chance(1, 2)})
}
fn gen_body(rng: &R) -> Value {
    let filters: Vec<Value> = (0..rng.below(4)).map(|_| gen_body_filter(rng)).collect();
    let hf: Vec<Value> = (0..rng.below(4)).map(|_| gen_header_filter(rng)).collect();
    let (pv, pt) = *rng.pick(&[(0usize, 0usize), (0, 0), (0, 0), (50, 0), (0, 40)]);
    json!({"fam": "body", "filters": doc(rng, json!(filters), pv, pt), "hfilters": doc(rng, json!(hf), pv, pt), "response": gen_response(rng)})
}
fn gen_tokenizer(rng: &R) -> Value {
    json!({"fam": "tokenizer", "data": bytes_val(&gen_bytes(rng)), "ctx": maybe(rng, 1, 3, json!(pool_or_wild(rng, &["script", "SCRIPT", "title", "textarea", "style", "xmp", "plaintext", "iframe", "noscript", "noembed", "noframes", "p", "", "é", "İ"]))), "cdata": maybe(rng, 1, 3, json!(rng.chance(1, 2))), "mode": rng.below(4)})
}
fn gen_request_case(rng: &R) -> Value {
    let s = match rng.below(4) { 0 => pool_or_wild(rng, URLS), 1 => pool_or_wild(rng, PATHS), 2 => pick_s(rng, ADDRS), _ => gen_string(rng) };
    json!({"fam": "request", "cfg": doc(rng, gen_cfg(rng), 20, 10), "s": s, "request": gen_request(rng, &[]), "example": doc(rng, gen_example(rng), 30, 20),
           "a": maybe(rng, 4, 5, json!(pool_or_wild(rng, if rng.chance(1, 2) { DATETIMES } else if rng.chance(1, 2) { TIMES } else { WEEKDAYS }))), "b": maybe(rng, 4, 5, json!(pool_or_wild(rng, if rng.chance(1, 2) { DATETIMES } else { TIMES })))})
}
fn gen_transform(rng: &R) -> Value {
    let value = match rng.below(5) { 0 => pick_s(rng, &["abcd", "hello world", "Hello-World_x", "aé", "é", "日本語", "a😀b", ""]), _ => gen_string(rng) };
    let names: Vec<String> = (0..(1 + rng.below(3))).map(|_| pick_s(rng, NAMES)).collect();
    let template = { let mut t = pool_or_wild(rng, &["/a/", "", "id=", "(", "\\", "é"]); for n in &names { t.push('@'); t.push_str(n); t.push_str(rng.ps(&["", "/", "@", "-"])); } t };
    let mut c = json!({"fam": "transform", "value": value, "transformers": doc(rng, gen_transformers(rng), 30, 10), "marker": doc(rng, gen_marker(rng, &names[0]), 20, 10),
        "variables": doc(rng, json!((0..(1 + rng.below(3))).map(|_| gen_variable(rng, &names)).collect::<Vec<_>>()), 20, 10), "request": gen_request(rng, &[]),
        "markers": names.iter().map(|n| json!([n, pool_or_wild(rng, REGEXES)])).collect::<Vec<_>>(),
        "template": template, "ic": rng.chance(1, 3)});
    if rng.chance(2, 3) {
        let len = c["value"].as_str().unwrap().len();
        let around = |rng: &R| -> String { match rng.below(4) { 0 => pick_s(rng, NUMS), _ => { let base = *rng.pick(&[0usize, 1, 2, len / 2, len.saturating_sub(1), len, len + 1, 99]); base.to_string() } } };
        c["slice"] = json!({"from": around(rng), "to": if rng.chance(1, 6) { Value::Null } else { json!(around(rng)) }});
    }
    c
}
/// documents the crate itself produced (actions, requests), to be mutated
fn real_docs(rng: &R) -> (Value, Value) {
    let rules = gen_rules(rng, 1 + rng.below(3));
    let reqv = gen_request(rng, &rules);
    let r = catch(std::panic::AssertUnwindSafe(|| {
        let ep = Ep::default();
        let cfg = RouterConfig::default();
        let mut router = Router::<Rule>::from_config(cfg.clone());
        for x in &rules { if let Ok(rule) = serde_json::from_value::<Rule>(x.clone()) { router.insert(rule); } }
        let req = build_request(&ep, &cfg, &reqv);
        let action = Action::from_routes_rule(router.match_request(&req), &req, None);
        (serde_json::to_value(&action).unwrap_or(Value::Null), serde_json::to_value(&req).unwrap_or(Value::Null))
    }));
    r.unwrap_or((Value::Null, Value::Null))
}
fn gen_serde(rng: &R) -> Value {
    let ty = pick_s(rng, &["action", "action", "request", "request", "rule", "example", "unit_trace", "log", "legacy_log", "config"]);
    let (action, request) = real_docs(rng);
    let d = match ty.as_str() {
        "action" => if action.is_null() || rng.chance(1, 6) { json!({"status_code_update": {"status_code": 301, "on_response_status_codes": [], "exclude_response_status_codes": false, "fallback_status_code": 0}, "header_filters": [], "body_filters": [], "rule_ids": ["a"], "log_override": null}) } else { action },
        "request" => if request.is_null() { json!({"path_and_query": {"path_and_query": "/a", "path_and_query_matching": null, "skipped_query_params": null, "original": "/a"}, "path_and_query_v2": null, "host": null, "scheme": null, "method": null, "headers": [], "remote_addr": null, "created_at": null, "sampling_override": null}) } else { request },
        "rule" => gen_rule(rng, "r0"),
        "example" => gen_example(rng),
        "unit_trace" => json!({"rule_ids_applied": ["a"], "unit_ids_applied": ["u1", ""], "unit_ids_seen": ["u1"], "value_computed_by_units": {"u1": "v"}}),
        "log" => json!({"code": 200, "to": "", "time": 1, "proxy": "p", "ips": ["1.2.3.4"], "from": {"ruleIds": ["a"], "url": "/", "method": null, "scheme": null, "host": null, "referer": null, "userAgent": null, "contentType": null}, "duration": 340282366920938463463374607431768211455u128.to_string().parse::<f64>().unwrap_or(0.0)}),
        "legacy_log" => json!({"status_code": 301, "host": "h", "method": null, "request_uri": "/a", "user_agent": null, "referer": null, "scheme": null, "use_json": true, "target": "/t", "rule_id": "r"}),
        _ => gen_cfg(rng),
    };
    let (pv, pt) = *rng.pick(&[(0usize, 0usize), (80, 0), (80, 0), (0, 70), (50, 50)]);
    json!({"fam": "serde", "type": ty, "doc": doc(rng, d, pv, pt), "response": gen_response(rng), "rules": gen_rules(rng, rng.below(3)).into_iter().map(|r| doc(rng, r, 0, 0)).collect::<Vec<_>>(), "proxy": gen_string(rng)})
}
fn gen_log(rng: &R) -> Value {
    let mut req = gen_request(rng, &[]);
    let hs: Vec<Value> = (0..(1 + rng.below(4))).map(|_| json!([pick_s(rng, &["X-Forwarded-For", "Forwarded", "forwarded", "User-Agent", "Referer", "x-forwarded-for"]), pool_or_wild(rng, &["1.2.3.4", "1.2.3.4, ::1", "for=1.2.3.4", "for=\"[::1]:80\";by=x, for=y", "for=", "=", ";", ",", "for", "FOR=1.2.3.4:99999", "for=\"", "for=\"\"", " for = \"1.2.3.4\" "])])).collect();
    req["headers"] = json!(hs);
    json!({"fam": "log", "request": req, "code": *rng.pick(CODES), "headers": (0..rng.below(3)).map(|_| json!([pick_s(rng, HEADER_NAMES), gen_string(rng)])).collect::<Vec<_>>(), "proxy": gen_string(rng),
           "start": pick_s(rng, &["0", "1", "1700000000000", "340282366920938463463374607431768211455", "99999999999999999999"]), "client_ip": pool_or_wild(rng, ADDRS)})
}
fn gen_tree(rng: &R) -> Value {
    let pats: Vec<String> = (0..(2 + rng.below(6))).map(|_| match rng.below(4) { 0 => pool_or_wild(rng, REGEXES), 1 => format!("/a/{}", rng.pick(REGEXES)), 2 => format!("/a/b{}", "(x)".repeat(rng.below(4))), _ => format!("{}{}", rng.pick(&["/a", "/a/b", "/é", "", "/a(", "/a\\"]), rng.pick(REGEXES)) }).collect();
    let mut ops: Vec<Value> = Vec::new();
    for k in 0..(3 + rng.below(12)) {
        ops.push(match rng.below(10) {
            0..=3 => json!({"op": "insert", "re": rng.pick(&pats), "id": format!("i{}", rng.below(5))}),
            4 => json!({"op": "remove", "re": rng.pick(&pats), "id": format!("i{}", rng.below(6))}),
            5 => json!({"op": "find", "re": pool_or_wild(rng, &["/a/12", "/a/b", "/a", "", "/é", "/a/bx"])}),
            6 => json!({"op": "cache", "limit": *rng.pick(&[0u64, 1, 2, 3, 1000, u64::MAX]), "level": *rng.pick(&[json!(null), json!(0), json!(1), json!(7), json!(u64::MAX)])}),
            7 => json!({"op": "retain", "drop": [format!("i{}", rng.below(5))]}),
            8 => json!({"op": *rng.pick(&["iter", "trace", "get", "len"]), "re": rng.pick(&pats)}),
            _ => json!({"op": "find", "re": rng.pick(&pats)}),
        });
        let _ = k;
    }
    json!({"fam": "tree", "ic": rng.chance(1, 3), "unique": rng.chance(1, 3), "ops": ops})
}
fn gen_changeset(rng: &R) -> Value {
    let base = gen_rules(rng, rng.below(4));
    let (pv, pt) = *rng.pick(&[(0usize, 0usize), (0, 0), (50, 0), (0, 40)]);
    let sets: Vec<Value> = (0..(1 + rng.below(3))).map(|_| doc(rng, gen_change_set(rng), pv, pt)).collect();
    let requests: Vec<Value> = (0..(1 + rng.below(2))).map(|_| gen_request(rng, &base)).collect();
    json!({"fam": "changeset", "cfg": doc(rng, gen_cfg(rng), 0, 0), "message": doc(rng, json!({"hydra:member": base}), pv, pt), "sets": sets, "requests": requests, "response": gen_response(rng)})
}

pub fn generate(seed: u64, thorough: bool) -> Vec<Value> {
    let rng = R::new(seed ^ 0x07);
    // weights per family (sum 100)
    let plan: &[(&str, usize)] = &[("pipeline", 26), ("analysis", 16), ("body", 10), ("tokenizer", 8), ("request", 8), ("transform", 10), ("serde", 10), ("log", 3), ("tree", 4), ("changeset", 5)];
    let n = if thorough { 100000 } else { 3000 };
    let mut out = Vec::with_capacity(n);
    for _ in 0..n {
        let mut k = rng.below(100);
        let mut fam = "pipeline";
        for (f, w) in plan { if k < *w { fam = f; break; } k -= w; }
        let r = rng.fork();
        out.push(match fam {
            "pipeline" => gen_pipeline(&r), "analysis" => gen_analysis(&r), "body" => gen_body(&r), "tokenizer" => gen_tokenizer(&r),
            "request" => gen_request_case(&r), "transform" => gen_transform(&r), "serde" => gen_serde(&r), "log" => gen_log(&r),
            "tree" => gen_tree(&r), _ => gen_changeset(&r),
        });
    }
    out
}
