//! C08 / C12 (tree level): histories over RegexTreeMap / UniqueRegexTreeMap.
//! Input: {"ic":bool,"unique":bool,"ops":[{"op":"ins","p":..,"k":..,"v":n}|{"op":"rem","k":..}|{"op":"retain","drop":[..]}|{"op":"cache","limit":n,"level":n|null}],
//!         "hays":[..],"pats":[..]}
use crate::common::*;
use redirectionio::regex_radix_tree::{RegexTreeMap, UniqueRegexTreeMap};
use serde_json::{json, Value};

/// token = literal char or group body (the text between the parentheses, including ?: when non capturing)
#[derive(Clone)]
enum Tok { Lit(char), Grp(&'static str) }

const LITS: &[char] = &['/', 'a', 'b', 'c', '-', '.', 'x', '\u{e9}', '(', '+'];
const GROUPS: &[&str] = &[
    "?:[a-z]+", "[0-9]+", "?:.+?", "cat|dog", "?:([\\p{Ll}]|\\-)+?", "?:\\(|a)+", "?:[a-c]{2}", "?:(?:x|y)(?:z)?", "?:(a|\\)|b)+?", "?:[)(]\\)x|y)",
    // parentheses that are literals inside a character class (the scanner of prefix.rs is class-aware since 9944bb4)
    "?:[^)]+", "[^(]+", "?:[])]x", "?:x[!-[](]])y", "?:[^])]+",
];
/// samples inside / outside each group's language (same order as GROUPS)
const SAMPLES: &[&[&str]] = &[
    &["foo", "a", "A1", ""], &["42", "7", "x", ""], &["zz", "a/b", "", "-"], &["cat", "dog", "cow", "catdog"],
    &["ab-c", "\u{e9}a", "A", ""], &["(a", "aa", "b", "("], &["ab", "cc", "abc", "d"], &["xz", "y", "z", "xy"], &["a)b", ")", "c", ""], &["))x", "y", "()x", "x"],
    &["foo", "a(b", "a)b", ""], &["foo", "x)", "(", ""], &["]x", ")x", "x", "]"], &["x!]]y", "x[]]y", "x]]y", "xa]]y"], &["foo", "a(b", "a)b", "]"],
];

fn render(ts: &[Tok]) -> String {
    let mut s = String::new();
    for t in ts {
        match t {
            Tok::Lit(c) => s.push_str(&regex::escape(&c.to_string())),
            Tok::Grp(b) => { s.push('('); s.push_str(b); s.push(')'); }
        }
    }
    s
}
fn group_index(b: &str) -> usize { GROUPS.iter().position(|g| *g == b).unwrap() }

fn instantiate(ts: &[Tok], rng: &mut Rng, good: bool) -> String {
    let mut s = String::new();
    for t in ts {
        match t {
            Tok::Lit(c) => s.push(*c),
            Tok::Grp(b) => {
                let smp = SAMPLES[group_index(b)];
                let i = if good { rng.below(2) } else { rng.below(smp.len()) };
                s.push_str(smp[i]);
            }
        }
    }
    s
}

fn gen_tokens(rng: &mut Rng, base: &[Tok]) -> Vec<Tok> {
    // keep a prefix of the base, then extend; at least one group overall
    let keep = rng.below(base.len() + 1);
    let mut ts: Vec<Tok> = base[..keep].to_vec();
    let extra = 1 + rng.below(4);
    for _ in 0..extra {
        if rng.chance(1, 3) { ts.push(Tok::Grp(GROUPS[rng.below(GROUPS.len())])); } else { ts.push(Tok::Lit(*rng.pick(LITS))); }
    }
    if !ts.iter().any(|t| matches!(t, Tok::Grp(_))) {
        let pos = rng.below(ts.len() + 1);
        ts.insert(pos, Tok::Grp(GROUPS[rng.below(GROUPS.len())]));
    }
    ts
}

pub fn gen_case(rng: &mut Rng) -> Value {
    let ic = rng.chance(1, 3);
    let unique = rng.chance(1, 5);
    // pattern pool sharing prefixes
    let mut base: Vec<Tok> = Vec::new();
    for _ in 0..(2 + rng.below(4)) {
        if rng.chance(1, 4) { base.push(Tok::Grp(GROUPS[rng.below(GROUPS.len())])); } else { base.push(Tok::Lit(*rng.pick(LITS))); }
    }
    let npool = 2 + rng.below(6);
    let mut pool: Vec<Vec<Tok>> = Vec::new();
    for i in 0..npool {
        let b = if i > 0 && rng.chance(1, 2) { pool[rng.below(pool.len())].clone() } else { base.clone() };
        pool.push(gen_tokens(rng, &b));
    }
    // a pattern that is exactly a token-prefix of another (leaf equal to a node prefix)
    if rng.chance(1, 2) {
        let p = pool[rng.below(pool.len())].clone();
        let mut k = 1 + rng.below(p.len());
        while k <= p.len() && !p[..k].iter().any(|t| matches!(t, Tok::Grp(_))) { k += 1; }
        if k <= p.len() { pool.push(p[..k].to_vec()); }
    }
    let pats: Vec<String> = pool.iter().map(|t| render(t)).collect();
    let mut hays: Vec<String> = Vec::new();
    for _ in 0..5 {
        let p = &pool[rng.below(pool.len())];
        let good = rng.chance(3, 4);
        let mut h = instantiate(p, rng, good);
        if rng.chance(1, 6) { h.push('x'); }
        if ic && rng.chance(1, 2) { h = h.to_uppercase(); }
        hays.push(h);
    }
    let nops = 1 + rng.below(12);
    let mut ops: Vec<Value> = Vec::new();
    let mut live: Vec<(String, String)> = Vec::new(); // (id, pattern)
    let mut next_id = 0usize;
    let mut next_v = 1u64;
    for _ in 0..nops {
        let r = rng.below(100);
        if r < 55 || live.is_empty() {
            let (k, p) = if !live.is_empty() && rng.chance(1, 6) {
                let e = live[rng.below(live.len())].clone();
                (e.0, e.1)
            } else {
                let p = pats[rng.below(pats.len())].clone();
                if unique {
                    (p.clone(), p)
                } else {
                    next_id += 1;
                    (format!("r{}", next_id), p)
                }
            };
            live.retain(|e| e.0 != k);
            live.push((k.clone(), p.clone()));
            ops.push(json!({"op": "ins", "p": p, "k": k, "v": next_v}));
            next_v += 1;
        } else if r < 75 {
            let k = if rng.chance(4, 5) { live[rng.below(live.len())].0.clone() } else { "absent".to_string() };
            live.retain(|e| e.0 != k);
            ops.push(json!({"op": "rem", "k": k}));
        } else if r < 83 {
            let mut drop: Vec<String> = Vec::new();
            for e in &live { if rng.chance(1, 3) { drop.push(e.0.clone()); } }
            live.retain(|e| !drop.contains(&e.0));
            ops.push(json!({"op": "retain", "drop": drop}));
        } else {
            let limit = *rng.pick(&[0u64, 1, 2, 3, 5, 1000]);
            let level: Value = match rng.below(4) { 0 => Value::Null, n => json!(n - 1) };
            ops.push(json!({"op": "cache", "limit": limit, "level": level}));
        }
    }
    json!({"ic": ic, "unique": unique, "ops": ops, "hays": hays, "pats": pats})
}

enum Tree { Multi(RegexTreeMap<u64>), Unique(UniqueRegexTreeMap<u64>) }

fn cq_chars(s: &str) -> String {
    let v: Vec<u32> = s.chars().map(|c| c as u32).collect();
    cq_list(&v, |x| x.to_string())
}

pub fn run_case(id: usize, input: &Value) {
    if input["kind"] == "router_cache" { run_router_cache(id, input); return; }
    let ic = input["ic"].as_bool().unwrap();
    let unique = input["unique"].as_bool().unwrap();
    let hays: Vec<String> = input["hays"].as_array().unwrap().iter().map(|x| x.as_str().unwrap().to_string()).collect();
    let pats: Vec<String> = input["pats"].as_array().unwrap().iter().map(|x| x.as_str().unwrap().to_string()).collect();
    let ops = input["ops"].as_array().unwrap().clone();
    let hays2 = hays.clone();
    let pats2 = pats.clone();
    let ops2 = ops.clone();
    let res = catch(move || {
        let mut tree = if unique { Tree::Unique(UniqueRegexTreeMap::new(ic)) } else { Tree::Multi(RegexTreeMap::new(ic)) };
        let mut obs: Vec<Vec<Vec<u64>>> = Vec::new();
        for o in &ops2 {
            let mut rc = 0u64;
            let mut left = 0u64;
            match o["op"].as_str().unwrap() {
                "ins" => {
                    let (p, k, v) = (o["p"].as_str().unwrap(), o["k"].as_str().unwrap(), o["v"].as_u64().unwrap());
                    match &mut tree { Tree::Multi(t) => t.insert(p, k, v), Tree::Unique(t) => t.insert(p, v) }
                }
                "rem" => {
                    let k = o["k"].as_str().unwrap();
                    let r = match &mut tree { Tree::Multi(t) => t.remove(k), Tree::Unique(t) => t.remove(k) };
                    rc = match r { None => 1, Some(v) => 2 + v };
                }
                "retain" => {
                    let drop: Vec<String> = o["drop"].as_array().unwrap().iter().map(|x| x.as_str().unwrap().to_string()).collect();
                    let f = |k: &str, _v: &mut u64| !drop.iter().any(|d| d == k);
                    match &mut tree { Tree::Multi(t) => t.retain(&f), Tree::Unique(t) => t.retain(&f) }
                }
                "cache" => {
                    let limit = o["limit"].as_u64().unwrap();
                    let level = o["level"].as_u64();
                    left = match &mut tree { Tree::Multi(t) => t.cache(limit, level), Tree::Unique(t) => t.cache(limit, level) };
                }
                _ => panic!("bad op"),
            }
            let (len, cached) = match &tree { Tree::Multi(t) => (t.len(), t.cached_len()), Tree::Unique(t) => (t.len(), t.verif_cached_len()) };
            let mut one: Vec<Vec<u64>> = vec![vec![len as u64, cached as u64, rc, left]];
            for h in &hays2 {
                let mut f: Vec<u64> = match &tree { Tree::Multi(t) => t.find(h).into_iter().cloned().collect(), Tree::Unique(t) => t.find(h).into_iter().cloned().collect() };
                f.sort();
                one.push(f);
            }
            for p in &pats2 {
                let mut g: Vec<u64> = match &tree { Tree::Multi(t) => t.get(p).into_iter().cloned().collect(), Tree::Unique(t) => t.get(p).into_iter().cloned().collect() };
                g.sort();
                one.push(g);
            }
            obs.push(one);
        }
        obs
    });
    let obs = match res {
        Ok(o) => o,
        Err(e) => { emit(id, "", input.clone(), &["panic".to_string()], false, json!({"panic": e})); return; }
    };
    let cq_ops = cq_list(&ops, |o| match o["op"].as_str().unwrap() {
        "ins" => format!("HIns {} {} {}%N", cq_chars(o["p"].as_str().unwrap()), cq_chars(o["k"].as_str().unwrap()), o["v"].as_u64().unwrap()),
        "rem" => format!("HRem {}", cq_chars(o["k"].as_str().unwrap())),
        "retain" => format!("HRetain {}", cq_list(o["drop"].as_array().unwrap(), |d| cq_chars(d.as_str().unwrap()))),
        _ => format!("HCache {}%N {}", o["limit"].as_u64().unwrap(), match o["level"].as_u64() { None => "None".to_string(), Some(l) => format!("(Some {}%nat)", l) }),
    });
    let cq_obs = cq_list(&obs, |one| cq_list(one, |l| cq_list(l, |x| x.to_string())));
    let coq = format!("{{| c_ic := {}; c_unique := {}; c_ops := {}; c_hays := {}; c_pats := {}; c_obs := {} |}}",
        cq_bool(ic), cq_bool(unique), cq_ops, cq_list(&hays, |h| cq_chars(h)), cq_list(&pats, |p| cq_chars(p)), cq_obs);
    let mut tags: Vec<String> = Vec::new();
    for o in &ops { tags.push(format!("op:{}", o["op"].as_str().unwrap())); }
    tags.sort(); tags.dedup();
    tags.push(format!("nops:{}", ops.len()));
    if ic { tags.push("ignore_case".into()); }
    if unique { tags.push("unique".into()); }
    let maxlen = obs.iter().map(|o| o[0][0]).max().unwrap_or(0);
    tags.push(format!("maxlen:{}", maxlen.min(6)));
    let any_find = obs.iter().any(|o| o[1..1 + hays.len()].iter().any(|f| !f.is_empty()));
    let nontrivial = maxlen >= 2 && any_find;
    emit(id, &coq, input.clone(), &tags, nontrivial, json!({"last_obs": obs.last()}));
}

pub fn generate(seed: u64, thorough: bool) -> Vec<Value> {
    let mut rng = Rng::new(seed ^ 0x08);
    let n = if thorough { 6000 } else { 700 };
    (0..n).map(|_| gen_case(&mut rng)).collect()
}

/// C12: histories dense in cache steps, plus an exhaustive sweep of (limit, level) on small trees.
pub fn generate_c12(seed: u64, thorough: bool) -> Vec<Value> {
    let mut rng = Rng::new(seed ^ 0x12);
    let mut out = Vec::new();
    let n = if thorough { 3000 } else { 400 };
    for _ in 0..n {
        let mut c = gen_case(&mut rng);
        let ops = c["ops"].as_array().unwrap().clone();
        let mut dense = Vec::new();
        for o in ops {
            let is_cache = o["op"] == "cache";
            dense.push(o);
            if !is_cache && rng.chance(3, 5) {
                let limit = *rng.pick(&[0u64, 1, 2, 3, 4, 6, 1000]);
                let level: Value = match rng.below(5) { 0 => Value::Null, n => json!(n - 1) };
                dense.push(json!({"op": "cache", "limit": limit, "level": level}));
            }
        }
        c["ops"] = Value::Array(dense);
        out.push(c);
    }
    let nr = if thorough { 600 } else { 80 };
    for _ in 0..nr { out.push(gen_router_cache(&mut rng)); }
    // exhaustive (limit, level) sweep after a base history without cache steps
    let nbase = if thorough { 40 } else { 6 };
    for _ in 0..nbase {
        let mut base = gen_case(&mut rng);
        let ops: Vec<Value> = base["ops"].as_array().unwrap().iter().filter(|o| o["op"] != "cache").cloned().collect();
        base["ops"] = Value::Array(ops.clone());
        for limit in 0..8u64 {
            for level in [None, Some(0u64), Some(1), Some(2), Some(3)] {
                let mut c = base.clone();
                let mut o2 = ops.clone();
                o2.push(json!({"op": "cache", "limit": limit, "level": level}));
                // a second warm-up and an update after it: caching twice / caching between updates
                o2.push(json!({"op": "cache", "limit": 1, "level": Value::Null}));
                if let Some(first) = ops.first() { if first["op"] == "ins" { o2.push(json!({"op": "rem", "k": first["k"]})); } }
                c["ops"] = Value::Array(o2);
                out.push(c);
            }
        }
    }
    out
}


// ---------------------------------------------------------------- C12 at router level: match, captures (Location) and trace after Router::cache
const RC_TEMPLATES: &[(&str, &str, &str)] = &[("/shop/@name", "[a-z]+", "/store/@name"), ("/Blog/@name", "[a-z\\-]+", "/b/@name/x"), ("/p/@name", "[0-9]+", "/q?id=@name"), ("/@name/end", "(?:cat|dog)", "/animal/@name")];
const RC_URLS: &[&str] = &["/shop/abc", "/Shop/abc", "/Blog/my-post", "/blog/x", "/p/42", "/p/x", "/cat/end", "/dog/end", "/static", "/zzz"];

fn gen_router_cache(rng: &mut Rng) -> Value {
    let n = 1 + rng.below(5);
    let mut rules = Vec::new();
    for i in 0..n {
        if rng.chance(1, 4) {
            rules.push(json!({"id": format!("s{}", i), "rank": rng.below(3), "status_code": 301, "target": "/static-target", "source": {"path": "/static"}}));
        } else {
            let t = rng.pick(RC_TEMPLATES);
            // Greek capital sigma: str::to_lowercase gives a FINAL sigma at the end of a word, the regex crate's case folding
            // treats the three sigmas alike; two such hosts share the plain-text prefix "ΠΡΟΣ"
            let host: Value = match rng.below(8) { 0 | 1 => json!("@h.example.org"), 2 => json!("\u{3a0}\u{3a1}\u{39f}\u{3a3}@h.example.org"), 3 => json!("\u{3a0}\u{3a1}\u{39f}\u{3a3}-@h.example.org"), _ => Value::Null };
            let mut markers = vec![json!({"name": "name", "regex": t.1})];
            if !host.is_null() { markers.push(json!({"name": "h", "regex": "[a-z]+"})); }
            rules.push(json!({"id": format!("m{}", i), "rank": rng.below(3), "status_code": 301, "target": if host.is_null() { json!(t.2) } else { json!(format!("https://@h.example.net{}", t.2)) },
                              "source": {"path": t.0, "host": host}, "markers": markers,
                              "header_filters": if rng.chance(1, 3) { json!([{"action": "add", "header": "X-Name", "value": "n=@name"}]) } else { Value::Null }}));
        }
    }
    let limits: Vec<Value> = (0..3).map(|_| match rng.below(6) { 0 => Value::Null, 1 => json!(0), 2 => json!(1), 3 => json!(2), 4 => json!(5), _ => json!(1000) }).collect();
    let late = { let t = rng.pick(RC_TEMPLATES); json!({"id": "late", "rank": 1, "status_code": 302, "target": t.2, "source": {"path": t.0}, "markers": [{"name": "name", "regex": t.1}]}) };
    json!({"kind": "router_cache", "cfg": {"ignore_host_case": rng.chance(1, 2), "ignore_path_and_query_case": rng.chance(1, 2)}, "rules": rules, "limits": limits, "late": late,
           "hosts": [Value::Null, json!("shop.example.org"), json!("\u{3c0}\u{3c1}\u{3bf}\u{3c3}ab.example.org"), json!("\u{3a0}\u{3a1}\u{39f}\u{3a3}-ab.example.org")]})
}

fn run_router_cache(id: usize, input: &Value) {
    use redirectionio::action::Action;
    use redirectionio::api::Rule;
    use redirectionio::http::Request;
    use redirectionio::router::Router;
    use redirectionio::RouterConfig;
    let inp = input.clone();
    let res = catch(move || {
        let cfg: RouterConfig = serde_json::from_value(inp["cfg"].clone()).expect("cfg");
        let mut base = Router::<Rule>::from_config(cfg.clone());
        for r in inp["rules"].as_array().unwrap() { base.insert(serde_json::from_value::<Rule>(r.clone()).expect("rule")); }
        let observe = |router: &Router<Rule>| -> Vec<Value> {
            let mut out = Vec::new();
            for h in inp["hosts"].as_array().unwrap() {
                for u in RC_URLS {
                    let req = Request::from_config(&cfg, u.to_string(), h.as_str().map(|s| s.to_string()), None, None, None, None);
                    let routes = router.match_request(&req);
                    let mut ids: Vec<String> = routes.iter().map(|r| r.id().to_string()).collect(); ids.sort();
                    let targets: Vec<Option<String>> = { let mut rs = routes.clone(); rs.sort_by(|a, b| a.id().cmp(b.id())); rs.iter().map(|r| Action::get_target(r, &req)).collect() };
                    let mut action = Action::from_routes_rule(routes, &req, None);
                    let code = action.get_status_code(0, None);
                    let headers = action.filter_headers(Vec::new(), code, false, None);
                    let traces = router.trace_request(&req);
                    let mut tr: Vec<String> = redirectionio::router::Trace::get_routes_from_traces(&traces).iter().map(|r| r.id().to_string()).collect(); tr.sort(); tr.dedup();
                    out.push(json!([ids, targets, code, headers.iter().map(|x| json!([x.name, x.value])).collect::<Vec<_>>(), tr]));
                }
            }
            out
        };
        let reference = observe(&base);
        let mut same = true;
        let mut detail = Vec::new();
        // cache with each limit on a clone (and twice), then insert a rule after caching and compare with the uncached router after the same insert
        let late: Rule = serde_json::from_value(inp["late"].clone()).expect("late");
        let mut plain_late = base.clone(); plain_late.insert(late.clone());
        let reference_late = observe(&plain_late);
        for l in inp["limits"].as_array().unwrap() {
            let mut c = base.clone();
            c.cache(l.as_u64());
            if observe(&c) != reference { same = false; detail.push(json!({"limit": l, "phase": "after cache"})); }
            c.cache(l.as_u64());
            if observe(&c) != reference { same = false; detail.push(json!({"limit": l, "phase": "after second cache"})); }
            c.insert(late.clone());
            if observe(&c) != reference_late { same = false; detail.push(json!({"limit": l, "phase": "insert after cache"})); }
            c.cache(None);
            if observe(&c) != reference_late { same = false; detail.push(json!({"limit": l, "phase": "cache after insert"})); }
        }
        let captured = reference.iter().any(|o| o[1].as_array().unwrap().iter().any(|t| t.is_string()));
        (same, detail, captured)
    });
    let (same, detail, captured) = match res {
        Ok(x) => x,
        Err(e) => { emit(id, "", input.clone(), &["panic".to_string()], false, json!({"panic": e})); return; }
    };
    // encoded as a tree case without operations: the model and the flat specification observe nothing, so any recorded observation is a disagreement
    let coq = format!("{{| c_ic := false; c_unique := false; c_ops := []; c_hays := []; c_pats := []; c_obs := {} |}}", if same { "[]" } else { "[[[0]]]" });
    emit(id, &coq, input.clone(), &["router-cache-capture".to_string()], captured, json!({"same": same, "detail": detail}));
}
