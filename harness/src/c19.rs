//! C19: project-level analyses (test-examples, unit-ids, explain, impact) computed incrementally (existing router +
//! change-set) against the same analyses computed from scratch on the resulting rule list; the reported response
//! against an independent replay of the live pipeline; redirect-chain analysis against the loop model.
//! Input: {"cfg":{..},"base":[Rule..],"added":[Rule..],"updated":[Rule..],"deleted":[id..],"example":Example,"max_hops":n,"domains":[..],
//!         "impact":{"rule":Rule,"action":"add"|"update"|"delete"}, "shuffle":[perm of final list]}
use crate::common::*;
use redirectionio::action::Action;
use redirectionio::api::*;
use redirectionio::http::Request;
use redirectionio::router::Router;
use redirectionio::RouterConfig;
use serde_json::{json, Value};
use std::collections::{BTreeMap, BTreeSet};
use std::sync::Arc;

const PATHS: &[&str] = &["/a", "/b", "/c", "/d", "/e"];
const UNITS: &[&str] = &["u1", "u2", "u3", "u4"];

fn gen_example(rng: &mut Rng, units: bool) -> Value {
    let url = match rng.below(8) { 0 => "https://example.org/a".to_string(), 1 => "/a?x=1".to_string(), 2 => "http://other.net/b".to_string(), _ => rng.pick(PATHS).to_string() };
    json!({"url": url, "method": match rng.below(5) { 0 | 1 => json!("POST"), 2 => json!("GET"), _ => Value::Null },
           "headers": if rng.chance(1, 4) { json!([{"name": "X-A", "value": "1"}]) } else { Value::Null },
           "ip_address": Value::Null,
           "datetime": match rng.below(4) { 0 => json!("2024-03-04T10:00:00Z"), 1 => json!("2024-04-07T10:00:00Z"), _ => Value::Null },
           "response_status_code": match rng.below(5) { 0 => json!(404), 1 => json!(200), 2 => json!(301), _ => Value::Null },
           "must_match": rng.chance(2, 3),
           "unit_ids_applied": if units || rng.chance(3, 4) { let k = rng.below(3); let mut v: Vec<&str> = Vec::new(); for _ in 0..k { let u = *rng.pick(UNITS); if !v.contains(&u) { v.push(u); } } json!(v) } else { Value::Null }})
}

fn gen_rule(rng: &mut Rng, id: &str, version: usize) -> Value {
    let status: Value = match rng.below(8) { 0 => Value::Null, 1 => json!(0), 2 | 3 => json!(301), 4 => json!(302), 5 => json!(307), 6 => json!(308), _ => json!(410) };
    let target: Value = match rng.below(9) { 8 => json!("__SELF__"), 0 => Value::Null, 1 => json!("https://example.org/b"), 2 => json!("http://other.net/z"), 3 => json!("c"), 4 => json!("/a?x=1"), _ => json!(*rng.pick(PATHS)) };
    let codes: Value = match rng.below(4) { 0 => json!([404]), 1 => json!([200, 301]), _ => Value::Null };
    let hf: Value = match rng.below(6) { 4 => json!([{"action": "add", "header": "Content-Type", "value": *rng.pick(&["text/plain", "text/html"]), "id": *rng.pick(UNITS), "target_hash": "h3"}]),
                                         5 => json!([{"action": "override", "header": "Content-Encoding", "value": *rng.pick(&["gzip", "zstd"]), "id": *rng.pick(UNITS), "target_hash": "h4"}]),
                                         0 => json!([{"action": "add", "header": "X-V", "value": format!("{}v{}", id, version), "id": *rng.pick(UNITS), "target_hash": "h1"}]),
                                         1 => json!([{"action": "override", "header": "Location", "value": *rng.pick(PATHS), "id": *rng.pick(UNITS), "target_hash": "h2"}]), _ => Value::Null };
    let bf: Value = match rng.below(5) { 0 => json!([{"action": "append_text", "content": format!("[{}]", id), "id": *rng.pick(UNITS), "target_hash": "b1"}]),
                                         1 => json!([{"action": "append_child", "value": format!("<i>{}</i>", id), "element_tree": ["html", "body"], "css_selector": null, "id": *rng.pick(UNITS), "target_hash": "b2"}]), _ => Value::Null };
    let nex = rng.below(3);
    let examples: Value = if nex == 0 && rng.chance(1, 2) { Value::Null } else { json!((0..nex).map(|_| gen_example(rng, false)).collect::<Vec<_>>()) };
    let path = *rng.pick(PATHS);
    let target = if target == json!("__SELF__") { json!(path) } else { target };
    json!({"id": id, "rank": rng.below(3), "status_code": status, "target": target,
           "source": {"path": path, "host": match rng.below(5) { 0 => json!("example.org"), _ => Value::Null },
                      "methods": match rng.below(6) { 0 => json!(["GET"]), 1 => json!(["POST"]), _ => Value::Null },
                      "response_status_codes": codes, "exclude_response_status_codes": if rng.chance(1, 6) { json!(true) } else { Value::Null },
                      // time-restricted rules (the examples below carry a date inside / outside the window)
                      "weekdays": match rng.below(8) { 0 => json!(["Monday", "Tuesday"]), 1 => json!(["Sunday"]), _ => Value::Null },
                      "datetime": if rng.chance(1, 10) { json!([["2024-03-01T00:00:00Z", "2024-03-31T00:00:00Z"]]) } else { Value::Null }},
           "header_filters": hf, "body_filters": bf,
           "log_override": match rng.below(5) { 0 => json!(true), 1 => json!(false), _ => Value::Null },
           "reset": if rng.chance(1, 8) { json!(true) } else { Value::Null }, "stop": if rng.chance(1, 8) { json!(true) } else { Value::Null },
           "redirect_unit_id": if rng.chance(1, 2) { json!(*rng.pick(UNITS)) } else { Value::Null }, "target_hash": if rng.chance(1, 2) { json!("t1") } else { Value::Null },
           "configuration_log_unit_id": if rng.chance(1, 3) { json!(*rng.pick(UNITS)) } else { Value::Null },
           "configuration_reset_unit_id": if rng.chance(1, 3) { json!(*rng.pick(UNITS)) } else { Value::Null },
           "examples": examples})
}

pub fn generate(seed: u64, thorough: bool) -> Vec<Value> {
    let mut rng = Rng::new(seed ^ 0x19);
    let n = if thorough { 3000 } else { 300 };
    let mut out = Vec::new();
    for _ in 0..n {
        let nb = 1 + rng.below(7);
        let base: Vec<Value> = (0..nb).map(|i| gen_rule(&mut rng, &format!("r{}", i), 0)).collect();
        let mut updated = Vec::new(); let mut deleted = Vec::new();
        for i in 0..nb { match rng.below(5) { 0 => updated.push(gen_rule(&mut rng, &format!("r{}", i), 1)), 1 => deleted.push(format!("r{}", i)), _ => {} } }
        if rng.chance(1, 8) { deleted.push("absent".to_string()); }
        let na = rng.below(3);
        let added: Vec<Value> = (0..na).map(|i| gen_rule(&mut rng, &format!("n{}", i), 0)).collect();
        let (updated, deleted, added) = if rng.chance(1, 8) { (vec![], vec![], vec![]) } else { (updated, deleted, added) };
        let nfinal = nb - deleted.iter().filter(|d| *d != "absent").count() + added.len();
        let mut perm: Vec<usize> = (0..nfinal).collect();
        for i in (1..nfinal).rev() { let j = rng.below(i + 1); perm.swap(i, j); }
        let which = rng.below(nb);
        let impact_rule = if rng.chance(1, 2) { gen_rule(&mut rng, &format!("r{}", which), 2) } else { gen_rule(&mut rng, "imp", 0) };
        let mut impact_rule = impact_rule;
        impact_rule["examples"] = json!((0..(1 + rng.below(2))).map(|_| gen_example(&mut rng, true)).collect::<Vec<_>>());
        out.push(json!({
            "cfg": {"ignore_host_case": rng.chance(1, 2), "ignore_header_case": rng.chance(1, 2), "ignore_path_and_query_case": rng.chance(1, 2), "ignore_marketing_query_params": rng.chance(1, 2),
                    "marketing_query_params": ["utm_source"], "pass_marketing_query_params_to_target": rng.chance(1, 2), "always_match_any_host": rng.chance(1, 2)},
            "base": base, "added": added, "updated": updated, "deleted": deleted, "shuffle": perm,
            "example": gen_example(&mut rng, true), "max_hops": rng.below(7), "domains": match rng.below(3) { 0 => json!(["example.org"]), 1 => json!(["example.org", "other.net"]), _ => json!([]) },
            "impact": {"rule": impact_rule, "action": *rng.pick(&["add", "update", "delete"]), "with_loop": rng.chance(1, 2)}}));
        // loop focus: an example with an absolute URL on a host that a NON-EMPTY project-domain list does not contain, and a
        // rule that sends that URL back to itself (directly, or through a second URL): the chain is a loop AND leaves the
        // registered domains, the analyses must report both facts as the live pipeline produces them
        if rng.chance(1, 6) {
            let c = out.last_mut().unwrap();
            c["domains"] = json!(["example.org"]);
            c["max_hops"] = json!(2 + rng.below(4));
            c["example"]["url"] = json!("http://other.net/b");
            c["example"]["method"] = Value::Null; c["example"]["datetime"] = Value::Null;
            let plain = |id: &str, path: &str, target: &str, code: u64| json!({"id": id, "rank": 0, "status_code": code, "target": target,
                "source": {"path": path, "host": null, "methods": null, "response_status_codes": null, "exclude_response_status_codes": null, "weekdays": null, "datetime": null},
                "header_filters": null, "body_filters": null, "log_override": null, "reset": null, "stop": null, "redirect_unit_id": null, "target_hash": null,
                "configuration_log_unit_id": null, "configuration_reset_unit_id": null, "examples": null});
            let code = *rng.pick(&[301u64, 302, 307]);
            let mut rules: Vec<Value> = match rng.below(4) {
                // NOT a loop: the target differs from the visited URL by letter case only (paths are case-sensitive here)
                3 => { c["example"]["url"] = json!("http://other.net/B"); c["cfg"]["ignore_path_and_query_case"] = json!(false); c["domains"] = json!(["example.org", "other.net"]); vec![plain("r0", "/B", "/b", code)] }
                0 => vec![plain("r0", "/b", "/b", code)],
                1 => vec![plain("r0", "/b", "http://other.net/b", code)],
                _ => vec![plain("r0", "/b", "http://other.net/z", code), plain("r1", "/z", "http://other.net/b", code)],
            };
            let keep: Vec<Value> = c["base"].as_array().unwrap().iter().skip(rules.len()).filter(|r| r["source"]["path"] != json!("/b") && r["source"]["path"] != json!("/z")).cloned().collect();
            rules.extend(keep);
            c["base"] = json!(rules);
            c["updated"] = json!([]); c["deleted"] = json!([]); c["added"] = json!([]);
            let n = c["base"].as_array().unwrap().len();
            c["shuffle"] = json!((0..n).rev().collect::<Vec<usize>>());
        }
    }
    out
}

fn final_rules(input: &Value) -> Vec<Value> {
    let deleted: BTreeSet<String> = input["deleted"].as_array().unwrap().iter().map(|x| x.as_str().unwrap().to_string()).collect();
    let updated: BTreeMap<String, Value> = input["updated"].as_array().unwrap().iter().map(|r| (r["id"].as_str().unwrap().to_string(), r.clone())).collect();
    let mut out = Vec::new();
    for r in input["base"].as_array().unwrap() {
        let id = r["id"].as_str().unwrap().to_string();
        if deleted.contains(&id) { continue; }
        out.push(updated.get(&id).cloned().unwrap_or_else(|| r.clone()));
    }
    for r in input["added"].as_array().unwrap() { out.push(r.clone()); }
    // insertion order of the standalone run: a permutation (the analyses must not depend on it)
    let perm: Vec<usize> = input["shuffle"].as_array().unwrap().iter().map(|x| x.as_u64().unwrap() as usize).collect();
    if perm.len() == out.len() { perm.iter().map(|i| out[*i].clone()).collect() } else { out }
}

fn sorted_set(v: &Value) -> Value { let mut s: Vec<String> = v.as_array().map(|a| a.iter().map(|x| x.as_str().unwrap_or("").to_string()).collect()).unwrap_or_default(); s.sort(); s.dedup(); json!(s) }

/// projection of a unit trace: ids_seen as a set (HashMap iteration inside squash), everything else as is
fn proj_trace(t: &Value) -> Value {
    json!({"rule_ids_applied": t["rule_ids_applied"], "unit_ids_applied": t["unit_ids_applied"], "unit_ids_seen": sorted_set(&t["unit_ids_seen"]), "values": t["value_computed_by_units"]})
}
fn proj_explain(o: &Value) -> Value {
    json!({"unit_trace": proj_trace(&o["unit_trace"]), "backend_status_code": o["backend_status_code"], "response": o["response"], "redirection_loop": o["redirection_loop"], "should_log_request": o["should_log_request"]})
}
fn proj_impacts(o: &Value) -> Value {
    json!(o["impacts"].as_array().unwrap().iter().map(|i| json!({"example": i["example"], "error": i["error"], "p": proj_explain(i)})).collect::<Vec<_>>())
}
fn proj_tests(o: &Value) -> Value {
    // failures per rule id, examples in order; the "first ten" cut depends on HashMap iteration order when more than ten rules fail
    let mut f: BTreeMap<String, Value> = BTreeMap::new();
    if let Some(m) = o["first_ten_failures"].as_object() { for (k, v) in m { f.insert(k.clone(), json!(v["failed_examples"].as_array().unwrap().iter().map(|e| json!({"example": e["example"], "rule_ids_applied": e["rule_ids_applied"], "unit_ids_applied": e["unit_ids_applied"], "not_anymore": e["unit_ids_not_applied_anymore"], "loop": e["redirection_loop"]})).collect::<Vec<_>>())); } }
    let mut e: BTreeMap<String, Value> = BTreeMap::new();
    if let Some(m) = o["first_ten_errors"].as_object() { for (k, v) in m { e.insert(k.clone(), v["errored_examples"].clone()); } }
    json!({"example_count": o["example_count"], "failure_count": o["failure_count"], "error_count": o["error_count"], "failures": f, "errors": e})
}
fn proj_units(o: &Value) -> Value {
    let mut m: BTreeMap<String, Value> = BTreeMap::new();
    if let Some(r) = o["rules"].as_object() { for (k, v) in r { m.insert(k.clone(), v["examples"].clone()); } }
    json!(m)
}

/// the live pipeline, replayed independently in proxy order on a freshly built router
fn live_pipeline(router: &Router<Rule>, example: &Example) -> Option<Value> {
    let request = Request::from_example(&router.config, example).ok()?;
    let routes = router.match_request(&request);
    let mut action = Action::from_routes_rule(routes, &request, None);
    let at_request = action.get_status_code(0, None);
    let (final_code, backend) = if at_request != 0 { (at_request, at_request) } else { let b = example.response_status_code.unwrap_or(200); (action.get_status_code(b, None), b) };
    let headers = action.filter_headers(Vec::new(), backend, false, None);
    let body = "<!DOCTYPE html>\n<html>\n    <head>\n    </head>\n    <body>\n    </body>\n</html>";
    let mut out: Vec<u8> = Vec::new();
    match action.create_filter_body(backend, &[]) { None => out.extend_from_slice(body.as_bytes()), Some(mut f) => { out.extend(f.filter(body.as_bytes().to_vec(), None)); out.extend(f.end(None)); } }
    let log = action.should_log_request(true, final_code, None);
    Some(json!({"status_code": final_code, "headers": headers.iter().map(|h| json!({"name": h.name, "value": h.value})).collect::<Vec<_>>(), "body": String::from_utf8_lossy(&out), "log": log}))
}

/// one response reported by an analysis together with the rules the router matched for its example, as a Coq `pipe19`
/// term (RIO.C19Run): the pipeline model must reproduce status, backend status, headers, log decision (and the body
/// when no HTML body filter was dropped from the matched rules)
fn cq_pipe(router: &Router<Rule>, example: &Example, backend: &Value, response: &Value, log: &Value) -> Option<String> {
    let request = Request::from_example(&router.config, example).ok()?;
    let routes = router.match_request(&request);
    let mut html_dropped = false;
    let mut names: BTreeSet<String> = BTreeSet::new();
    names.insert("Location".to_string());
    let rules: Vec<String> = routes.iter().map(|r| crate::c05::cq_rule_api(&serde_json::to_value(r.handler()).unwrap(), &mut html_dropped, &mut names)).collect();
    let lower: Vec<(String, String)> = names.iter().map(|n| (n.clone(), n.to_lowercase())).filter(|(a, b)| a != b).collect();
    let skipped = request.path_and_query_skipped.skipped_query_params.clone();
    let hs: Vec<(String, String)> = response["headers"].as_array()?.iter().map(|h| (h["name"].as_str().unwrap_or("").to_string(), h["value"].as_str().unwrap_or("").to_string())).collect();
    Some(format!("{{| p_rules := {}; p_skipped := {}; p_code := {}; p_lower := {}; p_body_cmp := {}; p_status := {}; p_backend := {}; p_headers := {}; p_body := {}; p_log := {} |}}",
        cq_list(&rules, |x| x.clone()), match &skipped { None => "None".to_string(), Some(x) => format!("(Some {})", cq_str(x)) },
        match example.response_status_code { None => "None".to_string(), Some(c) => format!("(Some {})", c) },
        cq_list(&lower, |(a, b)| format!("({}, {})", cq_str(a), cq_str(b))), cq_bool(!html_dropped),
        response["status_code"].as_u64()?, backend.as_u64()?, cq_list(&hs, |(n, v)| format!("({}, {})", cq_str(n), cq_str(v))),
        cq_str(response["body"].as_str()?), cq_bool(log.as_bool()?)))
}

/// the unit trace an analysis reports with the rules the router matched (and their unit fields), as a Coq `upipe19` term
/// (RIO.C19UnitsRun); None when a matched rule carries an HTML body filter (its visitor writes to the trace and is
/// outside the unit-trace model)
fn cq_upipe(router: &Router<Rule>, example: &Example, unit_trace: &Value) -> Option<String> {
    let request = Request::from_example(&router.config, example).ok()?;
    let routes = router.match_request(&request);
    let mut html_dropped = false;
    let mut names: BTreeSet<String> = BTreeSet::new();
    names.insert("Location".to_string());
    let rules: Vec<String> = routes.iter().map(|r| crate::c05::cq_urule_api(&serde_json::to_value(r.handler()).unwrap(), &mut html_dropped, &mut names)).collect();
    if html_dropped { return None; }
    let lower: Vec<(String, String)> = names.iter().map(|n| (n.clone(), n.to_lowercase())).filter(|(a, b)| a != b).collect();
    let skipped = request.path_and_query_skipped.skipped_query_params.clone();
    let strs = |v: &Value| -> Vec<String> { v.as_array().map(|a| a.iter().map(|x| x.as_str().unwrap_or("").to_string()).collect()).unwrap_or_default() };
    let values: Vec<(String, String)> = unit_trace["value_computed_by_units"].as_object().map(|m| m.iter().map(|(k, v)| (k.clone(), v.as_str().unwrap_or("").to_string())).collect()).unwrap_or_default();
    Some(format!("{{| up_rules := {}; up_skipped := {}; up_code := {}; up_lower := {}; uo_rule_ids := {}; uo_unit_ids_applied := {}; uo_unit_ids_seen := {}; uo_values := {} |}}",
        cq_list(&rules, |x| x.clone()), match &skipped { None => "None".to_string(), Some(x) => format!("(Some {})", cq_str(x)) },
        match example.response_status_code { None => "None".to_string(), Some(c) => format!("(Some {})", c) },
        cq_list(&lower, |(a, b)| format!("({}, {})", cq_str(a), cq_str(b))),
        cq_list(&strs(&unit_trace["rule_ids_applied"]), |x| cq_str(x)), cq_list(&strs(&unit_trace["unit_ids_applied"]), |x| cq_str(x)),
        cq_list(&strs(&unit_trace["unit_ids_seen"]), |x| cq_str(x)), cq_list(&values, |(k, v)| format!("({}, {})", cq_str(k), cq_str(v)))))
}

/// one example of the unit-ids analysis with the rules the router matched for it, as a Coq `uunit19` term
fn cq_uunit(router: &Router<Rule>, example: &Example, out: &Value) -> Option<String> {
    let request = Request::from_example(&router.config, example).ok()?;
    let routes = router.match_request(&request);
    let mut html_dropped = false;
    let mut names: BTreeSet<String> = BTreeSet::new();
    names.insert("Location".to_string());
    let rules: Vec<String> = routes.iter().map(|r| crate::c05::cq_urule_api(&serde_json::to_value(r.handler()).unwrap(), &mut html_dropped, &mut names)).collect();
    if html_dropped { return None; }
    let lower: Vec<(String, String)> = names.iter().map(|n| (n.clone(), n.to_lowercase())).filter(|(a, b)| a != b).collect();
    let skipped = request.path_and_query_skipped.skipped_query_params.clone();
    let ids: Vec<String> = out.as_array()?.iter().map(|x| x.as_str().unwrap_or("").to_string()).collect();
    Some(format!("{{| uu_rules := {}; uu_skipped := {}; uu_code := {}; uu_lower := {}; uu_out := {} |}}",
        cq_list(&rules, |x| x.clone()), match &skipped { None => "None".to_string(), Some(x) => format!("(Some {})", cq_str(x)) },
        match example.response_status_code { None => "None".to_string(), Some(c) => format!("(Some {})", c) },
        cq_list(&lower, |(a, b)| format!("({}, {})", cq_str(a), cq_str(b))), cq_list(&ids, |x| cq_str(x))))
}

/// one failed example of the test-examples analysis with the rules the router matched for it, as a Coq `utest19` term
fn cq_utest(router: &Router<Rule>, rule_id: &str, fe: &Value) -> Option<String> {
    let example: Example = serde_json::from_value(fe["example"].clone()).ok()?;
    let request = Request::from_example(&router.config, &example).ok()?;
    let routes = router.match_request(&request);
    let mut html_dropped = false;
    let mut names: BTreeSet<String> = BTreeSet::new();
    names.insert("Location".to_string());
    let rules: Vec<String> = routes.iter().map(|r| crate::c05::cq_urule_api(&serde_json::to_value(r.handler()).unwrap(), &mut html_dropped, &mut names)).collect();
    if html_dropped { return None; }
    let lower: Vec<(String, String)> = names.iter().map(|n| (n.clone(), n.to_lowercase())).filter(|(a, b)| a != b).collect();
    let skipped = request.path_and_query_skipped.skipped_query_params.clone();
    let strs = |v: &Value| -> Vec<String> { v.as_array().map(|a| a.iter().map(|x| x.as_str().unwrap_or("").to_string()).collect()).unwrap_or_default() };
    let expected: Vec<String> = example.unit_ids_applied.clone().unwrap_or_default();
    Some(format!("{{| ut_rules19 := {}; ut_skipped := {}; ut_code := {}; ut_lower := {}; ut_expected := {}; ut_id := {}; ut_must_match := {}; ut_loop := {}; ut_out_rules := {}; ut_out_units := {}; ut_out_gone := {} |}}",
        cq_list(&rules, |x| x.clone()), match &skipped { None => "None".to_string(), Some(x) => format!("(Some {})", cq_str(x)) },
        match example.response_status_code { None => "None".to_string(), Some(c) => format!("(Some {})", c) },
        cq_list(&lower, |(a, b)| format!("({}, {})", cq_str(a), cq_str(b))), cq_list(&expected, |x| cq_str(x)), cq_str(rule_id),
        cq_bool(example.must_match), cq_bool(!fe["redirection_loop"].is_null()),
        cq_list(&strs(&fe["rule_ids_applied"]), |x| cq_str(x)), cq_list(&strs(&fe["unit_ids_applied"]), |x| cq_str(x)), cq_list(&strs(&fe["unit_ids_not_applied_anymore"]), |x| cq_str(x))))
}

/// one hop of the redirect chain, computed independently of RedirectionLoop: the live pipeline for (url, method), the
/// Location joined to the current url, the 301/302 method rewrite, and whether the target leaves the project's domains
fn one_hop(router: &Router<Rule>, example: &Example, url: &str, method: &str, domains: &[String]) -> Option<(String, String, u64, bool)> {
    let ex = example.with_url(url.to_string()).with_method(Some(method.to_string()));
    let request = Request::from_example(&router.config, &ex).ok()?;
    let routes = router.match_request(&request);
    let mut action = Action::from_routes_rule(routes, &request, None);
    let at_request = action.get_status_code(0, None);
    let (final_code, backend) = if at_request != 0 { (at_request, at_request) } else { let b = ex.response_status_code.unwrap_or(200); (action.get_status_code(b, None), b) };
    if ![301u16, 302, 307, 308].contains(&final_code) { return None; }
    let headers = action.filter_headers(Vec::new(), backend, false, None);
    let location = headers.iter().find(|h| h.name.to_lowercase() == "location")?.value.clone();
    let next_url = match url::Url::parse(url) { Ok(base) => match base.join(&location) { Ok(u) => u.to_string(), Err(_) => location.clone() }, Err(_) => location.clone() };
    let next_method = if final_code == 301 || final_code == 302 { "GET".to_string() } else { method.to_string() };
    let external = match url::Url::parse(&next_url) { Ok(u) => !domains.is_empty() && !u.host_str().map(|h| domains.iter().any(|d| d == h)).unwrap_or(false), Err(_) => false };
    Some((next_url, next_method, final_code as u64, external))
}

pub fn run_case(id: usize, input: &Value) {
    let inp = input.clone();
    let res = catch(move || {
        let cfg: RouterConfig = serde_json::from_value(inp["cfg"].clone()).expect("cfg");
        let mut base_router = Router::<Rule>::from_config(cfg.clone());
        for r in inp["base"].as_array().unwrap() { base_router.insert(serde_json::from_value::<Rule>(r.clone()).expect("rule")); }
        if inp["max_hops"].as_u64().unwrap() % 2 == 0 { base_router.cache(Some(3)); }
        let existing = Arc::new(base_router);
        let change_set = json!({"added": inp["added"], "updated": inp["updated"], "deleted": inp["deleted"]});
        let fin = final_rules(&inp);
        let max_hops = inp["max_hops"].clone();
        let domains = inp["domains"].clone();
        // 1. test examples
        let t_proj = TestExamplesOutput::from_project(serde_json::from_value(json!({"change_set": change_set, "max_hops": max_hops, "project_domains": domains})).unwrap(), existing.clone());
        let t_alone = TestExamplesOutput::create_result_without_project(serde_json::from_value(json!({"router_config": inp["cfg"], "rules": fin, "max_hops": max_hops, "project_domains": domains})).unwrap());
        let (tp, ta) = (serde_json::to_value(&t_proj).unwrap(), serde_json::to_value(&t_alone).unwrap());
        let many = tp["failure_count"].as_u64().unwrap_or(0) > 10 || tp["error_count"].as_u64().unwrap_or(0) > 10;
        let tests_same = if many { tp["example_count"] == ta["example_count"] && tp["failure_count"] == ta["failure_count"] && tp["error_count"] == ta["error_count"] } else { proj_tests(&tp) == proj_tests(&ta) };
        // 2. unit ids
        let u_proj = UnitIdsOutput::create_result_from_project(serde_json::from_value(json!({"change_set": change_set})).unwrap(), existing.clone());
        let u_alone = UnitIdsOutput::create_result_without_project(serde_json::from_value(json!({"router_config": inp["cfg"], "rules": fin})).unwrap());
        let units_same = proj_units(&serde_json::to_value(&u_proj).unwrap()) == proj_units(&serde_json::to_value(&u_alone).unwrap());
        // 3. explain
        let e_proj = ExplainRequestOutput::create_result_from_project(serde_json::from_value(json!({"example": inp["example"], "change_set": change_set, "max_hops": max_hops, "project_domains": domains})).unwrap(), existing.clone());
        let e_alone = ExplainRequestOutput::create_result_without_project(serde_json::from_value(json!({"router_config": inp["cfg"], "example": inp["example"], "rules": fin, "max_hops": max_hops, "project_domains": domains})).unwrap());
        let (ep, ea) = (e_proj.as_ref().ok().map(|o| serde_json::to_value(o).unwrap()), e_alone.as_ref().ok().map(|o| serde_json::to_value(o).unwrap()));
        let explain_same = match (&ep, &ea) { (Some(a), Some(b)) => proj_explain(a) == proj_explain(b), (None, None) => true, _ => false };
        // 4. impact
        let imp = &inp["impact"];
        let i_proj = ImpactOutput::from_impact_project(serde_json::from_value(json!({"max_hops": max_hops, "with_redirection_loop": imp["with_loop"], "domains": domains, "rule": imp["rule"], "action": imp["action"], "change_set": change_set})).unwrap(), existing.clone());
        let i_alone = ImpactOutput::create_result(serde_json::from_value(json!({"router_config": inp["cfg"], "max_hops": max_hops, "with_redirection_loop": imp["with_loop"], "domains": domains, "rule": imp["rule"], "action": imp["action"], "rules": fin})).unwrap());
        let i_alone_j = serde_json::to_value(&i_alone).unwrap();
        let mut impact_same = proj_impacts(&serde_json::to_value(&i_proj).unwrap()) == proj_impacts(&i_alone_j);
        let mut pipes: Vec<String> = Vec::new();
        let mut upipes: Vec<String> = Vec::new();
        // the response impact reports for each example of the rule = the live pipeline on the router it describes
        {
            let mut ir = Router::<Rule>::from_config(cfg.clone());
            let irule: Rule = serde_json::from_value(imp["rule"].clone()).unwrap();
            for r in &fin { let rr: Rule = serde_json::from_value(r.clone()).unwrap(); if rr.id != irule.id { ir.insert(rr); } }
            if imp["action"] == "add" || imp["action"] == "update" { ir.insert(irule.clone()); }
            for i in i_alone_j["impacts"].as_array().unwrap() {
                if !i["error"].is_null() { continue; }
                let ex: Example = serde_json::from_value(i["example"].clone()).unwrap();
                let live = live_pipeline(&ir, &ex);
                let reported = json!({"status_code": i["response"]["status_code"], "headers": i["response"]["headers"], "body": i["response"]["body"], "log": i["should_log_request"]});
                if live.as_ref() != Some(&reported) { impact_same = false; }
                if let Some(p) = cq_pipe(&ir, &ex, &i["backend_status_code"], &i["response"], &i["should_log_request"]) { pipes.push(p); }
                if let Some(p) = cq_upipe(&ir, &ex, &i["unit_trace"]) { upipes.push(p); }
            }
        }
        // 5. the reported response against the live pipeline on a router built from scratch
        let mut fresh = Router::<Rule>::from_config(cfg.clone());
        for r in &fin { fresh.insert(serde_json::from_value::<Rule>(r.clone()).expect("rule")); }
        let example: Example = serde_json::from_value(inp["example"].clone()).unwrap();
        let live = live_pipeline(&fresh, &example);
        let reported = ep.as_ref().map(|o| json!({"status_code": o["response"]["status_code"], "headers": o["response"]["headers"], "body": o["response"]["body"], "log": o["should_log_request"]}));
        if let Some(o) = ea.as_ref() { if let Some(p) = cq_pipe(&fresh, &example, &o["backend_status_code"], &o["response"], &o["should_log_request"]) { pipes.push(p); } }
        if let Some(o) = ea.as_ref() { if let Some(p) = cq_upipe(&fresh, &example, &o["unit_trace"]) { upipes.push(p); } }
        // the test-examples analysis: every failed example it reports, against the model on the matched rules
        let mut utests: Vec<String> = Vec::new();
        if let Some(m) = ta["first_ten_failures"].as_object() {
            for (rid, v) in m { for fe in v["failed_examples"].as_array().map(|a| a.as_slice()).unwrap_or(&[]) { if utests.len() < 6 { if let Some(p) = cq_utest(&fresh, rid, fe) { utests.push(p); } } } }
        }
        // the unit-ids analysis: what it stores on every example of every rule, against the model on the matched rules
        let mut uunits: Vec<String> = Vec::new();
        {
            let uj = serde_json::to_value(&u_alone).unwrap();
            if let Some(rs) = uj["rules"].as_object() {
                for (_, v) in rs {
                    for e in v["examples"].as_array().map(|a| a.as_slice()).unwrap_or(&[]) {
                        if e["unit_ids_applied"].is_null() { continue; }
                        if let Ok(ex) = serde_json::from_value::<Example>(e.clone()) {
                            if uunits.len() < 6 { if let Some(p) = cq_uunit(&fresh, &ex, &e["unit_ids_applied"]) { uunits.push(p); } }
                        }
                    }
                }
            }
        }
        // 6. the redirect chain: one-hop table from the implementation itself (max_hops = 1), the chain for max_hops
        let fresh = Arc::new(fresh);
        let mut nodes: Vec<(String, String)> = Vec::new();
        let mut table: Vec<(usize, Option<(usize, u64)>, bool, bool)> = Vec::new(); // node, step, external, self_loop
        let start = (example.url.clone(), example.method.clone().unwrap_or("GET".to_string()));
        nodes.push(start);
        let mut k = 0usize;
        while k < nodes.len() && k < 12 {
            let (u, m) = nodes[k].clone();
            let doms: Vec<String> = domains.as_array().map(|a| a.iter().map(|x| x.as_str().unwrap().to_string()).collect()).unwrap_or_default();
            let entry = match one_hop(&fresh, &example, &u, &m, &doms) {
                Some((nu, nm, code, external)) => {
                    let nn = (nu, nm);
                    let self_loop = nn == nodes[k];
                    let idx = match nodes.iter().position(|x| *x == nn) { Some(i) => i, None => { nodes.push(nn); nodes.len() - 1 } };
                    (k, Some((idx, code)), external, self_loop)
                }
                None => (k, None, false, false),
            };
            table.push(entry);
            k += 1;
        }
        let chain = ep.as_ref().map(|o| o["redirection_loop"].clone()).unwrap_or(Value::Null);
        (tests_same, units_same, explain_same, impact_same, live, reported, nodes, table, chain, json!({"tests": [proj_tests(&tp), proj_tests(&ta)], "many_failures": many}), pipes, upipes, uunits, utests)
    });
    let (tests_same, units_same, explain_same, impact_same, live, reported, nodes, table, chain, extra, pipes, upipes, uunits, utests) = match res {
        Ok(x) => x,
        Err(e) => { emit(id, "", input.clone(), &["panic".to_string()], false, json!({"panic": e})); return; }
    };
    let pipeline_same = match (&live, &reported) { (Some(a), Some(b)) => a == b, (None, None) => true, _ => false };
    // chain observed -> node indices
    let mut hops: Vec<(usize, u64)> = Vec::new();
    let mut chain_ok = true;
    if let Some(hs) = chain["hops"].as_array() {
        for h in hs { let nn = (h["url"].as_str().unwrap().to_string(), h["method"].as_str().unwrap().to_string()); match nodes.iter().position(|x| *x == nn) { Some(i) => hops.push((i, h["status_code"].as_u64().unwrap())), None => { chain_ok = false; } } }
    }
    let err_code = match chain["error"].as_str() { None => 0, Some("AtLeastOneHop") => 1, Some("TooManyHops") => 2, Some("Loop") => 3, _ => 9 };
    let has_chain = !chain.is_null() && chain_ok && table.len() == nodes.len();
    let coq = format!("{{| k_tests_same := {}; k_units_same := {}; k_explain_same := {}; k_impact_same := {}; k_pipeline_same := {}; k_pipes := {}; k_upipes := {}; k_uunits := {}; k_utests := {}; k_has_chain := {}; k_max := {}; k_table := {}; o_hops := {}; o_err := {} |}}",
        cq_bool(tests_same), cq_bool(units_same), cq_bool(explain_same), cq_bool(impact_same), cq_bool(pipeline_same), cq_list(&pipes, |x| x.clone()), cq_list(&upipes, |x| x.clone()), cq_list(&uunits, |x| x.clone()), cq_list(&utests, |x| x.clone()), cq_bool(has_chain), input["max_hops"].as_u64().unwrap(),
        cq_list(&table, |(n, st, ext, sl)| format!("({}, {}, {}, {})", n, match st { None => "None".to_string(), Some((i, c)) => format!("(Some ({}, {}))", i, c) }, cq_bool(*ext), cq_bool(*sl))),
        cq_list(&hops, |(i, c)| format!("({}, {})", i, c)), err_code);
    let mut tags: Vec<String> = vec![format!("max_hops:{}", input["max_hops"]), format!("hops:{}", hops.len().min(8)), format!("err:{}", err_code)];
    if input["added"].as_array().unwrap().is_empty() && input["updated"].as_array().unwrap().is_empty() && input["deleted"].as_array().unwrap().is_empty() { tags.push("empty-change-set".into()); }
    if !input["updated"].as_array().unwrap().is_empty() { tags.push("updates".into()); }
    if !input["deleted"].as_array().unwrap().is_empty() { tags.push("deletes".into()); }
    if !has_chain { tags.push("no-chain".into()); }
    if live.is_none() { tags.push("invalid-example".into()); }
    if extra["many_failures"] == json!(true) { tags.push("more-than-ten-failures".into()); }
    if let Some(l) = &live { tags.push(format!("status:{}", l["status_code"]));  }
    tags.push(format!("impact:{}", input["impact"]["action"].as_str().unwrap()));
    tags.push(format!("pipes:{}", pipes.len().min(4)));
    tags.push(format!("unit-traces:{}", upipes.len().min(4)));
    tags.push(format!("unit-ids:{}", uunits.len().min(6)));
    tags.push(format!("failed-examples:{}", utests.len().min(6)));
    let nontrivial = hops.len() >= 2 || live.as_ref().map(|l| l["status_code"] != json!(200) && l["status_code"] != json!(0)).unwrap_or(false);
    emit(id, &coq, input.clone(), &tags, nontrivial, json!({"live": live, "reported": reported, "chain": chain, "more": extra}));
}
