//! C13: header filters.  Input: {"filters":[{"action","header","value"}], "headers":[[name,value]]}
use crate::common::*;
use redirectionio::action::Action;
use redirectionio::api::HeaderFilter;
use redirectionio::filter::FilterHeaderAction;
use redirectionio::http::Header;
use serde_json::{json, Value};
use std::collections::BTreeSet;

const NAMES: &[&str] = &["X-Foo", "x-foo", "X-FOO", "Cache-Control", "cache-control", "Set-Cookie", "\u{c9}-Tag", "\u{e9}-tag", "\u{130}d", "i\u{307}d", ""];
const VALUES: &[&str] = &["", "a", "b", "v1", "max-age=0", "\u{e9}t\u{e9}"];
const ACTIONS: &[&str] = &["add", "remove", "replace", "override", "default", "Add", "delete", "", "append"];

fn gen_random(rng: &mut Rng) -> Value {
    let small = rng.chance(1, 2);
    let names: Vec<&str> = if small { NAMES[..6].to_vec() } else { NAMES.to_vec() };
    let nh = rng.below(7);
    let nf = rng.below(7);
    let headers: Vec<Value> = (0..nh).map(|_| json!([*rng.pick(&names), *rng.pick(VALUES)])).collect();
    let filters: Vec<Value> = (0..nf)
        .map(|_| {
            let a = if rng.chance(5, 6) { ACTIONS[rng.below(5)] } else { *rng.pick(ACTIONS) };
            json!({"action": a, "header": *rng.pick(&names), "value": *rng.pick(VALUES)})
        })
        .collect();
    json!({"filters": filters, "headers": headers})
}

/// all filter sequences of length <= k over 6 actions x 3 names, against a fixed panel of header lists
fn gen_exhaustive(k: usize) -> Vec<Value> {
    let acts = ["add", "remove", "replace", "override", "default", "nop"];
    let names = ["A", "a", "B"];
    let panel: Vec<Vec<(&str, &str)>> = vec![
        vec![],
        vec![("A", "1")],
        vec![("B", "1")],
        vec![("a", "1"), ("A", "2")],
        vec![("A", "1"), ("B", "2"), ("a", "3")],
        vec![("B", "1"), ("b", "2")],
        vec![("b", "1"), ("A", "2"), ("B", "3"), ("a", "4")],
        vec![("C", "1"), ("A", ""), ("C", "2")],
    ];
    let mut singles = Vec::new();
    for a in acts.iter() {
        for n in names.iter() {
            singles.push((*a, *n));
        }
    }
    let mut seqs: Vec<Vec<(&str, &str)>> = vec![vec![]];
    let mut frontier: Vec<Vec<(&str, &str)>> = vec![vec![]];
    for _ in 0..k {
        let mut next = Vec::new();
        for s in &frontier {
            for f in &singles {
                let mut t = s.clone();
                t.push(*f);
                next.push(t);
            }
        }
        seqs.extend(next.iter().cloned());
        frontier = next;
    }
    let mut out = Vec::new();
    for s in &seqs {
        for p in &panel {
            let filters: Vec<Value> = s.iter().enumerate().map(|(i, (a, n))| json!({"action": a, "header": n, "value": format!("v{}", i)})).collect();
            let headers: Vec<Value> = p.iter().map(|(n, v)| json!([n, v])).collect();
            out.push(json!({"filters": filters, "headers": headers}));
        }
    }
    out
}

fn headers_json(hs: &[Header]) -> Value {
    Value::Array(hs.iter().map(|h| json!([h.name, h.value])).collect())
}
fn cq_headers(hs: &[Header]) -> String {
    cq_list(hs, |h| format!("({}, {})", cq_str(&h.name), cq_str(&h.value)))
}

pub fn run_case(id: usize, input: &Value) {
    let filters: Vec<HeaderFilter> = input["filters"].as_array().unwrap().iter().map(|f| HeaderFilter {
        action: f["action"].as_str().unwrap().to_string(),
        header: f["header"].as_str().unwrap().to_string(),
        value: f["value"].as_str().unwrap().to_string(),
        id: None,
        target_hash: None,
    }).collect();
    let headers: Vec<Header> = input["headers"].as_array().unwrap().iter().map(|h| Header {
        name: h[0].as_str().unwrap().to_string(),
        value: h[1].as_str().unwrap().to_string(),
    }).collect();

    // observation 1: FilterHeaderAction directly
    let f1 = filters.clone();
    let h1 = headers.clone();
    let obs1 = catch(move || match FilterHeaderAction::new(f1) {
        None => h1,
        Some(a) => a.filter(h1, None),
    });
    // observation 2: through an Action carrying the filters unconditionally
    let action_json = json!({
        "status_code_update": null,
        "header_filters": filters.iter().map(|f| json!({
            "filter": {"action": f.action, "header": f.header, "value": f.value, "id": null, "target_hash": null},
            "on_response_status_codes": [], "exclude_response_status_codes": false, "rule_id": null})).collect::<Vec<_>>(),
        "body_filters": [], "rule_ids": [], "log_override": null
    });
    let h2 = headers.clone();
    let obs2 = catch(move || {
        let mut action: Action = serde_json::from_value(action_json).expect("action json");
        action.filter_headers(h2, 0, false, None)
    });

    // oracle table for String::to_lowercase on every name that occurs
    let mut names: BTreeSet<String> = BTreeSet::new();
    for f in &filters { names.insert(f.header.clone()); }
    for h in &headers { names.insert(h.name.clone()); }
    let lower: Vec<(String, String)> = names.iter().map(|n| (n.clone(), n.to_lowercase())).filter(|(a, b)| a != b).collect();

    let (o1, o2) = match (obs1, obs2) {
        (Ok(a), Ok(b)) => (a, b),
        (a, b) => {
            emit(id, "", input.clone(), &["panic".to_string()], false, json!({"panic": format!("{:?} / {:?}", a.err(), b.err())}));
            return;
        }
    };
    let coq = format!(
        "{{| c_lower := {}; c_filters := {}; c_headers := {}; c_obs_fha := {}; c_obs_action := {} |}}",
        cq_list(&lower, |(a, b)| format!("({}, {})", cq_str(a), cq_str(b))),
        cq_list(&filters, |f| format!("mk_filter {} {} {}", cq_str(&f.action), cq_str(&f.header), cq_str(&f.value))),
        cq_headers(&headers), cq_headers(&o1), cq_headers(&o2));
    let mut tags: Vec<String> = filters.iter().map(|f| format!("act:{}", if ACTIONS[..5].contains(&f.action.as_str()) { f.action.as_str() } else { "unknown" })).collect();
    tags.sort();
    tags.dedup();
    tags.push(format!("nfilters:{}", filters.len()));
    tags.push(format!("nheaders:{}", headers.len()));
    // non-trivial: the filters changed the header list
    let changed = headers.len() != o2.len() || headers.iter().zip(o2.iter()).any(|(a, b)| a.name != b.name || a.value != b.value);
    emit(id, &coq, input.clone(), &tags, changed, json!({"out": headers_json(&o2)}));
}

pub fn generate(seed: u64, thorough: bool) -> Vec<Value> {
    let mut rng = Rng::new(seed ^ 0x13);
    let mut cases = gen_exhaustive(if thorough { 3 } else { 2 });
    let n = if thorough { 6000 } else { 1500 };
    for _ in 0..n {
        cases.push(gen_random(&mut rng));
    }
    cases
}
