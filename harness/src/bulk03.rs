//! bulk03: bulk correspondence feed for C03 (body filters, chunk invariance); child module of c03: it calls c03's own
//! private `run_chunks`, the function `run_case` uses, under the same catch_unwind and with the same selector log.
//!
//!   rio-harness bulk03 --filters <SPEC> --alphabet <name | hex,hex,...> --len <n> --shard <i>/<k>
//!                      [--ct <content type>] [--cuts single|all|bytes] [--minlen <m>] [--random <N> --seed <S>]
//!
//! Bodies: every string of m..=n symbols over the alphabet (order and sharding as bulk16), or N random ones.
//! For each body one case per chunking:  --cuts single : the uncut body and every single cut position 1..len-1
//!                                        --cuts all    : every way of cutting the body into non-empty chunks (2^(len-1))
//!                                        --cuts bytes  : the uncut body and one byte per chunk
//! SPEC (passed through verbatim to the case line, see mlrun/main03.ml):
//!   filter+filter+...   T<a|p|r>:CONTENTHEX | H<a|p|r|o>:VALUEHEX:NAMEHEX.NAMEHEX...:<-|=CSSHEX>
//! One line per case on stdout:  FILTERS;CTOK;CHUNK,CHUNK,...;SEL \t SINGLEHEX,CHUNKEDHEX      (a panic: !<message>)
//! stderr: bulk03 shard=i/k cases=<n> bodies=<b> panics=<p> alphabet_lower=<ascii-exact|NOT-ASCII>
//! The model (C03Run) fixes to_lowercase = ASCII lower-casing: the feed refuses an alphabet or a filter tree on which
//! that is not exact (see bulk16::lower_is_ascii).
use super::run_chunks;
use crate::c16::bulk16::{alphabet, lower_is_ascii};
use crate::common::{catch, Rng};
use redirectionio::http::Header;
use serde_json::{json, Value};
use std::io::Write;

const HEX: &[u8; 16] = b"0123456789abcdef";
fn hex(out: &mut Vec<u8>, b: &[u8]) {
    for x in b {
        out.push(HEX[(x >> 4) as usize]);
        out.push(HEX[(x & 15) as usize]);
    }
}
fn unhex(s: &str) -> Vec<u8> {
    assert!(s.len() % 2 == 0, "odd hex length in '{}'", s);
    (0..s.len() / 2).map(|i| u8::from_str_radix(&s[2 * i..2 * i + 2], 16).expect("hex")).collect()
}
fn unhex_str(s: &str) -> String {
    String::from_utf8(unhex(s)).expect("filter strings are UTF-8")
}

/// SPEC -> the JSON filter list that c03::to_filters reads (the same path as run_case)
fn filters_json(spec: &str) -> Value {
    let mut v = Vec::new();
    for f in spec.split('+').filter(|x| !x.is_empty()) {
        let p: Vec<&str> = f.split(':').collect();
        let k = p[0].as_bytes();
        if k.len() == 2 && k[0] == b'T' && p.len() == 2 {
            let a = match k[1] { b'a' => "append_text", b'p' => "prepend_text", b'r' => "replace_text", _ => panic!("bad text action") };
            v.push(json!({"kind": "text", "action": a, "content": unhex_str(p[1])}));
        } else if k.len() == 2 && k[0] == b'H' && p.len() == 4 {
            let a = match k[1] { b'a' => "append_child", b'p' => "prepend_child", b'r' => "replace", b'o' => "bogus", _ => panic!("bad html action") };
            let tree: Vec<String> = p[2].split('.').filter(|x| !x.is_empty()).map(unhex_str).collect();
            let css: Value = if p[3] == "-" { Value::Null } else { json!(unhex_str(p[3].strip_prefix('=').expect("css: - or =HEX"))) };
            v.push(json!({"kind": "html", "action": a, "value": unhex_str(p[1]), "tree": tree, "css": css}));
        } else {
            panic!("bad filter spec '{}'", f);
        }
    }
    Value::Array(v)
}

struct Ctx {
    spec: String,
    filters: Value,
    headers: Vec<Header>,
    ctok: bool,
    cases: u64,
    panics: u64,
}

fn one(out: &mut Vec<u8>, cx: &mut Ctx, body: &[u8], chunks: Vec<Vec<u8>>) {
    cx.cases += 1;
    let (f2, h2, b2, c2) = (cx.filters.clone(), cx.headers.clone(), body.to_vec(), chunks.clone());
    let res = catch(move || {
        let _ = redirectionio::filter::verif_selector_log::drain();
        let single = run_chunks(&f2, &h2, &[b2.clone()]);
        let chunked = run_chunks(&f2, &h2, &c2);
        let log = redirectionio::filter::verif_selector_log::drain();
        (single, chunked, log)
    });
    out.extend_from_slice(cx.spec.as_bytes());
    out.push(b';');
    out.push(if cx.ctok { b'1' } else { b'0' });
    out.push(b';');
    if chunks.is_empty() {
        out.push(b'-');
    }
    for (i, c) in chunks.iter().enumerate() {
        if i > 0 {
            out.push(b',');
        }
        hex(out, c);
    }
    out.push(b';');
    match res {
        Ok((single, chunked, log)) => {
            let mut seen = std::collections::BTreeSet::new();
            let mut first = true;
            for (d, s, b) in &log {
                if seen.insert((d.clone(), s.clone())) {
                    if !first {
                        out.push(b',');
                    }
                    first = false;
                    hex(out, d.as_bytes());
                    out.push(b':');
                    hex(out, s.as_bytes());
                    out.push(b':');
                    out.push(if *b { b'1' } else { b'0' });
                }
            }
            out.push(b'\t');
            hex(out, &single);
            out.push(b',');
            hex(out, &chunked);
        }
        Err(msg) => {
            cx.panics += 1;
            out.push(b'\t');
            out.push(b'!');
            out.extend(msg.bytes().map(|c| if c == b'\n' || c == b'\t' || c == b'\r' { b' ' } else { c }));
        }
    }
    out.push(b'\n');
}

fn body_cases(out: &mut Vec<u8>, cx: &mut Ctx, body: &[u8], cuts: &str) {
    let n = body.len();
    match cuts {
        "all" => {
            if n == 0 {
                one(out, cx, body, vec![vec![]]);
                return;
            }
            // bit j of mask set = a cut after byte j (0 <= j < n-1)
            for mask in 0u64..(1u64 << (n - 1)) {
                let mut chunks = Vec::new();
                let mut prev = 0;
                for j in 0..n - 1 {
                    if mask >> j & 1 == 1 {
                        chunks.push(body[prev..j + 1].to_vec());
                        prev = j + 1;
                    }
                }
                chunks.push(body[prev..].to_vec());
                one(out, cx, body, chunks);
            }
        }
        "bytes" => {
            one(out, cx, body, vec![body.to_vec()]);
            if n > 1 {
                one(out, cx, body, body.iter().map(|b| vec![*b]).collect());
            }
        }
        _ => {
            one(out, cx, body, vec![body.to_vec()]);
            for c in 1..n {
                one(out, cx, body, vec![body[..c].to_vec(), body[c..].to_vec()]);
            }
        }
    }
}

pub fn main(args: &[String]) {
    let mut alpha_name = "body10".to_string();
    let (mut len, mut minlen) = (3usize, 0usize);
    let mut shard: (u64, u64) = (0, 1);
    let mut spec = String::new();
    let mut ct: Option<String> = None;
    let mut cuts = "single".to_string();
    let mut random: Option<u64> = None;
    let mut seed: u64 = 1;
    let mut i = 0;
    while i < args.len() {
        let v = args.get(i + 1).unwrap_or_else(|| {
            eprintln!("bulk03: missing value after {}", args[i]);
            std::process::exit(2)
        });
        match args[i].as_str() {
            "--alphabet" => alpha_name = v.clone(),
            "--len" => len = v.parse().expect("--len"),
            "--minlen" => minlen = v.parse().expect("--minlen"),
            "--filters" => spec = v.clone(),
            "--ct" => ct = Some(v.clone()),
            "--cuts" => cuts = v.clone(),
            "--random" => random = Some(v.parse().expect("--random")),
            "--seed" => seed = v.parse().expect("--seed"),
            "--shard" => {
                let mut it = v.split('/');
                let a: u64 = it.next().and_then(|x| x.parse().ok()).expect("--shard i/k");
                let b: u64 = it.next().and_then(|x| x.parse().ok()).expect("--shard i/k");
                assert!(b > 0 && a < b, "--shard i/k with 0 <= i < k");
                shard = (a, b);
            }
            other => {
                eprintln!("bulk03: unknown argument {}", other);
                std::process::exit(2);
            }
        }
        i += 2;
    }
    let alpha: Vec<Vec<u8>> = match alpha_name.as_str() {
        // bytes: tags a / b, text, a comment opener, white space, one upper-case letter, one two-byte character
        "body10" => [&b"<"[..], b">", b"/", b"a", b"b", b" ", b"!", b"-", b"A", b"\xc3\xa9"].iter().map(|x| x.to_vec()).collect(),
        // bytes, smaller: "<a></a>" fits in 7 symbols, "<a><b/></a>" in 11
        "tag6" => [&b"<"[..], b">", b"/", b"a", b"b", b" "].iter().map(|x| x.to_vec()).collect(),
        // FRAGMENTS as symbols (cut at every BYTE with --cuts single): elements a / b, an unfinished start tag (attributes,
        // self-closing through "<a " "/" ">"), a comment, a raw-text element, a void element, an upper-case end tag, text
        "frag18" => [
            &b"<a>"[..], b"</a>", b"<b>", b"</b>", b"<a ", b"<", b">", b"/", b"x", b" ", b"<!--", b"-->", b"<title>", b"</title>", b"\xc3\xa9",
            b"</A>", b"<br>", b"-",
        ]
        .iter()
        .map(|x| x.to_vec())
        .collect(),
        other => alphabet(other),
    };
    let filters = filters_json(&spec);
    // lower-casing: alphabet and tree names (to_lowercase is applied to tag names of the body only, the tree is compared as is)
    let ascii_exact = lower_is_ascii(&alpha);
    if !ascii_exact {
        eprintln!("bulk03: String::to_lowercase is not ASCII lower-casing on this alphabet; the C03 model has no table for it");
        std::process::exit(2);
    }
    let headers: Vec<Header> = match &ct {
        None => vec![],
        Some(c) => vec![Header { name: "Content-Type".into(), value: c.clone() }],
    };
    let ctok = match &ct {
        None => true,
        Some(c) => c.to_lowercase().contains("text/html"),
    };
    let mut cx = Ctx { spec, filters, headers, ctok, cases: 0, panics: 0 };
    let stdout = std::io::stdout();
    let mut w = std::io::BufWriter::with_capacity(1 << 20, stdout.lock());
    let mut out: Vec<u8> = Vec::with_capacity(1 << 12);
    let mut bodies: u64 = 0;
    let mut emit = |out: &mut Vec<u8>, force: bool| {
        if force || out.len() > (1 << 16) {
            if w.write_all(out).is_err() {
                eprintln!("bulk03: write error (consumer gone?)");
                std::process::exit(3);
            }
            out.clear();
        }
    };
    let mut body: Vec<u8> = Vec::new();
    match random {
        None => {
            let mut j: u64 = 0;
            for l in minlen..=len {
                let mut digits = vec![0usize; l];
                loop {
                    if j % shard.1 == shard.0 {
                        body.clear();
                        for d in &digits {
                            body.extend_from_slice(&alpha[*d]);
                        }
                        bodies += 1;
                        body_cases(&mut out, &mut cx, &body, &cuts);
                        emit(&mut out, false);
                    }
                    j += 1;
                    let mut carry = true;
                    let mut p = l;
                    while carry && p > 0 {
                        p -= 1;
                        digits[p] += 1;
                        if digits[p] < alpha.len() {
                            carry = false;
                        } else {
                            digits[p] = 0;
                        }
                    }
                    if carry {
                        break;
                    }
                }
            }
        }
        Some(n) => {
            let mine = n / shard.1 + if shard.0 < n % shard.1 { 1 } else { 0 };
            let mut rng = Rng::new(seed.wrapping_mul(0x1000193) ^ (shard.0 << 32) ^ 0x03b);
            for _ in 0..mine {
                let l = minlen + rng.below(len.saturating_sub(minlen) + 1);
                body.clear();
                for _ in 0..l {
                    body.extend_from_slice(&alpha[rng.below(alpha.len())]);
                }
                bodies += 1;
                body_cases(&mut out, &mut cx, &body, &cuts);
                emit(&mut out, false);
            }
        }
    }
    emit(&mut out, true);
    drop(emit);
    if w.flush().is_err() {
        eprintln!("bulk03: write error (consumer gone?)");
        std::process::exit(3);
    }
    eprintln!("bulk03 shard={}/{} cases={} bodies={} panics={} alphabet_lower=ascii-exact", shard.0, shard.1, cx.cases, bodies, cx.panics);
}
