(* Headers.v — executable model of src/filter/header_action/*.rs and src/filter/filter_header.rs.
   One Gallina function per Rust function; loops over the header vector are left folds with the
   same accumulator variables ([new_headers], [found]). *)
Require Import RIO.Base.

Section Headers.
(* String::to_lowercase — Unicode lowercasing is an oracle: the theorems hold for every function *)
Variable lower : str -> str.

Definition header := (str * str)%type.
Definition name_eq (a b : str) : bool := str_eqb (lower a) (lower b).

(* header_add.rs: headers.push(Header{name,value}) *)
Definition add_filter (n v : str) (hs : list header) : list header := hs ++ [(n, v)].

(* header_remove.rs: for header in headers { if header.name.to_lowercase() != self.name.to_lowercase() { push } } *)
Definition remove_filter (n : str) (hs : list header) : list header :=
  fold_left (fun acc h => if negb (name_eq (fst h) n) then acc ++ [h] else acc) hs [].

(* header_replace.rs *)
Definition replace_filter (n v : str) (hs : list header) : list header :=
  fold_left (fun acc h => if name_eq (fst h) n then acc ++ [(n, v)] else acc ++ [h]) hs [].

(* header_override.rs: new_headers + found flag, push when not found *)
Definition override_step (n v : str) (st : list header * bool) (h : header) : list header * bool :=
  if negb (name_eq (fst h) n) then (fst st ++ [h], snd st) else (fst st ++ [(n, v)], true).
Definition override_filter (n v : str) (hs : list header) : list header :=
  let st := fold_left (override_step n v) hs ([], false) in
  if snd st then fst st else fst st ++ [(n, v)].

(* header_default.rs: scan with break, push when not found *)
Fixpoint default_found (n : str) (hs : list header) : bool :=
  match hs with
  | [] => false
  | h :: hs' => if name_eq (fst h) n then true else default_found n hs'
  end.
Definition default_filter (n v : str) (hs : list header) : list header :=
  if default_found n hs then hs else hs ++ [(n, v)].

Inductive hkind := KAdd | KRemove | KReplace | KOverride | KDefault.

Record hfilter := { hf_action : str; hf_header : str; hf_value : str }.

(* header_action/mod.rs create_header_action: chain of `if header_filter.action == "..."`;
   the table (action name -> struct) is regenerated from the source into RIOGen.Extracted *)
Variable action_table : list (str * hkind).

Definition create_header_action (f : hfilter) : option (hkind * str * str) :=
  match assoc (hf_action f) action_table with
  | Some k => Some (k, hf_header f, hf_value f)
  | None => None
  end.

Definition run_action (a : hkind * str * str) (hs : list header) : list header :=
  match a with
  | (KAdd, n, v) => add_filter n v hs
  | (KRemove, n, _) => remove_filter n hs
  | (KReplace, n, v) => replace_filter n v hs
  | (KOverride, n, v) => override_filter n v hs
  | (KDefault, n, v) => default_filter n v hs
  end.

(* filter_header.rs FilterHeaderAction::new *)
Fixpoint collect_actions (fs : list hfilter) : list (hkind * str * str) :=
  match fs with
  | [] => []
  | f :: fs' => match create_header_action f with
                | Some a => a :: collect_actions fs'
                | None => collect_actions fs'
                end
  end.
Definition filter_header_action_new (fs : list hfilter) : option (list (hkind * str * str)) :=
  if is_nil fs then None
  else let acts := collect_actions fs in if is_nil acts then None else Some acts.

(* FilterHeaderAction::filter *)
Definition filter_header_action_filter (acts : list (hkind * str * str)) (hs : list header) : list header :=
  fold_left (fun hs a => run_action a hs) acts hs.

(* Action::filter_headers, the part after guard selection, without the rule-ids header:
   match FilterHeaderAction::new(filters) { None => headers, Some(a) => a.filter(headers) } *)
Definition apply_header_filters (fs : list hfilter) (hs : list header) : list header :=
  match filter_header_action_new fs with
  | None => hs
  | Some acts => filter_header_action_filter acts hs
  end.

End Headers.
