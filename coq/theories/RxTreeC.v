(* RxTreeC.v — MECHANICAL COPY of RIO.TreeC for the strengthened pattern shapes of RIO.RxLaws:
   shape_c -> shape_x, tpre_c -> tpre_x, engine_prefix_law -> engine_prefix_law_x, the prefix.rs structure
   lemmas *_c -> *_x (RIO.RxTreeInst).  No proof script was changed.  Original header follows. *)
(* RxTreeC.v — the tree lemmas of RIO.TreeProofs instantiated with prefix.rs (RIO.TreeInst): what the
   router proofs use.  The regex engine stays a parameter with its two laws as section hypotheses. *)
Require Import RIO.Base RIO.Prefix RIO.Tree RIO.TreeProofs RIO.TreeInst RIO.RxLaws RIO.RxTreeInst.
Close Scope N_scope.
Open Scope nat_scope.

Ltac pre := first [ exact tpre_trans_x | exact cut_l_x | exact cut_r_x | exact cut_l'_x | exact cut_r'_x
                  | exact tpre_shape_l_x | exact cp_pre_x | exact tpre_starts_x | assumption ].

Section RxTreeC.
Variable V : Type.
Variable eng : bool -> pat -> list N -> bool.
Variable valid : bool -> pat -> bool.
Hypothesis Hd : engine_dotstar eng.
Hypothesis Hp : engine_prefix_law_x eng.

Ltac fin := try eassumption; try pre; try exact Hd; try exact Hp.

Definition inv_c (tic : bool) (it : item V) : Prop := inv V shape_x tpre_x tic it.
Definition ins_c (it : item V) re k v := Tree.insert V cp_c take_c clen_c it re k v.

Lemma find_spec_c tic it s : inv_c tic it ->
  Tree.find V eng it s = map (value_of V) (filter (fun e => ML eng tic (fst e) s) (entries V it)).
Proof. intros H. unfold inv_c in H. eapply find_spec; fin. Qed.

Lemma insert_inv_c tic it re k v : shape_x re -> re <> [] -> inv_c tic it -> inv_c tic (ins_c it re k v).
Proof. intros. unfold inv_c, ins_c. eapply insert_inv; fin. Qed.

Lemma insert_entries_fresh_c it re k v : ~ In k (eids V it) ->
  Permutation (entries V (ins_c it re k v)) ((re, (k, v)) :: entries V it).
Proof. intros. unfold ins_c. eapply insert_entries_fresh; fin. Qed.

Lemma remove_inv_c tic it k : inv_c tic it -> inv_c tic (fst (Tree.remove V it k)).
Proof. intros. unfold inv_c. eapply remove_inv; fin. Qed.

Lemma remove_is_filter_c it k : NoDup (map (id_of V) (entries V it)) ->
  entries V (fst (Tree.remove V it k)) = filter (fun e => negb (id_eqb (id_of V e) k)) (entries V it).
Proof. intros. eapply remove_is_filter; fin. Qed.

Lemma remove_entries_c it k : rm_spec V (entries V it) (entries V (fst (Tree.remove V it k))) k (snd (Tree.remove V it k)).
Proof. eapply remove_entries; fin. Qed.

Lemma retain_entries_c f it : entries V (Tree.retain V f it) = flat_map (retain_entry V f) (entries V it).
Proof. eapply retain_entries; fin. Qed.

Lemma retain_inv_c tic f it : inv_c tic it -> inv_c tic (Tree.retain V f it).
Proof. intros. unfold inv_c. eapply retain_inv; fin. Qed.

Lemma get_spec_c tic it re : inv_c tic it ->
  Tree.get V it re = map (value_of V) (filter (fun e => pat_eqb (fst e) re) (entries V it)).
Proof. intros. eapply get_spec; fin. Qed.

Lemma update_at_entries_c tic it re f : inv_c tic it ->
  entries V (update_at V it re f) = map (upd_entry V re f) (entries V it).
Proof. intros. eapply update_at_entries; fin. Qed.

Lemma update_at_inv_c tic it re f : inv_c tic it -> inv_c tic (update_at V it re f).
Proof. intros. unfold inv_c. eapply update_at_inv; fin. Qed.

Lemma cache_same_c it limit level : same_upto_flags V it (fst (tree_cache V valid it limit level)).
Proof. apply tree_cache_same. Qed.

Lemma same_inv_c tic a b : same_upto_flags V a b -> inv_c tic a -> inv_c tic b.
Proof. intros. unfold inv_c. eapply same_inv; fin. Qed.

Lemma same_keys_inv_c tic a b : same_keys V a b -> inv_c tic a -> inv_c tic b.
Proof. intros. unfold inv_c. eapply same_keys_inv; fin. Qed.
End RxTreeC.
