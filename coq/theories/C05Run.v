(* C05Run.v — executable verdicts for C05 / C11: rule lists through from_routes_rule and the
   response-phase calls, compared with the implementation; the action built by the crate is compared
   structurally (it is printed from its JSON as a Coq term by the harness). *)
Require Import RIO.Base RIO.Headers RIO.BodyText RIO.ActionModel RIO.ActionSpec.

Definition opt_eqb {A} (e : A -> A -> bool) (a b : option A) : bool :=
  match a, b with None, None => true | Some x, Some y => e x y | _, _ => false end.
Fixpoint list_eqb {A} (e : A -> A -> bool) (a b : list A) : bool :=
  match a, b with [] , [] => true | x :: a', y :: b' => e x y && list_eqb e a' b' | _, _ => false end.
Definition lN_eqb := list_eqb N.eqb.
Definition hfilter_eqb (a b : hfilter) := str_eqb (hf_action a) (hf_action b) && str_eqb (hf_header a) (hf_header b) && str_eqb (hf_value a) (hf_value b).
Definition ta_eqb (a b : text_action) := match a, b with TAppend, TAppend | TPrepend, TPrepend | TReplace, TReplace => true | _, _ => false end.
Definition bfilter_eqb (a b : bfilter) := ta_eqb (bf_action a) (bf_action b) && str_eqb (bf_content a) (bf_content b).
Definition scu_eqb (a b : scu) := N.eqb (sc_status a) (sc_status b) && lN_eqb (sc_on a) (sc_on b) && Bool.eqb (sc_excl a) (sc_excl b)
  && N.eqb (sc_fallback a) (sc_fallback b) && opt_eqb str_eqb (sc_rule a) (sc_rule b) && opt_eqb str_eqb (sc_fallback_rule a) (sc_fallback_rule b).
Definition lov_eqb (a b : lov) := Bool.eqb (lo_log a) (lo_log b) && opt_eqb str_eqb (lo_rule a) (lo_rule b) && lN_eqb (lo_on a) (lo_on b)
  && Bool.eqb (lo_excl a) (lo_excl b) && opt_eqb Bool.eqb (lo_fallback a) (lo_fallback b) && opt_eqb str_eqb (lo_fallback_rule a) (lo_fallback_rule b).
Definition hfa_eqb (a b : hfa) := hfilter_eqb (hfa_filter a) (hfa_filter b) && lN_eqb (hfa_on a) (hfa_on b) && Bool.eqb (hfa_excl a) (hfa_excl b) && opt_eqb str_eqb (hfa_rule a) (hfa_rule b).
Definition bfa_eqb (a b : bfa) := bfilter_eqb (bfa_filter a) (bfa_filter b) && lN_eqb (bfa_on a) (bfa_on b) && Bool.eqb (bfa_excl a) (bfa_excl b) && opt_eqb str_eqb (bfa_rule a) (bfa_rule b).
Definition rtrace_eqb (a b : rtrace) := str_eqb (rt_id a) (rt_id b) && lN_eqb (rt_on a) (rt_on b) && Bool.eqb (rt_excl a) (rt_excl b).
Definition action_eqb (a b : action) :=
  opt_eqb scu_eqb (a_status a) (a_status b) && list_eqb hfa_eqb (a_hf a) (a_hf b) && list_eqb bfa_eqb (a_bf a) (a_bf b)
  && list_eqb str_eqb (a_rule_ids a) (a_rule_ids b) && list_eqb rtrace_eqb (a_traces a) (a_traces b)
  && list_eqb str_eqb (a_applied a) (a_applied b) && opt_eqb lov_eqb (a_log a) (a_log b).

Fixpoint headers_eqb (a b : list header) : bool :=
  match a, b with
  | [], [] => true
  | (n, v) :: a', (n', v') :: b' => str_eqb n n' && str_eqb v v' && headers_eqb a' b'
  | _, _ => false
  end.

Definition mk_hf (a h v : str) : hfilter := {| hf_action := a; hf_header := h; hf_value := v |}.
Definition mk_bf (a : text_action) (c : str) : bfilter := {| bf_action := a; bf_content := c |}.

Record case05 := {
  c_rules : list rule;
  c_skipped : option str; c_override : option bool;
  c_code : N; c_headers : list header; c_allow_log : bool; c_add_ids : bool;
  c_chunks : list str;
  c_lower : list (str * str);
  (* implementation *)
  o_action : action;                  (* Action::from_routes_rule, before any response-phase call *)
  o_status : N;                       (* get_status_code(code) *)
  o_headers : list header;            (* filter_headers(headers, code, add_ids) *)
  o_body : str;                       (* create_filter_body(code, filtered headers) run over the chunks, or the chunks *)
  o_log : bool;                       (* should_log_request(allow_log, code) *)
  o_applied : list str;               (* get_applied_rule_ids() at the end *)
  o_perm_same : bool                  (* serialised action identical under the permutations of the rule list tried by the harness *)
}.

Definition lower_of (tbl : list (str * str)) (s : str) : str :=
  match assoc s tbl with Some l => l | None => s end.

Definition run_model (table : list (str * hkind)) (c : case05) :=
  let a0 := from_routes_rule (c_rules c) (c_skipped c) (c_override c) [] in
  let '(st, a1) := get_status_code a0 (c_code c) in
  let '(hs, a2) := filter_headers (lower_of (c_lower c)) table a1 (c_headers c) (c_code c) (c_add_ids c) in
  let '(bfs, a3) := create_filter_body a2 (c_code c) in
  let body := text_body_run bfs (c_chunks c) in
  let '(lg, a4) := should_log_request a3 (c_allow_log c) (c_code c) in
  (a0, st, hs, body, lg, a_applied a4).

(* bit 1: model <> implementation (action structure or any response-phase result);
   bit 4: declarative reference (RIO.ActionSpec) <> implementation;
   bit 8: implementation's serialised action depends on the order of the rule list (C11) *)
Definition verdict05 (table : list (str * hkind)) (c : case05) : N :=
  let '(a0, st, hs, body, lg, ap) := run_model table c in
  let m_ok := action_eqb a0 (o_action c) && N.eqb st (o_status c) && headers_eqb hs (o_headers c)
              && str_eqb body (o_body c) && Bool.eqb lg (o_log c) && list_eqb str_eqb ap (o_applied c) in
  let s_ok := spec_agrees (lower_of (c_lower c)) (c_rules c) (c_skipped c) (c_override c) (c_code c) (c_headers c)
                          (c_allow_log c) (c_chunks c) (o_status c) (o_headers c) (o_body c) (o_log c) (o_applied c) (c_add_ids c) in
  (vbit m_ok 1 + vbit s_ok 4 + vbit (o_perm_same c) 8)%N.

Definition spec_verdict05 (c : case05) : N :=
  let s_ok := spec_agrees (lower_of (c_lower c)) (c_rules c) (c_skipped c) (c_override c) (c_code c) (c_headers c)
                          (c_allow_log c) (c_chunks c) (o_status c) (o_headers c) (o_body c) (o_log c) (o_applied c) (c_add_ids c) in
  (vbit s_ok 4 + vbit (o_perm_same c) 8)%N.
