(* UnitTrace.v — executable model of `UnitTrace` (src/action/mod.rs l.54-143) and of every place that updates it:
   src/action/mod.rs (from_route_rule, merge, from_routes_rule, get_status_code, get_final_status_code_with_fallback,
   filter_headers, create_filter_body, should_log_request), src/action/{status_code_update,log_override}.rs (fields
   unit_id / target_hash), src/filter/header_action/*.rs, src/filter/filter_header.rs, src/filter/text_filter_body.rs,
   src/filter/filter_body.rs (text stages), and the analysis blocks of src/api/{explain_request,impact,test_examples,
   unit_ids}.rs.  No proofs here: RIO.UnitTraceProofs (erasure), RIO.UnitTraceProofs2 (methods, squash, diff), RIO.UnitTraceProofs3
   (rule ids, order independence); statements: RIOProps.C19Units; executable verdict: RIO.C19UnitsRun.

   SHAPE OF THE MODEL.
   (1) `utrace` + one Gallina function per method of UnitTrace / WithTargetUnitTrace.
   (2) Between `UnitTrace::default()` and `squash_with_target_unit_traces()` the Rust code only WRITES to the trace
       (the reads are squash / diff / get_rule_ids_applied / rule_ids_contains / get_unit_ids_applied, all called after
       the block).  A traced function is therefore modelled as the untraced result together with the LIST OF METHOD
       CALLS it performs on the trace, in program order (`uev`); `run_events` replays the calls on a trace with the
       method models of (1).  `t_f args` being called with `Some(trace)` is `run_events (snd (t_f args)) trace`; with
       `None` nothing is recorded and the primary result is the same (erasure theorems).
   (3) The existing records of RIO.ActionModel are not changed.  On the rule side the unit fields are carried BESIDE the
       rule (`urule`: `u_rule` is the projection); on the action side richer records (`uscu`, `ulov`, `uhfa`, `ubfa`,
       `uaction`) PROJECT onto the existing ones (`erase_ua`).
   HashMap iteration order.  `with_target_unit_trace.unit_ids_applied_by_key` and `value_computed_by_units` are
   std HashMaps.  They are association lists here (key order = order of first insertion since the last removal);
   `squash_over` takes the iteration order as a parameter, `ut_squash` uses the association list's own order.
   unit_ids_applied is sorted afterwards, so it does not depend on that order; unit_ids_seen does (squash re-inserts
   every surviving id, which moves it to the back): compare unit_ids_seen as a SET, value_computed_by_units as a MAP.
   HTML body visitors (src/filter/html_body_action/*.rs) also write to the trace: NOT modelled (bfilter is Text only). *)
Require Import RIO.Base RIO.Headers RIO.BodyText RIO.ActionModel RIO.Pipeline.

(* ------------------------------------------------------------------ LinkedHashSet / HashMap vocabulary *)
(* Extend<T> for LinkedHashSet (linked_hash_set 0.1.6 l.843: self.map.extend(..); linked-hash-map 0.5.6 l.834: a loop
   of insert): every element goes through insert, so an element already present moves to the back *)
Definition lhs_extend (xs : list str) (l : list str) : list str := fold_left (fun acc x => lhs_insert x acc) xs l.
(* FromIterator (l.831): new set, then extend *)
Definition lhs_of_list (xs : list str) : list str := lhs_extend xs [].

Definition has_key {V} (k : str) (m : list (str * V)) : bool := existsb (fun e => str_eqb (fst e) k) m.
Definition hm_remove {V} (k : str) (m : list (str * V)) : list (str * V) := filter (fun e => negb (str_eqb (fst e) k)) m.
Definition hm_update {V} (k : str) (f : V -> V) (m : list (str * V)) : list (str * V) :=
  map (fun e => if str_eqb (fst e) k then (fst e, f (snd e)) else e) m.

(* HashMap<String,String>::insert *)
Definition vc_insert (k v : str) (m : list (str * str)) : list (str * str) :=
  if has_key k m then hm_update k (fun _ => v) m else m ++ [(k, v)].

(* WithTargetUnitTrace::add_unit_id (l.134-137): entry(target).or_default().insert(unit_id) *)
Definition tg_add (target id : str) (m : list (str * list str)) : list (str * list str) :=
  if has_key target m then hm_update target (lhs_insert id) m else m ++ [(target, [id])].
(* WithTargetUnitTrace::override_unit_id (l.139-142): remove_entry(target); add_unit_id(target, unit_id) *)
Definition tg_override (target id : str) (m : list (str * list str)) : list (str * list str) :=
  tg_add target id (hm_remove target m).

(* Vec<String>::sort(): String's Ord is byte-wise lexicographic = str_ltb of RIO.ActionModel *)
Fixpoint insert_str (x : str) (l : list str) : list str :=
  match l with
  | [] => [x]
  | y :: l' => if str_ltb x y then x :: l else y :: insert_str x l'
  end.
Definition sort_strs (l : list str) : list str := fold_right insert_str [] l.

(* ------------------------------------------------------------------ UnitTrace *)
Record utrace := {
  ut_rules : list str;                    (* rule_ids_applied : LinkedHashSet<String> *)
  ut_applied : list str;                  (* unit_ids_applied : LinkedHashSet<String> *)
  ut_seen : list str;                     (* unit_ids_seen : LinkedHashSet<String> *)
  ut_values : list (str * str);           (* value_computed_by_units : HashMap<String,String> *)
  ut_targets : list (str * list str)      (* with_target_unit_trace.unit_ids_applied_by_key : HashMap<String, LinkedHashSet<String>> *)
}.

(* UnitTrace::default() *)
Definition ut_empty : utrace := {| ut_rules := []; ut_applied := []; ut_seen := []; ut_values := []; ut_targets := [] |}.

(* trace.rule_ids_applied.insert(rule_id)  (field access in Action::get_status_code l.483) *)
Definition ut_rule_insert (id : str) (t : utrace) : utrace :=
  {| ut_rules := lhs_insert id (ut_rules t); ut_applied := ut_applied t; ut_seen := ut_seen t;
     ut_values := ut_values t; ut_targets := ut_targets t |}.

(* UnitTrace::add_unit_id l.65-68 *)
Definition ut_add_unit_id (id : str) (t : utrace) : utrace :=
  {| ut_rules := ut_rules t; ut_applied := lhs_insert id (ut_applied t); ut_seen := lhs_insert id (ut_seen t);
     ut_values := ut_values t; ut_targets := ut_targets t |}.

(* UnitTrace::add_unit_id_with_target l.70-74 *)
Definition ut_add_unit_id_with_target (target id : str) (t : utrace) : utrace :=
  {| ut_rules := ut_rules t; ut_applied := ut_applied t; ut_seen := lhs_insert id (ut_seen t);
     ut_values := ut_values t; ut_targets := tg_add target id (ut_targets t) |}.

(* UnitTrace::override_unit_id_with_target l.76-80 *)
Definition ut_override_unit_id_with_target (target id : str) (t : utrace) : utrace :=
  {| ut_rules := ut_rules t; ut_applied := ut_applied t; ut_seen := lhs_insert id (ut_seen t);
     ut_values := ut_values t; ut_targets := tg_override target id (ut_targets t) |}.

(* UnitTrace::add_value_computed_by_unit l.99-101 *)
Definition ut_add_value_computed_by_unit (key value : str) (t : utrace) : utrace :=
  {| ut_rules := ut_rules t; ut_applied := ut_applied t; ut_seen := ut_seen t;
     ut_values := vc_insert key value (ut_values t); ut_targets := ut_targets t |}.

(* UnitTrace::squash_with_target_unit_traces l.82-97.  [tgs]: the (key, set) pairs in the order the HashMap's
   into-iterator yields them.  mem::take leaves the default (empty) map behind; the two loops; then
   tmp = Vec::from_iter(unit_ids_applied.clone()); tmp.sort(); unit_ids_applied = LinkedHashSet::from_iter(tmp) *)
Definition squash_over (tgs : list (str * list str)) (t : utrace) : utrace :=
  let t0 := {| ut_rules := ut_rules t; ut_applied := ut_applied t; ut_seen := ut_seen t;
               ut_values := ut_values t; ut_targets := [] |} in
  let t1 := fold_left (fun tr e => fold_left (fun tr' id => ut_add_unit_id id tr') (snd e) tr) tgs t0 in
  {| ut_rules := ut_rules t1; ut_applied := lhs_of_list (sort_strs (ut_applied t1)); ut_seen := ut_seen t1;
     ut_values := ut_values t1; ut_targets := [] |}.
Definition ut_squash (t : utrace) : utrace := squash_over (ut_targets t) t.

(* UnitTrace::diff l.103-113 *)
Definition ut_diff (t : utrace) (other : list str) : list str :=
  fold_left (fun d x => if negb (mem_str x (ut_applied t)) then lhs_insert x d else d) other [].

(* get_rule_ids_applied l.115, rule_ids_contains l.119, get_unit_ids_applied l.123 *)
Definition ut_get_rule_ids_applied (t : utrace) : list str := ut_rules t.
Definition ut_rule_ids_contains (t : utrace) (id : str) : bool := mem_str id (ut_rules t).
Definition ut_get_unit_ids_applied (t : utrace) : list str := ut_applied t.

(* ------------------------------------------------------------------ method calls as events *)
Inductive uev :=
| EvRule (id : str)                    (* trace.rule_ids_applied.insert(id); `extend(l)` is `map EvRule l` *)
| EvAdd (id : str)                     (* add_unit_id (no caller outside squash in the pinned tree) *)
| EvAddT (target id : str)             (* add_unit_id_with_target *)
| EvOvrT (target id : str)             (* override_unit_id_with_target *)
| EvValue (key value : str).           (* add_value_computed_by_unit *)

Definition run_event (t : utrace) (e : uev) : utrace :=
  match e with
  | EvRule id => ut_rule_insert id t
  | EvAdd id => ut_add_unit_id id t
  | EvAddT tg id => ut_add_unit_id_with_target tg id t
  | EvOvrT tg id => ut_override_unit_id_with_target tg id t
  | EvValue k v => ut_add_value_computed_by_unit k v t
  end.
Definition run_events (evs : list uev) (t : utrace) : utrace := fold_left run_event evs t.

(* ------------------------------------------------------------------ rules and actions with their unit fields *)
Definition unit_ref := (option str * option str)%type.        (* (id, target_hash) of a filter *)

(* api::Rule: redirect_unit_id, target_hash, configuration_log_unit_id, configuration_reset_unit_id; HeaderFilter /
   TextBodyFilter {id, target_hash}: u_hf_units / u_bf_units are aligned with r_hf / r_bf of u_rule; a missing entry
   stands for (None, None), surplus entries are ignored (see attach) *)
Record urule := {
  u_rule : rule;
  u_redirect_unit : option str;
  u_target_hash : option str;
  u_log_unit : option str;
  u_reset_unit : option str;
  u_hf_units : list unit_ref;
  u_bf_units : list unit_ref
}.

Fixpoint attach {A} (fs : list A) (us : list unit_ref) : list (A * unit_ref) :=
  match fs with
  | [] => []
  | f :: fs' => match us with
                | [] => (f, (None, None)) :: attach fs' []
                | u :: us' => (f, u) :: attach fs' us'
                end
  end.

Record uhfilter := { uh_filter : hfilter; uh_id : option str; uh_target : option str }.   (* api::HeaderFilter *)
Record ubfilter := { ub_filter : bfilter; ub_id : option str; ub_target : option str }.   (* api::TextBodyFilter *)

Record uscu := { us_scu : scu; us_unit : option str; us_target : option str }.            (* StatusCodeUpdate *)
Record ulov := { ul_lov : lov; ul_unit : option str }.                                    (* LogOverride *)
Record uhfa := { uhfa_base : hfa; uhfa_id : option str; uhfa_target : option str }.       (* HeaderFilterAction *)
Record ubfa := { ubfa_base : bfa; ubfa_id : option str; ubfa_target : option str }.       (* BodyFilterAction *)

Record uaction := {
  ua_status : option uscu;
  ua_hf : list uhfa;
  ua_bf : list ubfa;
  ua_rule_ids : list str;
  ua_traces : list rtrace;
  ua_applied : list str;
  ua_log : option ulov
}.

(* the projection onto RIO.ActionModel.action *)
Definition erase_ua (a : uaction) : action :=
  {| a_status := option_map us_scu (ua_status a);
     a_hf := map uhfa_base (ua_hf a);
     a_bf := map ubfa_base (ua_bf a);
     a_rule_ids := ua_rule_ids a;
     a_traces := ua_traces a;
     a_applied := ua_applied a;
     a_log := option_map ul_lov (ua_log a) |}.

Definition uhfa_ufilter (f : uhfa) : uhfilter :=
  {| uh_filter := hfa_filter (uhfa_base f); uh_id := uhfa_id f; uh_target := uhfa_target f |}.
Definition ubfa_ufilter (f : ubfa) : ubfilter :=
  {| ub_filter := bfa_filter (ubfa_base f); ub_id := ubfa_id f; ub_target := ubfa_target f |}.

Definition uaction_default : uaction :=
  {| ua_status := None; ua_hf := []; ua_bf := []; ua_rule_ids := []; ua_traces := []; ua_applied := []; ua_log := None |}.

Definition s_status_code : str := [115;116;97;116;117;115;95;99;111;100;101]%N.                                   (* "status_code" *)
Definition s_cfg_reset : str := [99;111;110;102;105;103;117;114;97;116;105;111;110;58;58;114;101;115;101;116]%N.  (* "configuration::reset" *)
Definition s_cfg_stop : str := [99;111;110;102;105;103;117;114;97;116;105;111;110;58;58;115;116;111;112]%N.       (* "configuration::stop" *)
Definition s_cfg_log : str := [99;111;110;102;105;103;117;114;97;116;105;111;110;58;58;108;111;103]%N.            (* "configuration::log" *)
Definition s_text : str := [116;101;120;116]%N.                                                                    (* "text" *)

(* Action::from_route_rule l.206-354 -> (Option<Action>, reset, stop, configuration_reset_unit_id) *)
Definition t_from_route_rule (u : urule) (skipped : option str) (override : option bool) (rv : N)
  : option uaction * bool * bool * option str :=
  let r := u_rule u in
  if sampled_out (r_sampling r) override rv then (None, false, false, None)
  else
    let on := opt_default [] (r_codes r) in
    let ex := excl_flag r in
    let st := match opt_default 0%N (r_status r) with
              | 0%N => None
              | code => Some {| us_scu := {| sc_status := code; sc_on := on; sc_excl := ex; sc_fallback := 0;
                                            sc_rule := Some (r_id r); sc_fallback_rule := None |};
                                us_unit := u_redirect_unit u;                  (* l.236 *)
                                us_target := Some s_status_code |}             (* l.237 *)
              end in
    let loc := match r_target r with
               | Some t => if is_nil t then []
                           else [{| uhfa_base := {| hfa_filter := {| hf_action := s_override_lit; hf_header := s_location;
                                                                     hf_value := target_value t skipped |};
                                                    hfa_on := on; hfa_excl := ex; hfa_rule := Some (r_id r) |};
                                    uhfa_id := u_redirect_unit u;              (* l.263 *)
                                    uhfa_target := u_target_hash u |}]         (* l.264 *)
               | None => []
               end in
    let hfs := map (fun fu => {| uhfa_base := {| hfa_filter := fst fu; hfa_on := on; hfa_excl := ex; hfa_rule := Some (r_id r) |};
                                 uhfa_id := fst (snd fu); uhfa_target := snd (snd fu) |})      (* l.283-284 *)
                   (attach (r_hf r) (u_hf_units u)) in
    let bfs := map (fun fu => {| ubfa_base := {| bfa_filter := fst fu; bfa_on := on; bfa_excl := ex; bfa_rule := Some (r_id r) |};
                                 ubfa_id := fst (snd fu); ubfa_target := snd (snd fu) |})      (* l.315-316 *)
                   (attach (r_bf r) (u_bf_units u)) in
    (Some {| ua_status := st; ua_hf := loc ++ hfs; ua_bf := bfs;
             ua_rule_ids := [r_id r];
             ua_traces := [{| rt_id := r_id r; rt_on := on; rt_excl := ex |}];
             ua_applied := [];
             ua_log := match r_log r with
                       | Some l => Some {| ul_lov := {| lo_log := l; lo_rule := Some (r_id r); lo_on := on; lo_excl := ex;
                                                        lo_fallback := None; lo_fallback_rule := None |};
                                           ul_unit := u_log_unit u |}          (* l.344 *)
                       | None => None
                       end |},
     opt_default false (r_reset r), opt_default false (r_stop r), u_reset_unit u).   (* l.352 *)

(* Action::merge l.357-419.  StatusCodeUpdate: unit_id and target_hash always come from the NEW update (l.366, l.374,
   l.376).  LogOverride: the new one as a whole (l.404), but in the fallback construction the unit_id is the OLD
   one's (l.413: `unit_id: self_log_override.unit_id.clone()`) while log_override / rule_id are the new one's *)
Definition t_merge_status (old new : option uscu) : option uscu :=
  match new with
  | None => old
  | Some n =>
      match old with
      | None => Some n
      | Some o =>
          if negb (is_nil (sc_on (us_scu o))) || is_nil (sc_on (us_scu n)) then Some n
          else Some {| us_scu := {| sc_status := sc_status (us_scu n); sc_on := sc_on (us_scu n); sc_excl := sc_excl (us_scu n);
                                    sc_fallback := sc_status (us_scu o); sc_rule := sc_rule (us_scu n);
                                    sc_fallback_rule := sc_rule (us_scu o) |};
                       us_unit := us_unit n; us_target := us_target n |}
      end
  end.

Definition t_merge_log (old new : option ulov) : option ulov :=
  match new with
  | None => old
  | Some n =>
      match old with
      | None => Some n
      | Some o =>
          if negb (is_nil (lo_on (ul_lov o))) || is_nil (lo_on (ul_lov n)) then Some n
          else Some {| ul_lov := {| lo_log := lo_log (ul_lov n); lo_rule := lo_rule (ul_lov n); lo_on := lo_on (ul_lov n);
                                    lo_excl := lo_excl (ul_lov n);
                                    lo_fallback := Some (lo_log (ul_lov o)); lo_fallback_rule := lo_rule (ul_lov o) |};
                       ul_unit := ul_unit o |}
      end
  end.

Definition t_merge (a other : uaction) : uaction :=
  {| ua_status := t_merge_status (ua_status a) (ua_status other);
     ua_hf := ua_hf a ++ ua_hf other;
     ua_bf := ua_bf a ++ ua_bf other;
     ua_rule_ids := fold_left (fun l x => lhs_insert x l) (ua_rule_ids other) (ua_rule_ids a);
     ua_traces := ua_traces a ++ ua_traces other;
     ua_applied := ua_applied a;
     ua_log := t_merge_log (ua_log a) (ua_log other) |}.

(* routes.sort() on the rules with their unit fields: the key is Rule::cmp of the underlying rule *)
Fixpoint insert_sorted_u (x : urule) (l : list urule) : list urule :=
  match l with
  | [] => [x]
  | y :: l' => if rule_before (u_rule x) (u_rule y) then x :: l else y :: insert_sorted_u x l'
  end.
Definition sort_urules (l : list urule) : list urule := fold_right insert_sorted_u [] l.

(* `if let (Some(trace), Some(unit_id)) = (.., &configuration_unit_id) { trace.add_unit_id_with_target(target, unit_id) }` *)
Definition cfg_event (target : str) (cfg : option str) : list uev :=
  match cfg with Some id => [EvAddT target id] | None => [] end.

(* Action::from_routes_rule l.422-449, the loop over the sorted routes *)
Fixpoint t_fold_rules (acc : uaction) (l : list urule) (skipped : option str) (override : option bool) (rvs : list N)
  : uaction * list uev :=
  match l with
  | [] => (acc, [])
  | u :: l' =>
      let rv := match rvs with v :: _ => v | [] => 1%N end in
      let rvs' := match r_sampling (u_rule u), rvs with Some _, _ :: t => t | _, _ => rvs end in
      match t_from_route_rule u skipped override rv with
      | (Some ar, reset, stop, cfg) =>
          let e_reset := if reset then cfg_event s_cfg_reset cfg else [] in        (* l.430-433 *)
          let acc' := if reset then ar else t_merge acc ar in
          if stop then (acc', e_reset ++ cfg_event s_cfg_stop cfg)                 (* l.439-443 *)
          else let '(a, e) := t_fold_rules acc' l' skipped override rvs' in (a, e_reset ++ e)
      | (None, _, _, _) => t_fold_rules acc l' skipped override rvs'
      end
  end.

Definition t_from_routes_rule (rules : list urule) (skipped : option str) (override : option bool) (rvs : list N)
  : uaction * list uev :=
  t_fold_rules uaction_default (sort_urules rules) skipped override rvs.

Definition ua_set_applied (a : uaction) (l : list str) : uaction :=
  {| ua_status := ua_status a; ua_hf := ua_hf a; ua_bf := ua_bf a; ua_rule_ids := ua_rule_ids a;
     ua_traces := ua_traces a; ua_applied := l; ua_log := ua_log a |}.

(* Action::get_status_code l.475-496 *)
Definition t_get_status_code (a : uaction) (code : N) : N * uaction * list uev :=
  match ua_status a with
  | None => (0%N, a, [])
  | Some s =>
      let '(st, rl) := scu_get (us_scu s) code in
      (st, ua_set_applied a (apply_opt rl (ua_applied a)),
       match rl with
       | Some rid => EvRule rid ::                                                  (* l.483 *)
                     match us_target s, us_unit s with
                     | Some th, Some uid => [EvAddT th uid]                         (* l.485-487 *)
                     | _, _ => []
                     end
       | None => []
       end)
  end.

(* Action::get_final_status_code_with_fallback l.451-473 *)
Definition t_get_final_status_code_with_fallback (a : uaction) (response_status_code fallback_status_code : N)
  : (N * N) * uaction * list uev :=
  let '(action_status_code, a0, e0) := t_get_status_code a 0 in
  if negb (N.eqb action_status_code 0) then ((action_status_code, action_status_code), a0, e0)
  else
    let backend_status_code := if N.eqb response_status_code 0 then fallback_status_code else response_status_code in
    let '(final_status_code, a1, e1) := t_get_status_code a0 backend_status_code in
    ((final_status_code, backend_status_code), a1, e0 ++ e1).

(* the block shared by four of the five header actions:
     if let (Some(trace), Some(id)) = (unit_trace, &self.id) {
         trace.add_value_computed_by_unit(id, value);
         if let Some(target_hash) = &self.target_hash { trace.{add,override}_unit_id_with_target(target_hash, id); } } *)
Definition unit_events (ovr : bool) (id target : option str) (value : str) : list uev :=
  match id with
  | None => []
  | Some i => EvValue i value :: match target with
                                 | Some th => [if ovr then EvOvrT th i else EvAddT th i]
                                 | None => []
                                 end
  end.

Definition uact := ((hkind * str * str) * unit_ref)%type.

(* LogOverride::get_log_override, third component (`handled`): true in the three first returns *)
Definition lov_handled (l : lov) (code : N) : bool :=
  if is_nil (lo_on l) then true
  else if lo_excl l && negb (memN code (lo_on l)) then true
  else if negb (lo_excl l) && memN code (lo_on l) then true
  else false.

Section WithLower.
Variable lower : str -> str.
Variable action_table : list (str * hkind).

(* header_action/mod.rs create_header_action: id and target_hash are copied into every action struct *)
Definition t_create_header_action (f : uhfilter) : option uact :=
  match create_header_action action_table (uh_filter f) with
  | Some a => Some (a, (uh_id f, uh_target f))
  | None => None
  end.

(* HeaderAction::filter of the five structs *)
Definition t_run_action (a : uact) (hs : list header) : list header * list uev :=
  let '((k, n, v), (id, th)) := a in
  match k with
  | KAdd => (add_filter n v hs, unit_events false id th v)                      (* header_add.rs: always, add *)
  | KRemove => (remove_filter lower n hs, unit_events true id th [])            (* header_remove.rs: always, value "", override *)
  | KReplace => (replace_filter lower n v hs,                                   (* header_replace.rs: once per replaced header *)
                 flat_map (fun h => if name_eq lower (fst h) n then unit_events true id th v else []) hs)
  | KOverride => (override_filter lower n v hs, unit_events true id th v)       (* header_override.rs: always, override *)
  | KDefault => (default_filter lower n v hs,                                   (* header_default.rs: only when absent, add *)
                 if default_found lower n hs then [] else unit_events false id th v)
  end.

(* filter_header.rs FilterHeaderAction::new / filter *)
Fixpoint t_collect_actions (fs : list uhfilter) : list uact :=
  match fs with
  | [] => []
  | f :: fs' => match t_create_header_action f with
                | Some a => a :: t_collect_actions fs'
                | None => t_collect_actions fs'
                end
  end.
Definition t_filter_header_action_new (fs : list uhfilter) : option (list uact) :=
  if is_nil fs then None
  else let acts := t_collect_actions fs in if is_nil acts then None else Some acts.
Definition t_filter_header_action_filter (acts : list uact) (hs : list header) : list header * list uev :=
  fold_left (fun st a => let '(hs', ev) := t_run_action a (fst st) in (hs', snd st ++ ev)) acts (hs, []).
Definition t_apply_header_filters (fs : list uhfilter) (hs : list header) : list header * list uev :=
  match t_filter_header_action_new fs with
  | None => (hs, [])
  | Some acts => t_filter_header_action_filter acts hs
  end.

(* Action::filter_headers l.498-558; l.546-548: trace.rule_ids_applied.extend(self.get_applied_rule_ids().clone())
   AFTER the header actions ran *)
Definition t_filter_headers (a : uaction) (hs : list header) (code : N) (add_rule_ids_header : bool)
  : list header * uaction * list uev :=
  let ap1 := fold_left (fun l t => if trace_applies t code then lhs_insert (rt_id t) l else l) (ua_traces a) (ua_applied a) in
  let sel := filter (fun f => negb (guard_skips (hfa_on (uhfa_base f)) (hfa_excl (uhfa_base f)) code)) (ua_hf a) in
  let ap2 := fold_left (fun l f => apply_opt (hfa_rule (uhfa_base f)) l) sel ap1 in
  let '(hs', ev) := t_apply_header_filters (map uhfa_ufilter sel) hs in
  let hs'' := if add_rule_ids_header then hs' ++ [(s_ruleids_header, join_semicolon ap2)] else hs' in
  (hs'', ua_set_applied a ap2, ev ++ map EvRule ap2).
End WithLower.

(* Action::create_filter_body l.560-583: takes no trace; the selected filters keep their ids *)
Definition t_create_filter_body (a : uaction) (code : N) : list ubfilter * uaction :=
  let sel := filter (fun f => negb (guard_skips (bfa_on (ubfa_base f)) (bfa_excl (ubfa_base f)) code)) (ua_bf a) in
  let ap := fold_left (fun l f => apply_opt (bfa_rule (ubfa_base f)) l) sel (ua_applied a) in
  (map ubfa_ufilter sel, ua_set_applied a ap).

(* Action::should_log_request l.585-604 *)
Definition t_should_log_request (a : uaction) (allow_log_config : bool) (code : N) : bool * uaction * list uev :=
  match ua_log a with
  | None => (allow_log_config, a, [])
  | Some l =>
      let '(allow, rl) := lov_get (ul_lov l) code in
      (opt_default allow_log_config allow, ua_set_applied a (apply_opt rl (ua_applied a)),
       if lov_handled (ul_lov l) code then cfg_event s_cfg_log (ul_unit l) else [])   (* l.591-595 *)
  end.

(* ------------------------------------------------------------------ text body stages with their unit id *)
Definition utext_stage := (text_stage * option str)%type.       (* TextFilterBodyAction {id, action, content, executed} *)

(* TextFilterBodyAction::filter (text_filter_body.rs l.29-77): the trace call comes first, at EVERY call, whatever
   `executed` says; the target is the literal "text" (TextBodyFilter.target_hash is never read) *)
Definition t_text_filter (s : utext_stage) (data : str) : option (utext_stage * str) * list uev :=
  let ev := match snd s with
            | None => []
            | Some id => [match ts_action (fst s) with
                          | TReplace => EvOvrT s_text id
                          | TAppend => EvAddT s_text id
                          | TPrepend => EvAddT s_text id
                          end]
            end in
  (Some ((fst (text_filter (fst s) data), snd s), snd (text_filter (fst s) data)), ev).
(* TextFilterBodyAction::end: no trace parameter *)
Definition t_text_end (s : utext_stage) : option (utext_stage * str) :=
  Some ((fst (text_end (fst s)), snd s), snd (text_end (fst s))).

Section TChain.
(* filter_body.rs with the trace: a stage's filter may fail (Err); what it wrote to the trace before stays *)
Variable stage : Type.
Variable s_filter : stage -> str -> option (stage * str) * list uev.
Variable s_end : stage -> option (stage * str).

(* do_filter l.106-116 *)
Fixpoint t_chain_filter (chain : list stage) (data : str) : option (list stage * str) * list uev :=
  match chain with
  | [] => (Some ([], data), [])
  | st :: rest =>
      match s_filter st data with
      | (None, e1) => (None, e1)
      | (Some (st', out), e1) =>
          if is_nil out then (Some (st' :: rest, out), e1)
          else match t_chain_filter rest out with
               | (None, e2) => (None, e1 ++ e2)
               | (Some (rest', out'), e2) => (Some (st' :: rest', out'), e1 ++ e2)
               end
      end
  end.

(* do_end l.134-152: item.end() takes no trace; item.filter(str, trace) does *)
Fixpoint t_chain_end (chain : list stage) (data : option str) : option (list stage * str) * list uev :=
  match chain with
  | [] => (Some ([], match data with Some d => d | None => [] end), [])
  | st :: rest =>
      let r := match data with
               | None => (s_end st, [])
               | Some d => match s_filter st d with
                           | (None, e1) => (None, e1)
                           | (Some (st1, o1), e1) => match s_end st1 with
                                                     | None => (None, e1)
                                                     | Some (st2, o2) => (Some (st2, o1 ++ o2), e1)
                                                     end
                           end
               end in
      match r with
      | (None, e1) => (None, e1)
      | (Some (st', nd), e1) =>
          match t_chain_end rest (if is_nil nd then None else Some nd) with
          | (None, e2) => (None, e1 ++ e2)
          | (Some (rest', out), e2) => (Some (st' :: rest', out), e1 ++ e2)
          end
      end
  end.

(* FilterBodyAction::{filter,end} l.90-132 *)
Definition t_fba_filter (f : fba stage) (data : str) : (fba stage * str) * list uev :=
  if fb_in_error f then ((f, data), [])
  else match t_chain_filter (fb_chain f) data with
       | (Some (c', out), e) => (({| fb_chain := c'; fb_in_error := false |}, out), e)
       | (None, e) => (({| fb_chain := fb_chain f; fb_in_error := true |}, data), e)
       end.
Definition t_fba_end (f : fba stage) : (fba stage * str) * list uev :=
  if fb_in_error f then ((f, []), [])
  else match t_chain_end (fb_chain f) None with
       | (Some (c', out), e) => (({| fb_chain := c'; fb_in_error := false |}, out), e)
       | (None, e) => (({| fb_chain := fb_chain f; fb_in_error := true |}, []), e)
       end.
Fixpoint t_fba_run (f : fba stage) (chunks : list str) : str * list uev :=
  match chunks with
  | [] => let '((_, out), e) := t_fba_end f in (out, e)
  | c :: rest => let '((f', out), e) := t_fba_filter f c in
                 let '(out', e') := t_fba_run f' rest in (out ++ out', e ++ e')
  end.
End TChain.

(* FilterBodyAction::new with text filters only and no content-encoding: FilterBodyActionItem::new passes
   text_body_filter.id to TextFilterBodyAction::new (filter_body.rs l.176-184) *)
Definition t_text_body_run (fs : list ubfilter) (chunks : list str) : str * list uev :=
  t_fba_run utext_stage t_text_filter t_text_end
            {| fb_chain := map (fun f => (text_new (bf_action (ub_filter f)) (bf_content (ub_filter f)), ub_id f)) fs;
               fb_in_error := false |} chunks.

(* ------------------------------------------------------------------ the analysis blocks *)
Section TPipeline.
Variable lower : str -> str.
Variable action_table : list (str * hkind).

(* the response-phase calls.  [with_log = false]: src/api/unit_ids.rs, which does not call should_log_request *)
Definition t_response_phase (with_log : bool) (a : uaction) (final backend : N) (skeleton : str) : response * list uev :=
  let '(hs, a2, e1) := t_filter_headers lower action_table a [] backend false in
  let '(bfs, a3) := t_create_filter_body a2 backend in
  let '(body, e2) := t_text_body_run bfs [skeleton] in
  let '(lg, a4, e3) := if with_log then t_should_log_request a3 true final else (true, a3, []) in
  ({| rs_status := final; rs_backend := backend; rs_headers := hs; rs_body := body; rs_log := lg; rs_applied := ua_applied a4 |},
   e1 ++ e2 ++ e3).

(* explain_request.rs l.117-139, impact.rs l.166-188 *)
Definition t_analysis_response (a : uaction) (example_code : option N) (skeleton : str) : response * list uev :=
  let '((final, backend), a1, e0) := t_get_final_status_code_with_fallback a (opt_default 0%N example_code) 200%N in
  let '(resp, e1) := t_response_phase true a1 final backend skeleton in (resp, e0 ++ e1).

(* proxy order, also the text of test_examples.rs l.150-175 ([with_log = true], backend_code =
   example.response_status_code.unwrap_or(200)) and unit_ids.rs l.87-108 ([with_log = false]) *)
Definition t_live_response (with_log : bool) (a : uaction) (backend_code : N) (skeleton : str) : response * list uev :=
  let '(at_request, a0, e0) := t_get_status_code a 0 in
  if negb (N.eqb at_request 0) then
    let '(resp, e1) := t_response_phase with_log a0 at_request at_request skeleton in (resp, e0 ++ e1)
  else
    let '(final, a1, e1) := t_get_status_code a0 backend_code in
    let '(resp, e2) := t_response_phase with_log a1 final backend_code skeleton in (resp, e0 ++ e1 ++ e2).

(* from the matched rules: the response, and the method calls of the whole block from UnitTrace::default() on *)
Definition t_analysis_events (rules : list urule) (skipped : option str) (override : option bool)
           (example_code : option N) (skeleton : str) : response * list uev :=
  let '(a, e0) := t_from_routes_rule rules skipped override [] in
  let '(resp, e1) := t_analysis_response a example_code skeleton in (resp, e0 ++ e1).

(* the trace just before squash_with_target_unit_traces() *)
Definition t_analysis_pre (rules : list urule) (skipped : option str) (override : option bool)
           (example_code : option N) (skeleton : str) : response * utrace :=
  let '(resp, e) := t_analysis_events rules skipped override example_code skeleton in (resp, run_events e ut_empty).

(* ExplainRequestOutput::create_result / ImpactOutput::compute_impacts: response and the serialised unit_trace *)
Definition t_analysis_of_rules (rules : list urule) (skipped : option str) (override : option bool)
           (example_code : option N) (skeleton : str) : response * utrace :=
  let '(resp, t) := t_analysis_pre rules skipped override example_code skeleton in (resp, ut_squash t).

(* the same with the HashMap iterating in the order given by [order] (a rearrangement of the with-target map) *)
Definition t_analysis_of_rules_ordered (order : list (str * list str) -> list (str * list str))
           (rules : list urule) (skipped : option str) (override : option bool)
           (example_code : option N) (skeleton : str) : response * utrace :=
  let '(resp, t) := t_analysis_pre rules skipped override example_code skeleton in (resp, squash_over (order (ut_targets t)) t).

(* test_examples.rs l.145-185 for one example of rule [id]: (trace, unit_ids_not_applied_anymore, rule_ids_contains(id)) *)
Definition t_test_example (rules : list urule) (skipped : option str) (override : option bool)
           (example_code : option N) (skeleton : str) (expected_units : list str) (id : str)
  : utrace * list str * bool :=
  let '(a, e0) := t_from_routes_rule rules skipped override [] in
  let '(_, e1) := t_live_response true a (opt_default 200%N example_code) skeleton in
  let t := ut_squash (run_events (e0 ++ e1) ut_empty) in
  (t, ut_diff t expected_units, ut_rule_ids_contains t id).

(* unit_ids.rs l.82-114: the unit_ids_applied stored on the example *)
Definition t_unit_ids (rules : list urule) (skipped : option str) (override : option bool)
           (example_code : option N) (skeleton : str) : list str :=
  let '(a, e0) := t_from_routes_rule rules skipped override [] in
  let '(_, e1) := t_live_response false a (opt_default 200%N example_code) skeleton in
  ut_get_unit_ids_applied (ut_squash (run_events (e0 ++ e1) ut_empty)).
End TPipeline.

(* ------------------------------------------------------------------ what a correspondence run compares *)
Fixpoint insert_kv (x : str * str) (l : list (str * str)) : list (str * str) :=
  match l with
  | [] => [x]
  | y :: l' => if str_ltb (fst x) (fst y) then x :: l else y :: insert_kv x l'
  end.
Definition sort_kv (l : list (str * str)) : list (str * str) := fold_right insert_kv [] l.

(* the four serialised fields of `unit_trace`: rule_ids_applied and unit_ids_applied in order; unit_ids_seen as a set
   (sorted); value_computed_by_units as a map (sorted by key).  The harness must sort the last two the same way. *)
Definition ut_report (t : utrace) : list str * list str * list str * list (str * str) :=
  (ut_rules t, ut_applied t, sort_strs (ut_seen t), sort_kv (ut_values t)).
