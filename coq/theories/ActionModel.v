(* ActionModel.v — executable model of src/action/{mod,status_code_update,log_override}.rs:
   from_route_rule, merge, from_routes_rule (sort by Rule::cmp then fold with reset/stop),
   get_status_code, filter_headers, create_filter_body, should_log_request, rules_applied.
   Marker substitution (StaticOrDynamic::replace) is the identity here: C05 is about rules whose
   values are literals; substitution is C10's subject.  Unit traces are not modelled. *)
Require Import RIO.Base RIO.Headers RIO.BodyText.

(* LinkedHashSet<String>::insert: an existing element moves to the back *)
Definition lhs_insert (x : str) (l : list str) : list str := filter (fun y => negb (str_eqb y x)) l ++ [x].

Record bfilter := { bf_action : text_action; bf_content : str }.   (* BodyFilter::Text; HTML filters: RIO.HtmlFilter *)

Record rule := {
  r_id : str; r_rank : N;
  r_status : option N;                 (* status_code *)
  r_target : option str;               (* target after substitution *)
  r_codes : option (list N);           (* source.response_status_codes *)
  r_excl : option bool;                (* source.exclude_response_status_codes *)
  r_hf : list hfilter;                 (* header_filters (None = []) *)
  r_bf : list bfilter;                 (* body_filters *)
  r_log : option bool;                 (* log_override *)
  r_reset : option bool; r_stop : option bool;
  r_sampling : option N
}.

Record scu := {                        (* StatusCodeUpdate *)
  sc_status : N; sc_on : list N; sc_excl : bool; sc_fallback : N;
  sc_rule : option str; sc_fallback_rule : option str
}.
Record lov := {                        (* LogOverride *)
  lo_log : bool; lo_rule : option str; lo_on : list N; lo_excl : bool;
  lo_fallback : option bool; lo_fallback_rule : option str
}.
Record hfa := { hfa_filter : hfilter; hfa_on : list N; hfa_excl : bool; hfa_rule : option str }.
Record bfa := { bfa_filter : bfilter; bfa_on : list N; bfa_excl : bool; bfa_rule : option str }.
Record rtrace := { rt_id : str; rt_on : list N; rt_excl : bool }.

Record action := {
  a_status : option scu;
  a_hf : list hfa;
  a_bf : list bfa;
  a_rule_ids : list str;
  a_traces : list rtrace;
  a_applied : list str;
  a_log : option lov
}.

Definition action_default : action :=
  {| a_status := None; a_hf := []; a_bf := []; a_rule_ids := []; a_traces := []; a_applied := []; a_log := None |}.

Definition c_qmark : N := 63. Definition c_amp : N := 38.
Definition s_location : str := [76;111;99;97;116;105;111;110]%N.
Definition s_override_lit : str := [111;118;101;114;114;105;100;101]%N.

Definition opt_default {A} (d : A) (o : option A) : A := match o with Some a => a | None => d end.

(* rule.source.exclude_response_status_codes.unwrap_or(false) (repaired code; the pinned tree used is_some()) *)
Definition excl_flag (r : rule) : bool := opt_default false (r_excl r).

(* sampling decision: percent_rand = sampling.clamp(0,100); random_value = rand % 100 + 1 in [1,100];
   match (sampling_override, random_value > percent_rand) { (Some(false),_) => skip, (None,true) => skip, _ => go } *)
Definition sampled_out (sampling : option N) (override : option bool) (rv : N) : bool :=
  match sampling with
  | None => false
  | Some s =>
      let pct := N.min s 100 in
      match override, N.ltb pct rv with
      | Some false, _ => true
      | None, true => true
      | _, _ => false
      end
  end.

Definition target_value (t : str) (skipped : option str) : str :=
  match skipped with
  | None => t
  | Some sk => t ++ [if memN c_qmark t then c_amp else c_qmark] ++ sk
  end.

(* Action::from_route_rule -> (Option<Action>, reset, stop) *)
Definition from_route_rule (r : rule) (skipped : option str) (override : option bool) (rv : N)
  : option action * bool * bool :=
  if sampled_out (r_sampling r) override rv then (None, false, false)
  else
    let on := opt_default [] (r_codes r) in
    let ex := excl_flag r in
    let st := match opt_default 0%N (r_status r) with
              | 0%N => None
              | code => Some {| sc_status := code; sc_on := on; sc_excl := ex; sc_fallback := 0;
                                sc_rule := Some (r_id r); sc_fallback_rule := None |}
              end in
    let loc := match r_target r with
               | Some t => if is_nil t then []
                           else [{| hfa_filter := {| hf_action := s_override_lit; hf_header := s_location; hf_value := target_value t skipped |};
                                    hfa_on := on; hfa_excl := ex; hfa_rule := Some (r_id r) |}]
               | None => []
               end in
    let hfs := map (fun f => {| hfa_filter := f; hfa_on := on; hfa_excl := ex; hfa_rule := Some (r_id r) |}) (r_hf r) in
    let bfs := map (fun f => {| bfa_filter := f; bfa_on := on; bfa_excl := ex; bfa_rule := Some (r_id r) |}) (r_bf r) in
    (Some {| a_status := st; a_hf := loc ++ hfs; a_bf := bfs;
             a_rule_ids := [r_id r];
             a_traces := [{| rt_id := r_id r; rt_on := on; rt_excl := ex |}];
             a_applied := [];
             a_log := match r_log r with
                      | Some l => Some {| lo_log := l; lo_rule := Some (r_id r); lo_on := on; lo_excl := ex;
                                          lo_fallback := None; lo_fallback_rule := None |}
                      | None => None
                      end |},
     opt_default false (r_reset r), opt_default false (r_stop r)).

(* Action::merge *)
Definition merge_status (old new : option scu) : option scu :=
  match new with
  | None => old
  | Some n =>
      match old with
      | None => Some n
      | Some o =>
          if negb (is_nil (sc_on o)) || is_nil (sc_on n) then Some n
          else Some {| sc_status := sc_status n; sc_on := sc_on n; sc_excl := sc_excl n;
                       sc_fallback := sc_status o; sc_rule := sc_rule n; sc_fallback_rule := sc_rule o |}
      end
  end.

Definition merge_log (old new : option lov) : option lov :=
  match new with
  | None => old
  | Some n =>
      match old with
      | None => Some n
      | Some o =>
          if negb (is_nil (lo_on o)) || is_nil (lo_on n) then Some n
          else Some {| lo_log := lo_log n; lo_rule := lo_rule n; lo_on := lo_on n; lo_excl := lo_excl n;
                       lo_fallback := Some (lo_log o); lo_fallback_rule := lo_rule o |}
      end
  end.

Definition merge (a other : action) : action :=
  {| a_status := merge_status (a_status a) (a_status other);
     a_hf := a_hf a ++ a_hf other;
     a_bf := a_bf a ++ a_bf other;
     a_rule_ids := fold_left (fun l x => lhs_insert x l) (a_rule_ids other) (a_rule_ids a);
     a_traces := a_traces a ++ a_traces other;
     a_applied := a_applied a;
     a_log := merge_log (a_log a) (a_log other) |}.

(* Rule::cmp: rank descending, then id descending; routes.sort() is a stable sort *)
Fixpoint str_ltb (a b : str) : bool :=           (* byte-wise lexicographic < *)
  match a, b with
  | _, [] => false
  | [], _ :: _ => true
  | x :: a', y :: b' => if N.ltb x y then true else if N.ltb y x then false else str_ltb a' b'
  end.
(* [rule_before a b]: Rule::cmp(a,b) != Greater *)
Definition rule_before (a b : rule) : bool :=
  if N.ltb (r_rank b) (r_rank a) then true
  else if N.ltb (r_rank a) (r_rank b) then false
  else negb (str_ltb (r_id a) (r_id b)).

Fixpoint insert_sorted (x : rule) (l : list rule) : list rule :=
  match l with
  | [] => [x]
  | y :: l' => if rule_before x y then x :: l else y :: insert_sorted x l'
  end.
Definition sort_rules (l : list rule) : list rule := fold_right insert_sorted [] l.

(* Action::from_routes_rule on the sorted list *)
Fixpoint fold_rules (acc : action) (l : list rule) (skipped : option str) (override : option bool) (rvs : list N) : action :=
  match l with
  | [] => acc
  | r :: l' =>
      let rv := match rvs with v :: _ => v | [] => 1%N end in
      let rvs' := match r_sampling r, rvs with Some _, _ :: t => t | _, _ => rvs end in
      match from_route_rule r skipped override rv with
      | (Some ar, reset, stop) =>
          let acc' := if reset then ar else merge acc ar in
          if stop then acc' else fold_rules acc' l' skipped override rvs'
      | (None, _, _) => fold_rules acc l' skipped override rvs'
      end
  end.

Definition from_routes_rule (rules : list rule) (skipped : option str) (override : option bool) (rvs : list N) : action :=
  fold_rules action_default (sort_rules rules) skipped override rvs.

(* StatusCodeUpdate::get_status_code *)
Definition scu_get (s : scu) (code : N) : N * option str :=
  if N.eqb code 0 && is_nil (sc_on s) then (sc_status s, sc_rule s)
  else if sc_excl s && negb (memN code (sc_on s)) then (sc_status s, sc_rule s)
  else if negb (sc_excl s) && memN code (sc_on s) then (sc_status s, sc_rule s)
  else if negb (N.eqb code 0) then (sc_fallback s, sc_fallback_rule s)
  else (0%N, None).

(* LogOverride::get_log_override *)
Definition lov_get (l : lov) (code : N) : option bool * option str :=
  if is_nil (lo_on l) then (Some (lo_log l), lo_rule l)
  else if lo_excl l && negb (memN code (lo_on l)) then (Some (lo_log l), lo_rule l)
  else if negb (lo_excl l) && memN code (lo_on l) then (Some (lo_log l), lo_rule l)
  else (lo_fallback l, lo_fallback_rule l).

Definition set_applied (a : action) (l : list str) : action :=
  {| a_status := a_status a; a_hf := a_hf a; a_bf := a_bf a; a_rule_ids := a_rule_ids a;
     a_traces := a_traces a; a_applied := l; a_log := a_log a |}.

Definition apply_opt (o : option str) (l : list str) : list str :=
  match o with Some x => lhs_insert x l | None => l end.

(* Action::get_status_code *)
Definition get_status_code (a : action) (code : N) : N * action :=
  match a_status a with
  | None => (0%N, a)
  | Some s => let '(st, rl) := scu_get s code in (st, set_applied a (apply_opt rl (a_applied a)))
  end.

(* the guard shared by header filters, body filters *)
Definition guard_skips (on : list N) (excl : bool) (code : N) : bool :=
  negb (is_nil on) && ((negb excl && negb (memN code on)) || (excl && memN code on)).

(* rule traces loop of filter_headers *)
Definition trace_applies (t : rtrace) (code : N) : bool :=
  is_nil (rt_on t) || (negb (rt_excl t) && memN code (rt_on t)) || (rt_excl t && negb (memN code (rt_on t))).

Section WithLower.
Variable lower : str -> str.
Variable action_table : list (str * hkind).

Definition s_ruleids_header : str := [88;45;82;101;100;105;114;101;99;116;105;111;110;73;111;45;82;117;108;101;73;100;115]%N.
Fixpoint join_semicolon (l : list str) : str :=
  match l with [] => [] | [x] => x | x :: l' => x ++ [59%N] ++ join_semicolon l' end.

(* Action::filter_headers *)
Definition filter_headers (a : action) (hs : list header) (code : N) (add_rule_ids_header : bool) : list header * action :=
  let ap1 := fold_left (fun l t => if trace_applies t code then lhs_insert (rt_id t) l else l) (a_traces a) (a_applied a) in
  let sel := filter (fun f => negb (guard_skips (hfa_on f) (hfa_excl f) code)) (a_hf a) in
  let ap2 := fold_left (fun l f => apply_opt (hfa_rule f) l) sel ap1 in
  let hs' := apply_header_filters lower action_table (map hfa_filter sel) hs in
  let hs'' := if add_rule_ids_header then hs' ++ [(s_ruleids_header, join_semicolon ap2)] else hs' in
  (hs'', set_applied a ap2).
End WithLower.

(* Action::create_filter_body: selected body filters (in order) and the updated applied list *)
Definition create_filter_body (a : action) (code : N) : list bfilter * action :=
  let sel := filter (fun f => negb (guard_skips (bfa_on f) (bfa_excl f) code)) (a_bf a) in
  let ap := fold_left (fun l f => apply_opt (bfa_rule f) l) sel (a_applied a) in
  (map bfa_filter sel, set_applied a ap).

(* Action::should_log_request *)
Definition should_log_request (a : action) (allow_log_config : bool) (code : N) : bool * action :=
  match a_log a with
  | None => (allow_log_config, a)
  | Some l => let '(allow, rl) := lov_get l code in
              (opt_default allow_log_config allow, set_applied a (apply_opt rl (a_applied a)))
  end.

(* text body filters on a body delivered as chunks (FilterBodyAction::new with text filters only and no
   content-encoding header: every Text filter becomes a stage) *)
Definition text_body_run (fs : list bfilter) (chunks : list str) : str :=
  fba_run text_stage (fun s d => Some (text_filter s d)) (fun s => Some (text_end s))
          {| fb_chain := map (fun f => text_new (bf_action f) (bf_content f)) fs; fb_in_error := false |} chunks.
