(* RxTokSem2.v — compositionality of the executable engine over tokens (second part of RIO.RxTokSem):
     rx_full_match_tokens   : toks_ok ts -> rx_is_match ic (^ render ts $) s = full_match G_rx fold_rx ic ts s
     rx_prefix_match_tokens : toks_ok ts -> rx_is_match ic (^ render ts) s   = prefix_match G_rx fold_rx ic ts s *)
Require Import RIO.Base RIO.Prefix RIO.RegexSem RIO.Tree RIO.TreeProofs RIO.TreeInst RIO.Rx RIO.RxMatch RIO.RxParse RIO.RxToks RIO.RxGi
               RIO.RxLaws RIO.RxAgree RIO.RxTokSem.
Close Scope N_scope.
Open Scope nat_scope.

Lemma existsb_none {A} (f : A -> bool) l : (forall x, f x = false) -> existsb f l = false.
Proof. intros H. induction l as [|x l IH]; cbn [existsb]; [reflexivity|]. rewrite H, IH. reflexivity. Qed.

Lemma skipn_cons_S {A} pos : forall (s : list A) x r, skipn pos s = x :: r -> skipn (S pos) s = r.
Proof. induction pos as [|pos IH]; intros s x r H; [cbn [skipn] in H; subst; reflexivity|]. destruct s as [|y s]; [discriminate|]. cbn [skipn] in *. apply (IH _ _ _ H). Qed.

(* a token that does not parse kills the token semantics *)
Lemma mt_dead ic whole full ts : forall gi pos rest, toks_atoms gi ts = None -> mt G_rx fold_rx ic whole full ts pos rest = false.
Proof.
  induction ts as [|t ts IH]; intros gi pos rest H; [discriminate|]. cbn [toks_atoms] in H.
  destruct (tok_atom gi t) as [[a gi1]|] eqn:Ea.
  - destruct (toks_atoms gi1 ts) as [[l g]|] eqn:El; [discriminate|]. destruct t as [c|b]; cbn [mt].
    + destruct rest as [|x r]; [reflexivity|]. rewrite (IH gi1 _ _ El). apply andb_false_r.
    + apply existsb_none. intros k. rewrite (IH gi1 _ _ El). apply andb_false_r.
  - destruct t as [c|b]; [discriminate|]. cbn [mt]. apply existsb_none. intros k. unfold G_rx.
    destruct (tok_atom 1 (TGrp b)) as [[a1 g1]|] eqn:E1; [|reflexivity].
    destruct (tok_atom_gi 1 gi _ _ _ E1) as (a' & g' & E'). rewrite E' in Ea. discriminate.
Qed.

(* the token semantics is the chain of reach over the token atoms *)
Lemma mt_reach_list ic (s : list N) full ts : forall gi l g pos, toks_atoms gi ts = Some (l, g) ->
  (mt G_rx fold_rx ic s full ts pos (skipn pos s) = true <->
   exists c', reach_list ic l (pos, skipn pos s) c' /\ (full = true -> snd c' = [])).
Proof.
  induction ts as [|t ts IH]; intros gi l g pos H; cbn [toks_atoms] in H.
  - inversion H; subst. cbn [mt reach_list]. split.
    + intros Hm. exists (pos, skipn pos s). split; [reflexivity|]. intros ->. cbn [snd]. destruct (skipn pos s); [reflexivity|discriminate].
    + intros (c' & -> & Hf). destruct full; [|reflexivity]. cbn [snd] in Hf. rewrite (Hf eq_refl). reflexivity.
  - destruct (tok_atom gi t) as [[a gi1]|] eqn:Ea; [|discriminate].
    destruct (toks_atoms gi1 ts) as [[l' g']|] eqn:El; [|discriminate]. inversion H; subst. cbn [reach_list].
    destruct t as [c|b].
    + cbn [tok_atom] in Ea. inversion Ea; subst. cbn [mt]. split.
      * destruct (skipn pos s) as [|x r] eqn:Es; [discriminate|]. intros Hm. apply andb_prop in Hm. destruct Hm as [Hc Hm].
        rewrite <- (skipn_cons_S pos s x r Es) in Hm. apply (IH gi1 l' g (S pos) El) in Hm. destruct Hm as (c' & Hl & Hf).
        exists c'. split; [|exact Hf]. exists (S pos, skipn (S pos) s). split; [|exact Hl].
        cbn [reach fst snd]. exists x, r. split; [reflexivity|]. split; [rewrite char_eq_fold; exact Hc|]. rewrite (skipn_cons_S pos s x r Es). reflexivity.
      * intros (c' & (c1 & Hr & Hl) & Hf). cbn [reach fst snd] in Hr. destruct Hr as (y & rest' & Es & Hc & ->). rewrite Es.
        rewrite char_eq_fold in Hc. rewrite Hc. cbn [andb]. rewrite <- (skipn_cons_S pos s y rest' Es).
        apply (IH gi1 l' g (S pos) El). exists c'. rewrite (skipn_cons_S pos s y rest' Es). split; assumption.
    + cbn [mt]. assert (HG : forall k, G_rx ic b s pos k = true <-> reach ic a (pos, skipn pos s) (pos + k, skipn k (skipn pos s))).
      { intros k. unfold G_rx. destruct (tok_atom_gi gi 1 (TGrp b) a gi1 Ea) as (a1 & g1 & E1). rewrite E1.
        rewrite reaches_to_iff. pose proof (tok_atom_erase gi 1 _ _ _ _ _ Ea E1) as Er.
        split; apply reach_erase_eq; [exact Er|symmetry; exact Er]. }
      split.
      * intros Hm. apply existsb_exists in Hm. destruct Hm as (k & _ & Hm). apply andb_prop in Hm. destruct Hm as [Hg Hm].
        apply HG in Hg. rewrite skipn_add in Hm, Hg. apply (IH gi1 l' g (pos + k) El) in Hm. destruct Hm as (c' & Hl & Hf).
        exists c'. split; [|exact Hf]. exists (pos + k, skipn (pos + k) s). split; assumption.
      * intros (c' & (c1 & Hr & Hl) & Hf). destruct (reach_suf _ _ _ _ Hr) as [[Hw1 Hw2] Hs]. cbn [fst snd] in *.
        destruct c1 as [p1 r1]. cbn [fst snd] in *. pose (k := p1 - pos). assert (Ek : p1 = pos + k) by (unfold k; lia). clearbody k. subst p1.
        replace (pos + k - pos) with k in Hs by lia.
        apply existsb_exists. exists k. assert (Hk : k <= length (skipn pos s)) by lia.
        split; [apply in_seq; split; [apply Nat.le_0_l|exact (le_n_S _ _ Hk)]|]. apply andb_true_intro. split.
        { apply HG. rewrite <- Hs. exact Hr. }
        rewrite skipn_add. apply (IH gi1 l' g (pos + k) El). exists c'. split; [|exact Hf].
        rewrite Hs, skipn_add in Hl. exact Hl.
Qed.

(* a valid anchored prefix pattern: every token parses in isolation (the node form of RxAgree.valid_toks_parse) *)
Lemma valid_node_toks_parse ic ts : forallb tok_ok ts = true -> rx_valid ic (ch_caret :: render ts) = true -> toks_parse ts = true.
Proof.
  intros Hok. unfold rx_valid, parse. set (s := ch_caret :: render ts). generalize (2 * length s + 4). intros F0.
  destruct (parse_alt F0 s 1) as [[[r rest] g]|] eqn:E; [|discriminate]. intros _.
  destruct F0 as [|[|f]]; [discriminate E|discriminate E|]. rewrite parse_alt_S in E.
  destruct (parse_cat (S f) s 1 REmpty) as [res|] eqn:Ec; [|discriminate E]. clear E. unfold s in Ec. rewrite parse_cat_S in Ec.
  change (N.eqb ch_caret ch_bar || N.eqb ch_caret ch_rparen) with false in Ec. cbv iota in Ec.
  change (atom_of (parse_alt f) (parse_class f) ch_caret (render ts) 1) with (Some (RBol, render ts, 1)) in Ec.
  cbv iota beta in Ec. rewrite <- (app_nil_r (render ts)) in Ec. apply quants_after_token in Ec; [|apply noquant_render; exact I].
  destruct (parse_cat_tokens ts 1 _ f res [] Hok I Ec) as (l & g' & Hl).
  unfold toks_parse. rewrite Hl. reflexivity.
Qed.

Theorem rx_full_match_tokens ic ts s : toks_ok ts ->
  rx_is_match ic (Tree.leaf_regex (render ts)) s = full_match G_rx fold_rx ic ts s.
Proof.
  intros Hok. unfold full_match. destruct (toks_atoms 1 ts) as [[l g]|] eqn:Ea.
  - apply eq_true_iff_eq. change 0 with (0 + 0) at 1. change s with (skipn 0 s) at 3.
    rewrite (mt_reach_list ic s true ts 1 l g 0 Ea). cbn [skipn].
    change (Tree.leaf_regex (render ts)) with (ch_caret :: render ts ++ [ch_dollar]).
    rewrite rx_is_match_unfold, (parse_leaf ts l g Ea). split.
    + intros Hm. apply existsb_exists in Hm. destruct Hm as ([p r] & Hin & Hm). cbn [fst snd] in Hm.
      apply matches_at_iff in Hm. destruct Hm as (c' & Hr). cbn [reach] in Hr. destruct Hr as (c1 & Hr & He & ->).
      apply reach_chain_elim in Hr. destruct Hr as (c0 & H0 & Hl). cbn [reach] in H0. destruct H0 as [Hp0 ->]. cbn [fst] in Hp0. subst p.
      destruct (suffixes_from_pos _ _ _ _ Hin) as [_ Hs]. specialize (Hs eq_refl). subst r.
      exists c1. split; [exact Hl|intros _; exact He].
    + intros (c' & Hl & Hf). apply existsb_exists. exists (0, s). split; [apply suffixes_from_head|]. cbn [fst snd].
      apply matches_at_iff. exists c'. cbn [reach]. exists c'. split; [|split; [apply Hf; reflexivity|reflexivity]].
      apply reach_chain_intro with (0, s); [split; reflexivity|exact Hl].
  - rewrite (mt_dead ic s true ts 1 0 s Ea). apply rx_invalid_never_matches.
    destruct (rx_valid ic (Tree.leaf_regex (render ts))) eqn:E; [|reflexivity].
    pose proof (valid_toks_parse ic ts Hok E) as Hp. unfold toks_parse in Hp. rewrite Ea in Hp. discriminate.
Qed.

Theorem rx_prefix_match_tokens ic ts s : toks_ok ts ->
  rx_is_match ic (Tree.c_caret :: render ts) s = prefix_match G_rx fold_rx ic ts s.
Proof.
  intros Hok. unfold prefix_match. destruct (toks_atoms 1 ts) as [[l g]|] eqn:Ea.
  - apply eq_true_iff_eq. change s with (skipn 0 s) at 3.
    rewrite (mt_reach_list ic s false ts 1 l g 0 Ea). cbn [skipn].
    change (Tree.c_caret :: render ts) with (ch_caret :: render ts).
    rewrite rx_is_match_unfold, (parse_node ts l g Ea). split.
    + intros Hm. apply existsb_exists in Hm. destruct Hm as ([p r] & Hin & Hm). cbn [fst snd] in Hm.
      apply matches_at_iff in Hm. destruct Hm as (c' & Hr).
      apply reach_chain_elim in Hr. destruct Hr as (c0 & H0 & Hl). cbn [reach] in H0. destruct H0 as [Hp0 ->]. cbn [fst] in Hp0. subst p.
      destruct (suffixes_from_pos _ _ _ _ Hin) as [_ Hs]. specialize (Hs eq_refl). subst r.
      exists c'. split; [exact Hl|discriminate].
    + intros (c' & Hl & _). apply existsb_exists. exists (0, s). split; [apply suffixes_from_head|]. cbn [fst snd].
      apply matches_at_iff. exists c'. apply reach_chain_intro with (0, s); [split; reflexivity|exact Hl].
  - rewrite (mt_dead ic s false ts 1 0 s Ea). apply rx_invalid_never_matches.
    destruct (rx_valid ic (Tree.c_caret :: render ts)) eqn:E; [|reflexivity].
    pose proof (valid_node_toks_parse ic ts Hok E) as Hp. unfold toks_parse in Hp. rewrite Ea in Hp. discriminate.
Qed.
