(* Base.v — common vocabulary of all models: bytes/chars are [N], strings are [list N]. *)
From Coq Require Export List NArith ZArith Bool Arith Lia Permutation.
From Coq Require Export ZifyBool ZifyNat ZifyN.
Export ListNotations.

Arguments N.add : simpl never.
Arguments N.sub : simpl never.
Arguments N.mul : simpl never.
Arguments N.eqb : simpl never.
Arguments N.ltb : simpl never.
Arguments N.leb : simpl never.

Definition str := list N.

Fixpoint str_eqb (a b : str) : bool :=
  match a, b with
  | [], [] => true
  | x :: a', y :: b' => N.eqb x y && str_eqb a' b'
  | _, _ => false
  end.

Lemma str_eqb_spec a b : str_eqb a b = true <-> a = b.
Proof.
  revert b; induction a as [|x a IH]; intros [|y b]; simpl; split; intros H;
    try reflexivity; try discriminate.
  - apply andb_prop in H. destruct H as [H1 H2]. apply N.eqb_eq in H1. apply IH in H2. subst. reflexivity.
  - inversion H; subst. rewrite N.eqb_refl. simpl. apply IH. reflexivity.
Qed.

Lemma str_eqb_refl a : str_eqb a a = true.
Proof. apply str_eqb_spec. reflexivity. Qed.

Lemma str_eqb_neq a b : str_eqb a b = false <-> a <> b.
Proof.
  split.
  - intros H E. apply str_eqb_spec in E. congruence.
  - intros H. destruct (str_eqb a b) eqn:E; [apply str_eqb_spec in E; contradiction|reflexivity].
Qed.

Lemma str_eqb_sym a b : str_eqb a b = str_eqb b a.
Proof.
  destruct (str_eqb a b) eqn:E.
  - apply str_eqb_spec in E. subst. symmetry. apply str_eqb_refl.
  - symmetry. apply str_eqb_neq. apply str_eqb_neq in E. congruence.
Qed.

(* association lists keyed by strings: used for oracle tables in the correspondence runs *)
Fixpoint assoc {A} (k : str) (l : list (str * A)) : option A :=
  match l with
  | [] => None
  | (k', v) :: l' => if str_eqb k k' then Some v else assoc k l'
  end.

Definition is_nil {A} (l : list A) : bool := match l with [] => true | _ => false end.

Definition memN (x : N) (l : list N) : bool := existsb (N.eqb x) l.
Definition mem_str (x : str) (l : list str) : bool := existsb (str_eqb x) l.

Lemma memN_In x l : memN x l = true <-> In x l.
Proof.
  unfold memN. rewrite existsb_exists. split.
  - intros (y & Hy & E). apply N.eqb_eq in E. subst. exact Hy.
  - intros H. exists x. split; [exact H|apply N.eqb_refl].
Qed.

Lemma mem_str_In x l : mem_str x l = true <-> In x l.
Proof.
  unfold mem_str. rewrite existsb_exists. split.
  - intros (y & Hy & E). apply str_eqb_spec in E. subst. exact Hy.
  - intros H. exists x. split; [exact H|apply str_eqb_refl].
Qed.

(* ASCII case mapping on bytes *)
Definition ascii_lower (c : N) : N := if (N.leb 65 c && N.leb c 90)%bool then (c + 32)%N else c.
Definition ascii_upper (c : N) : N := if (N.leb 97 c && N.leb c 122)%bool then (c - 32)%N else c.

(* Outcome of a partial Rust operation *)
Inductive outcome (A : Type) :=
| Ok (a : A)
| Panic (site : N)
| OutOfFuel.
Arguments Ok {A} a.
Arguments Panic {A} site.
Arguments OutOfFuel {A}.

Definition obind {A B} (o : outcome A) (f : A -> outcome B) : outcome B :=
  match o with Ok a => f a | Panic s => Panic s | OutOfFuel => OutOfFuel end.

(* verdict bits printed by the correspondence runs *)
Definition vbit (b : bool) (w : N) : N := if b then 0%N else w.
