(* C07Run.v — executable verdict for the C07 search (no input makes the library panic).
   A case = ONE call sequence through public entry points of the crate (the family says which: rule loading and
   routing, action building and application, body filtering, tokenizer, request constructors, transformers,
   analyses, logging, serde round trips), run under std::panic::catch_unwind in a watched thread.
   There is no functional prediction: the property only says that the call RETURNS.  Observation:
     o_panicked   a panic was caught (the message is in the evidence / replay file)
     o_timed_out  the call did not return within the wall-clock bound of the harness (2 s flag; the watchdog gives up
                  after 20 s and the harness stops: the remaining cases are then missing observations)
   Where an executable model with an [outcome] exists for the entry point, the case carries the model's input and
   the crate's output and bit 1 also compares them: today this is Slice::transform (RIO.Marker.slice_transform).
   A stack overflow or an abort cannot be caught: the harness process dies and the driver reports the missing
   observations (harness-run). *)
Require Import RIO.Base RIO.Marker.
Close Scope N_scope.

Record case07 := {
  k_family : N;                                  (* generator family, see harness/src/c07.rs FAMILIES *)
  k_slice : option (N * option N * str);         (* Some (from, to, value): the case applies Slice { from, to } to value *)
  o_panicked : bool;
  o_timed_out : bool;
  o_slice_out : option str;                      (* the crate's result of that transform, when it returned *)
  o_known : N                                    (* 0, or the code of the LISTED open finding (known_findings.json, property C07)
                                                    whose panic message the caught panic carries; see harness/src/c07.rs known_class *)
}.

Definition returned (c : case07) : bool := negb (o_panicked c) && negb (o_timed_out c).

(* the model's verdict on the Slice input: Ok r and r is what the crate returned *)
Definition slice_agrees (c : case07) : bool :=
  match k_slice c with
  | None => true
  | Some (from, to, v) =>
      match slice_transform from to v, o_slice_out c with
      | Ok r, Some r' => str_eqb r r'
      | Ok _, None => false          (* the model returns, the crate did not *)
      | _, _ => false                (* the model itself reports Panic / OutOfFuel: never, by C07_slice_total *)
      end
  end.

(* bit 1: "returned" as far as a model says so (and the Slice model agrees with the crate);
   bit 4: the property on the observation: did not panic and returned within the time bound *)
(* bits 8..: the code of a listed open finding, only on a caught panic (the driver prints KNOWN-FINDING for it while the
   finding is open in known_findings.json and reports a violation as soon as it is not) *)
Definition known_bits (c : case07) : N := if o_panicked c then (256 * o_known c)%N else 0%N.

Definition verdict07 (c : case07) : N :=
  (vbit (returned c && slice_agrees c) 1 + vbit (returned c) 4 + known_bits c)%N.

Definition spec_verdict07 (c : case07) : N := (vbit (returned c) 4 + known_bits c)%N.
