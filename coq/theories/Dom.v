(* Dom.v — the document type of the C15 generator (harness/src/c03.rs: enum Node, serialize, edit) and the
   token stream of a document as the HTML filter (RIO.HtmlFilter) sees it.

   [node]/[serialize] mirror the Rust [Node]/[serialize] constructor by constructor.  A document is the list of the
   children of the generator's "#root" element ([serialize_root] serialises exactly these), so "#root" itself is
   not represented.
   [edit] is the generator's reference edit [edit(n, path, at, action, value, css_matches)] with three
   generalisations, each of which specialises to the Rust function (lemma [edit_rs_edit] below for the first):
     - the inserted value is a list of nodes [value] (Rust: the single node Text(value)), so the result of
       editing a node is a list of nodes (Rust: one node); this is what makes several filters composable
       ([ref_edit_list]): the value inserted by one filter is part of the document the next filter sees;
     - the selector verdict is an oracle on the serialised target, asked per target (Rust: one boolean for all
       targets; the generator's [edit_first_only] is the case where the oracle holds of the first sibling only);
     - tag names are compared after [lower] (the tokenizer's to_lowercase; the generator's path names and
       target names are lower case), and a [Void] node named like the target is replaced like a [SelfClosing]
       one (the generator never produces one; the statement of C15 mentions it).
   The path is consumed as a list ([path[at..]] of the Rust function).
   No proofs about the filter in this file. *)
Require Import RIO.Base RIO.TokMonad RIO.HtmlTok RIO.HtmlFilter.
Close Scope N_scope.
Open Scope nat_scope.

Inductive node :=
| Elem (t a : str) (ch : list node)
| Void (t a : str)
| SelfClosing (t a : str)
| Text (s : str)
| Comment (s : str)
| Raw (t s : str).

Section NodeInd.
  Variable P : node -> Prop.
  Hypothesis HElem : forall t a ch, Forall P ch -> P (Elem t a ch).
  Hypothesis HVoid : forall t a, P (Void t a).
  Hypothesis HSelf : forall t a, P (SelfClosing t a).
  Hypothesis HText : forall s, P (Text s).
  Hypothesis HComment : forall s, P (Comment s).
  Hypothesis HRaw : forall t s, P (Raw t s).
  Fixpoint node_ind2 (n : node) : P n :=
    match n with
    | Elem t a ch => HElem t a ch ((fix go (l : list node) : Forall P l :=
                                     match l with [] => Forall_nil P | x :: l' => Forall_cons x (node_ind2 x) (go l') end) ch)
    | Void t a => HVoid t a
    | SelfClosing t a => HSelf t a
    | Text s => HText s
    | Comment s => HComment s
    | Raw t s => HRaw t s
    end.
End NodeInd.

(* '<' t a '>' , '</' t '>' , '<' t a '/>' *)
Definition open_tag (t a : str) : str := 60%N :: t ++ a ++ [62%N].
Definition close_tag (t : str) : str := 60%N :: 47%N :: t ++ [62%N].
Definition self_tag (t a : str) : str := 60%N :: t ++ a ++ [47%N; 62%N].
Definition comment_open : str := [60; 33; 45; 45]%N.     (* "<!--" *)
Definition comment_close : str := [45; 45; 62]%N.        (* "-->" *)

Fixpoint serialize (n : node) : str :=
  match n with
  | Elem t a ch => open_tag t a ++ flat_map serialize ch ++ close_tag t
  | Void t a => open_tag t a
  | SelfClosing t a => self_tag t a
  | Text s => s
  | Comment s => comment_open ++ s ++ comment_close
  | Raw t s => open_tag t [] ++ s ++ close_tag t
  end.
Definition ser_forest (l : list node) : str := flat_map serialize l.

Lemma ser_forest_app l1 l2 : ser_forest (l1 ++ l2) = ser_forest l1 ++ ser_forest l2.
Proof. apply flat_map_app. Qed.
Lemma ser_forest_cons n l : ser_forest (n :: l) = serialize n ++ ser_forest l.
Proof. reflexivity. Qed.

(* ------------------------------------------------------------------------------------------ tokens *)
(* what the filter loop reads from one token: its kind, its (lower-cased) tag name and its raw bytes *)
Inductive dtok :=
| DStart (name raw : str)         (* StartTagToken: a void name closes at once (handle_token) *)
| DEnd (name raw : str)           (* EndTagToken *)
| DSelf (name raw : str)          (* SelfClosingTagToken *)
| DOther (raw : str).             (* TextToken, CommentToken, DoctypeToken *)

Definition draw (t : dtok) : str :=
  match t with DStart _ r | DEnd _ r | DSelf _ r | DOther r => r end.

Inductive action := AAppend | APrepend | AReplace.

(* edit(): `let act = match (action, css_matches) {...}` *)
Definition acts (a : action) (css_matches : option bool) : bool :=
  match a, css_matches with
  | AReplace, Some false => false
  | AReplace, _ => true
  | _, Some true => false
  | _, _ => true
  end.

Section Lower.
Variable lower : str -> str.

Fixpoint doc_tokens (n : node) : list dtok :=
  match n with
  | Elem t a ch => DStart (lower t) (open_tag t a) :: flat_map doc_tokens ch ++ [DEnd (lower t) (close_tag t)]
  | Void t a => [DStart (lower t) (open_tag t a)]
  | SelfClosing t a => [DSelf (lower t) (self_tag t a)]
  | Text s => [DOther s]
  | Comment s => [DOther (comment_open ++ s ++ comment_close)]
  | Raw t s => [DStart (lower t) (open_tag t []); DOther s; DEnd (lower t) (close_tag t)]
  end.
Definition forest_tokens (l : list node) : list dtok := flat_map doc_tokens l.

Lemma forest_tokens_app l1 l2 : forest_tokens (l1 ++ l2) = forest_tokens l1 ++ forest_tokens l2.
Proof. apply flat_map_app. Qed.

Lemma doc_tokens_raw n : concat (map draw (doc_tokens n)) = serialize n.
Proof.
  induction n as [t a ch IH| | | | |] using node_ind2; cbn [doc_tokens serialize map concat draw]; rewrite ?app_nil_r; try reflexivity.
  - rewrite map_app, concat_app. cbn [map concat draw]. rewrite app_nil_r. f_equal. f_equal.
    induction IH as [|x l Hx Hl IHl]; [reflexivity|]. cbn [flat_map]. rewrite map_app, concat_app, Hx, IHl. reflexivity.
Qed.
Lemma forest_tokens_raw l : concat (map draw (forest_tokens l)) = ser_forest l.
Proof.
  induction l as [|x l IH]; [reflexivity|]. unfold forest_tokens, ser_forest in *. cbn [flat_map].
  rewrite map_app, concat_app, doc_tokens_raw, IH. reflexivity.
Qed.

(* no tag token of the node carries one of the names [ns] *)
Definition name_free (ns : list str) (t : str) : bool := negb (mem_str (lower t) ns).
Fixpoint free (ns : list str) (n : node) : bool :=
  match n with
  | Elem t _ ch => name_free ns t && forallb (free ns) ch
  | Void t _ | SelfClosing t _ | Raw t _ => name_free ns t
  | Text _ | Comment _ => true
  end.

(* start tags and end tags are balanced for the level count of append_child: an [Elem] is not named like a void
   element (its start tag opens a level) and a [Void] is (its start tag does not) *)
Fixpoint balanced (n : node) : bool :=
  match n with
  | Elem t _ ch => negb (is_void (lower t)) && forallb balanced ch
  | Void t _ => is_void (lower t)
  | Raw t _ => negb (is_void (lower t))
  | SelfClosing _ _ | Text _ | Comment _ => true
  end.

(* ------------------------------------------------------------------------------------------ the reference edit *)
Section Edit.
Variable act : action.
Variable value : list node.
Variable css : option (str -> bool).      (* None: no selector; Some f: f (serialised target) = "some element matches" *)

Definition css_matches (n : node) : option bool := match css with Some f => Some (f (serialize n)) | None => None end.

(* edit(n, path[at..]) *)
Fixpoint edit (path : list str) (n : node) : list node :=
  match path with
  | [] => [n]
  | p :: rest =>
      match n with
      | Elem t a ch =>
          if str_eqb (lower t) p then
            match rest with
            | [] =>
                if acts act (css_matches n) then
                  match act with
                  | AAppend => [Elem t a (ch ++ value)]
                  | APrepend => [Elem t a (value ++ ch)]
                  | AReplace => value
                  end
                else [n]
            | _ :: _ => [Elem t a (flat_map (edit rest) ch)]
            end
          else [n]
      | SelfClosing t _ | Void t _ =>
          match rest, act with
          | [], AReplace => if str_eqb (lower t) p && acts act (css_matches n) then value else [n]
          | _, _ => [n]
          end
      | _ => [n]
      end
  end.

(* the document = the children of "#root": edited at the same path position *)
Definition ref_edit (path : list str) (doc : list node) : list node := flat_map (edit path) doc.
End Edit.

(* one filter of a list: action, path, value, selector oracle *)
Record ref_filter := { rf_action : action; rf_path : list str; rf_value : list node; rf_css : option (str -> bool) }.
Definition ref_edit1 (f : ref_filter) (doc : list node) : list node :=
  ref_edit (rf_action f) (rf_value f) (rf_css f) (rf_path f) doc.
Definition ref_edit_list (fs : list ref_filter) (doc : list node) : list node := fold_left (fun d f => ref_edit1 f d) fs doc.

(* ---- the Rust function literally: one node in, one node out, the value is Text(value), one verdict for all *)
Section EditRs.
Variable act : action.
Variable value : str.
Variable css_m : option bool.
Fixpoint edit_rs (path : list str) (n : node) : node :=
  match path with
  | [] => n
  | p :: rest =>
      match n with
      | Elem t a ch =>
          if str_eqb (lower t) p then
            match rest with
            | [] =>
                if acts act css_m then
                  match act with
                  | AAppend => Elem t a (ch ++ [Text value])
                  | APrepend => Elem t a (Text value :: ch)
                  | AReplace => Text value
                  end
                else n
            | _ :: _ => Elem t a (map (edit_rs rest) ch)
            end
          else n
      | SelfClosing t _ =>
          match rest, act with
          | [], AReplace => if str_eqb (lower t) p && negb (match css_m with Some false => true | _ => false end) then Text value else n
          | _, _ => n
          end
      | _ => n
      end
  end.

(* no Void node carries the target's name (the generator's documents) *)
Fixpoint no_void_named (p : str) (n : node) : bool :=
  match n with
  | Elem _ _ ch => forallb (no_void_named p) ch
  | Void t _ => negb (str_eqb (lower t) p)
  | _ => true
  end.

Lemma edit_rs_edit : forall path n, forallb (fun p => no_void_named p n) path = true ->
  edit act [Text value] (match css_m with Some b => Some (fun _ => b) | None => None end) path n = [edit_rs path n].
Proof.
  intros path n. revert path.
  induction n as [t a ch IH|t a|t a|s|s|t s] using node_ind2; intros path Hv; (destruct path as [|p rest]; [reflexivity|]);
    cbn [edit edit_rs]; try reflexivity.
  - destruct (str_eqb (lower t) p); [|reflexivity].
    destruct rest as [|p2 rest2].
    + unfold css_matches. destruct css_m as [b|]; destruct (acts act _); try reflexivity; destruct act; reflexivity.
    + f_equal. f_equal.
      assert (Hv2 : forall x, In x ch -> forallb (fun q => no_void_named q x) (p2 :: rest2) = true).
      { intros x Hx. apply forallb_forall. intros q Hq. rewrite forallb_forall in Hv.
        specialize (Hv q (or_intror Hq)). cbn [no_void_named] in Hv. rewrite forallb_forall in Hv. apply Hv. exact Hx. }
      clear Hv. induction IH as [|x l Hx Hl IHl]; [reflexivity|]. cbn [flat_map map].
      rewrite Hx by (apply Hv2; left; reflexivity). cbn [app]. f_equal. apply IHl. intros y Hy. apply Hv2. right. exact Hy.
  - destruct rest; [|reflexivity]. destruct act; try reflexivity.
    cbn [forallb no_void_named] in Hv. apply andb_prop in Hv. destruct Hv as [Hv _].
    destruct (str_eqb (lower t) p); [discriminate|]. reflexivity.
  - destruct rest; [|reflexivity]. destruct act; try reflexivity.
    unfold css_matches. destruct css_m as [[|]|]; cbn [acts negb andb]; rewrite ?andb_true_r, ?andb_false_r; try reflexivity;
      destruct (str_eqb (lower t) p); reflexivity.
Qed.
End EditRs.

End Lower.
