(* C08Run.v — executable verdict for the correspondence check of C08/C12 (tree level):
   histories over RegexTreeMap / UniqueRegexTreeMap, observed after every operation. *)
Require Import RIO.Base RIO.Prefix RIO.Tree RIO.TreeInst RIO.Rx.
Close Scope N_scope.
Open Scope nat_scope.

Inductive hop :=
| HIns (p : pat) (k : ident) (v : N)
| HRem (k : ident)
| HRetain (drop : list ident)
| HCache (limit : N) (level : option nat).

Definition T := item N.
Definition eng_c := rx_is_match.
Definition valid_c := rx_valid.

Definition t_insert (t : T) p k v : T := insert N cp_c take_c clen_c t p k v.
Definition t_remove (t : T) k := remove N t k.
Definition t_retain (t : T) (drop : list ident) : T := retain N (fun k v => if mem_str k drop then None else Some v) t.
Definition t_cache (t : T) limit level := tree_cache N valid_c t limit level.
Definition t_find (t : T) s := find N eng_c t s.

Fixpoint ins_sorted (x : N) (l : list N) : list N :=
  match l with [] => [x] | y :: l' => if N.leb x y then x :: l else y :: ins_sorted x l' end.
Definition sortN (l : list N) : list N := fold_right ins_sorted [] l.

(* one observation: [[len; cached_len; removed code; cache-left]; sorted find per haystack ...; sorted get per pattern ...] *)
Definition rcode (r : option N) : N := match r with None => 1%N | Some v => (2 + v)%N end.

Definition mstep (t : T) (o : hop) : T * N * N :=
  match o with
  | HIns p k v => (t_insert t p k v, 0%N, 0%N)
  | HRem k => let '(t', r) := t_remove t k in (t', rcode r, 0%N)
  | HRetain drop => (t_retain t drop, 0%N, 0%N)
  | HCache l lv => let (t1, lft) := t_cache t l lv in (t1, 0%N, lft)
  end.

Definition observe_model (unique : bool) (t : T) (rc lft : N) (hays : list (list N)) (pats : list pat) : list (list N) :=
  [N.of_nat (len N t); N.of_nat (cached_len N t); rc; lft]
  :: map (fun s => sortN (t_find t s)) hays
  ++ map (fun p => let g := get N t p in if unique then (match rev g with [] => [] | x :: _ => [x] end) else sortN g) pats.

Fixpoint run_model (unique : bool) (t : T) (ops : list hop) hays pats : list (list (list N)) :=
  match ops with
  | [] => []
  | o :: ops' => let (tr, lft) := mstep t o in let (t1, rc) := tr in observe_model unique t1 rc lft hays pats :: run_model unique t1 ops' hays pats
  end.

(* ---- the flat specification ---- *)
Definition sentry := (pat * (ident * N))%type.
Definition s_id (e : sentry) := fst (snd e).
Definition s_val (e : sentry) := snd (snd e).

Definition sstep (L : list sentry) (o : hop) : list sentry * N :=
  match o with
  | HIns p k v => (filter (fun e => negb (str_eqb (s_id e) k)) L ++ [(p, (k, v))], 0%N)
  | HRem k => (filter (fun e => negb (str_eqb (s_id e) k)) L,
               rcode (match filter (fun e => str_eqb (s_id e) k) L with e :: _ => Some (s_val e) | [] => None end))
  | HRetain drop => (filter (fun e => negb (mem_str (s_id e) drop)) L, 0%N)
  | HCache _ _ => (L, 0%N)
  end.

Definition observe_spec (ic : bool) (L : list sentry) (rc : N) hays pats : list (list N) :=
  [N.of_nat (length L); 0%N; rc; 0%N]
  :: map (fun s => sortN (map s_val (filter (fun e => eng_c ic (leaf_regex (fst e)) s) L))) hays
  ++ map (fun p => sortN (map s_val (filter (fun e => str_eqb (fst e) p) L))) pats.

Fixpoint run_spec (ic : bool) (L : list sentry) (ops : list hop) hays pats : list (list (list N)) :=
  match ops with
  | [] => []
  | o :: ops' => let '(L', rc) := sstep L o in observe_spec ic L' rc hays pats :: run_spec ic L' ops' hays pats
  end.

Fixpoint lN_eqb (a b : list N) : bool := str_eqb a b.
Fixpoint llN_eqb (a b : list (list N)) : bool :=
  match a, b with [], [] => true | x :: a', y :: b' => str_eqb x y && llN_eqb a' b' | _, _ => false end.
Fixpoint obs_eqb (a b : list (list (list N))) : bool :=
  match a, b with [], [] => true | x :: a', y :: b' => llN_eqb x y && obs_eqb a' b' | _, _ => false end.

(* the spec does not determine cached_len / cache-left: compare everything but those two fields *)
Definition strip_cache (o : list (list N)) : list (list N) :=
  match o with (l :: _ :: rc :: _) :: rest => [l; 0%N; rc; 0%N] :: rest | _ => o end.

Record case08 := {
  c_ic : bool; c_unique : bool; c_ops : list hop; c_hays : list (list N); c_pats : list pat;
  c_obs : list (list (list N))
}.

(* bit 1: model <> implementation; bit 4: flat specification <> implementation *)
Definition verdict08 (c : case08) : N :=
  let mo := run_model (c_unique c) (Empty (c_ic c)) (c_ops c) (c_hays c) (c_pats c) in
  let so := run_spec (c_ic c) [] (c_ops c) (c_hays c) (c_pats c) in
  (vbit (obs_eqb mo (c_obs c)) 1 + vbit (obs_eqb so (map strip_cache (c_obs c))) 4)%N.
Definition spec_verdict08 (c : case08) : N :=
  let so := run_spec (c_ic c) [] (c_ops c) (c_hays c) (c_pats c) in
  vbit (obs_eqb so (map strip_cache (c_obs c))) 4.
