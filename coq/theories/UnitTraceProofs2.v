(* UnitTraceProofs2.v — the methods of UnitTrace: replaying method calls (run_events), (S) squash, (D) diff, and the
   independence of squash from the HashMap's iteration order. *)
Require Import RIO.Base RIO.Headers RIO.BodyText RIO.ActionModel RIO.ActionSpec RIO.ActionProofs RIO.Pipeline.
Require Import RIO.UnitTrace RIO.UnitTraceProofs.
Require Import Coq.Sorting.Sorted.

(* ------------------------------------------------------------------ byte-wise order on strings, Vec::sort *)
Definition slt (a b : str) : Prop := str_ltb a b = true.     (* a < b *)
Definition sle (a b : str) : Prop := str_ltb b a = false.    (* a <= b *)

Lemma slt_sle_trans x y z : slt x y -> sle y z -> sle x z.
Proof.
  unfold slt, sle. intros Hxy Hyz. destruct (str_ltb z x) eqn:E; [|reflexivity].
  rewrite (str_ltb_trans _ _ _ E Hxy) in Hyz. discriminate.
Qed.

Lemma insert_str_perm x l : Permutation (insert_str x l) (x :: l).
Proof.
  induction l as [|y l IH]; cbn; [apply Permutation_refl|]. destruct (str_ltb x y); [apply Permutation_refl|].
  eapply Permutation_trans; [apply perm_skip; exact IH|apply perm_swap].
Qed.

Lemma sort_strs_perm l : Permutation (sort_strs l) l.
Proof.
  induction l as [|x l IH]; cbn; [constructor|]. eapply Permutation_trans; [apply insert_str_perm|]. constructor. exact IH.
Qed.

Lemma In_sort_strs x l : In x (sort_strs l) <-> In x l.
Proof.
  split; apply Permutation_in; [apply sort_strs_perm|apply Permutation_sym, sort_strs_perm].
Qed.

Lemma insert_str_sorted x l : StronglySorted sle l -> StronglySorted sle (insert_str x l).
Proof.
  induction l as [|y l IH]; intros Hs; cbn.
  - constructor; constructor.
  - inversion Hs as [|? ? Hs' Hy]; subst. destruct (str_ltb x y) eqn:E.
    + constructor; [exact Hs|]. constructor; [exact (str_ltb_asym _ _ E)|].
      eapply Forall_impl; [|exact Hy]. intros z Hz. eapply slt_sle_trans; eassumption.
    + constructor; [apply IH; exact Hs'|].
      eapply Permutation_Forall; [apply Permutation_sym, insert_str_perm|]. constructor; [exact E|exact Hy].
Qed.

Lemma sort_strs_sorted l : StronglySorted sle (sort_strs l).
Proof. induction l as [|x l IH]; cbn; [constructor|apply insert_str_sorted; exact IH]. Qed.

Lemma dedup_last_sorted (R : str -> str -> Prop) l : StronglySorted R l -> StronglySorted R (dedup_last l).
Proof.
  induction l as [|y l IH]; intros Hs; cbn; [constructor|]. inversion Hs as [|? ? Hs' Hy]; subst.
  destruct (mem_str y l); [apply IH; exact Hs'|]. constructor; [apply IH; exact Hs'|].
  rewrite Forall_forall in *. intros z Hz. apply Hy. apply In_dedup_last. exact Hz.
Qed.

Lemma sle_NoDup_slt l : StronglySorted sle l -> NoDup l -> StronglySorted slt l.
Proof.
  induction l as [|y l IH]; intros Hs Hn; [constructor|].
  inversion Hs as [|? ? Hs' Hy]; subst. inversion Hn as [|? ? Hy' Hn']; subst.
  constructor; [apply IH; assumption|]. rewrite Forall_forall in *. intros z Hz. unfold slt.
  destruct (str_ltb y z) eqn:E; [reflexivity|]. exfalso. apply Hy'.
  rewrite (str_ltb_trichotomy y z E (Hy z Hz)). exact Hz.
Qed.

Lemma slt_sorted_NoDup l : StronglySorted slt l -> NoDup l.
Proof.
  induction l as [|y l IH]; intros Hs; [constructor|]. inversion Hs as [|? ? Hs' Hy]; subst.
  constructor; [|apply IH; exact Hs']. intros Hin. rewrite Forall_forall in Hy. specialize (Hy y Hin).
  unfold slt in Hy. rewrite str_ltb_irrefl in Hy. discriminate.
Qed.

(* a strictly sorted list is determined by its elements *)
Lemma slt_sorted_unique l1 : forall l2, StronglySorted slt l1 -> StronglySorted slt l2 ->
  (forall x, In x l1 <-> In x l2) -> l1 = l2.
Proof.
  induction l1 as [|a l1 IH]; intros l2 S1 S2 Hi.
  - destruct l2 as [|b l2]; [reflexivity|]. exfalso. apply (proj2 (Hi b)). left. reflexivity.
  - destruct l2 as [|b l2]; [exfalso; apply (proj1 (Hi a)); left; reflexivity|].
    inversion S1 as [|? ? S1' F1]; subst. inversion S2 as [|? ? S2' F2]; subst.
    rewrite Forall_forall in F1, F2.
    assert (Hab : a = b).
    { destruct (proj1 (Hi a) (or_introl eq_refl)) as [E|Ha]; [symmetry; exact E|].
      destruct (proj2 (Hi b) (or_introl eq_refl)) as [E|Hb]; [exact E|].
      pose proof (F1 b Hb) as H1. pose proof (F2 a Ha) as H2. unfold slt in *.
      rewrite (str_ltb_asym _ _ H1) in H2. discriminate. }
    subst b. f_equal. apply IH; [exact S1'|exact S2'|].
    intros x. split; intros Hx.
    + destruct (proj1 (Hi x) (or_intror Hx)) as [E|H]; [|exact H]. subst x.
      pose proof (F1 a Hx) as H1. unfold slt in H1. rewrite str_ltb_irrefl in H1. discriminate.
    + destruct (proj2 (Hi x) (or_intror Hx)) as [E|H]; [|exact H]. subst x.
      pose proof (F2 a Hx) as H1. unfold slt in H1. rewrite str_ltb_irrefl in H1. discriminate.
Qed.

(* LinkedHashSet::from_iter(sorted Vec): strictly sorted, same elements *)
Lemma sorted_set_sorted l : StronglySorted slt (lhs_of_list (sort_strs l)).
Proof.
  rewrite lhs_of_list_spec. apply sle_NoDup_slt; [apply dedup_last_sorted, sort_strs_sorted|apply NoDup_dedup_last].
Qed.

Lemma In_sorted_set x l : In x (lhs_of_list (sort_strs l)) <-> In x l.
Proof. rewrite lhs_of_list_spec, In_dedup_last. apply In_sort_strs. Qed.

(* ------------------------------------------------------------------ squash *)
Lemma add_unit_ids_fold ids : forall t,
  fold_left (fun tr id => ut_add_unit_id id tr) ids t
  = {| ut_rules := ut_rules t; ut_applied := lhs_extend ids (ut_applied t); ut_seen := lhs_extend ids (ut_seen t);
       ut_values := ut_values t; ut_targets := ut_targets t |}.
Proof.
  induction ids as [|i ids IH]; intros t; cbn [fold_left]; [destruct t; reflexivity|]. rewrite IH. reflexivity.
Qed.

Lemma squash_loops tgs : forall t,
  fold_left (fun tr (e : str * list str) => fold_left (fun tr' id => ut_add_unit_id id tr') (snd e) tr) tgs t
  = fold_left (fun tr id => ut_add_unit_id id tr) (flat_map snd tgs) t.
Proof.
  induction tgs as [|e tgs IH]; intros t; cbn [fold_left flat_map]; [reflexivity|]. rewrite fold_left_app. apply IH.
Qed.

(* squash in closed form: [flat_map snd tgs] are the ids of all targets in iteration order *)
Theorem squash_over_eq tgs t :
  squash_over tgs t
  = {| ut_rules := ut_rules t;
       ut_applied := lhs_of_list (sort_strs (lhs_extend (flat_map snd tgs) (ut_applied t)));
       ut_seen := lhs_extend (flat_map snd tgs) (ut_seen t);
       ut_values := ut_values t;
       ut_targets := [] |}.
Proof. unfold squash_over. rewrite squash_loops, add_unit_ids_fold. reflexivity. Qed.

Definition in_target (tgt x : str) (m : list (str * list str)) : Prop := exists ids, In (tgt, ids) m /\ In x ids.

Lemma in_flat_targets x m : In x (flat_map snd m) <-> exists tgt, in_target tgt x m.
Proof.
  rewrite in_flat_map. split.
  - intros ([tgt ids] & He & Hx). exists tgt, ids. split; assumption.
  - intros (tgt & ids & He & Hx). exists (tgt, ids). split; assumption.
Qed.

(* (S), on traces: sorted (hence duplicate free), exactly the direct ids plus the ids held by the targets *)
Theorem squash_over_sorted tgs t : StronglySorted slt (ut_applied (squash_over tgs t)).
Proof. rewrite squash_over_eq. cbn [ut_applied]. apply sorted_set_sorted. Qed.

Theorem squash_over_applied tgs t x :
  In x (ut_applied (squash_over tgs t)) <-> In x (ut_applied t) \/ In x (flat_map snd tgs).
Proof. rewrite squash_over_eq. cbn [ut_applied]. rewrite In_sorted_set, In_lhs_extend. tauto. Qed.

Theorem squash_over_seen tgs t x :
  In x (ut_seen (squash_over tgs t)) <-> In x (ut_seen t) \/ In x (flat_map snd tgs).
Proof. rewrite squash_over_eq. cbn [ut_seen]. rewrite In_lhs_extend. tauto. Qed.

Theorem squash_over_rest tgs t :
  ut_rules (squash_over tgs t) = ut_rules t /\ ut_values (squash_over tgs t) = ut_values t /\ ut_targets (squash_over tgs t) = [].
Proof. rewrite squash_over_eq. repeat split. Qed.

Lemma In_flat_perm (m m' : list (str * list str)) x : Permutation m m' -> In x (flat_map snd m) -> In x (flat_map snd m').
Proof.
  intros Hp. rewrite !in_flat_map. intros (e & He & Hx). exists e. split; [eapply Permutation_in; eassumption|exact Hx].
Qed.

(* the HashMap's iteration order: unit_ids_applied does not depend on it; unit_ids_seen does, but only in its order *)
Theorem squash_order_independent tgs tgs' t : Permutation tgs tgs' ->
  ut_rules (squash_over tgs t) = ut_rules (squash_over tgs' t)
  /\ ut_applied (squash_over tgs t) = ut_applied (squash_over tgs' t)
  /\ (forall x, In x (ut_seen (squash_over tgs t)) <-> In x (ut_seen (squash_over tgs' t)))
  /\ (NoDup (ut_seen t) -> Permutation (ut_seen (squash_over tgs t)) (ut_seen (squash_over tgs' t)))
  /\ ut_values (squash_over tgs t) = ut_values (squash_over tgs' t)
  /\ ut_targets (squash_over tgs t) = ut_targets (squash_over tgs' t).
Proof.
  intros Hp.
  assert (Hfl : forall x, In x (flat_map snd tgs) <-> In x (flat_map snd tgs')).
  { intros x. split; apply In_flat_perm; [exact Hp|apply Permutation_sym; exact Hp]. }
  assert (Hseen : forall x, In x (ut_seen (squash_over tgs t)) <-> In x (ut_seen (squash_over tgs' t))).
  { intros x. rewrite !squash_over_seen, Hfl. tauto. }
  split; [rewrite !squash_over_eq; reflexivity|].
  split.
  { apply slt_sorted_unique; try apply squash_over_sorted. intros x. rewrite !squash_over_applied, Hfl. tauto. }
  split; [exact Hseen|].
  split.
  { intros Hn. apply NoDup_Permutation; [| |exact Hseen]; rewrite squash_over_eq; cbn [ut_seen]; apply NoDup_lhs_extend; exact Hn. }
  split; rewrite !squash_over_eq; reflexivity.
Qed.

(* ------------------------------------------------------------------ replaying method calls *)
Definition rule_ids_of (evs : list uev) : list str := flat_map (fun e => match e with EvRule i => [i] | _ => [] end) evs.
Definition direct_ids_of (evs : list uev) : list str := flat_map (fun e => match e with EvAdd i => [i] | _ => [] end) evs.
Definition ev_unit (e : uev) : option str :=
  match e with EvAdd i => Some i | EvAddT _ i => Some i | EvOvrT _ i => Some i | _ => None end.
Definition unit_ids_of (evs : list uev) : list str :=
  flat_map (fun e => match ev_unit e with Some i => [i] | None => [] end) evs.

Lemma run_events_app e1 e2 t : run_events (e1 ++ e2) t = run_events e2 (run_events e1 t).
Proof. unfold run_events. apply fold_left_app. Qed.

Lemma lhs_extend_app a b l : lhs_extend (a ++ b) l = lhs_extend b (lhs_extend a l).
Proof. unfold lhs_extend. apply fold_left_app. Qed.

Lemma rule_ids_of_app a b : rule_ids_of (a ++ b) = rule_ids_of a ++ rule_ids_of b.
Proof. apply flat_map_app. Qed.

Theorem run_events_rules evs : forall t, ut_rules (run_events evs t) = lhs_extend (rule_ids_of evs) (ut_rules t).
Proof.
  induction evs as [|e evs IH]; intros t; [reflexivity|]. change (run_events (e :: evs) t) with (run_events evs (run_event t e)).
  rewrite IH. destruct e; reflexivity.
Qed.

Theorem run_events_applied evs : forall t, ut_applied (run_events evs t) = lhs_extend (direct_ids_of evs) (ut_applied t).
Proof.
  induction evs as [|e evs IH]; intros t; [reflexivity|]. change (run_events (e :: evs) t) with (run_events evs (run_event t e)).
  rewrite IH. destruct e; reflexivity.
Qed.

Theorem run_events_seen evs : forall t, ut_seen (run_events evs t) = lhs_extend (unit_ids_of evs) (ut_seen t).
Proof.
  induction evs as [|e evs IH]; intros t; [reflexivity|]. change (run_events (e :: evs) t) with (run_events evs (run_event t e)).
  rewrite IH. destruct e; reflexivity.
Qed.

Lemma In_direct_ids x evs : In x (direct_ids_of evs) <-> In (EvAdd x) evs.
Proof.
  unfold direct_ids_of. rewrite in_flat_map. split.
  - intros (e & He & Hx). destruct e; cbn in Hx; try contradiction. destruct Hx as [->|[]]. exact He.
  - intros H. exists (EvAdd x). split; [exact H|left; reflexivity].
Qed.

Lemma In_unit_ids x evs : In x (unit_ids_of evs) <-> exists e, In e evs /\ ev_unit e = Some x.
Proof.
  unfold unit_ids_of. rewrite in_flat_map. split.
  - intros (e & He & Hx). exists e. split; [exact He|]. destruct (ev_unit e) as [i|]; cbn in Hx; [|contradiction].
    destruct Hx as [->|[]]. reflexivity.
  - intros (e & He & Hx). exists e. split; [exact He|]. rewrite Hx. left. reflexivity.
Qed.

Lemma In_rule_ids x evs : In x (rule_ids_of evs) <-> In (EvRule x) evs.
Proof.
  unfold rule_ids_of. rewrite in_flat_map. split.
  - intros (e & He & Hx). destruct e; cbn in Hx; try contradiction. destruct Hx as [->|[]]. exact He.
  - intros H. exists (EvRule x). split; [exact H|left; reflexivity].
Qed.

(* value_computed_by_units as a map: the value of the last add_value_computed_by_unit(key, _) *)
Fixpoint last_value (k : str) (evs : list uev) (d : option str) : option str :=
  match evs with
  | [] => d
  | EvValue k' v :: evs' => last_value k evs' (if str_eqb k k' then Some v else d)
  | _ :: evs' => last_value k evs' d
  end.

Lemma has_key_false_assoc {V} k (m : list (str * V)) : has_key k m = false -> assoc k m = None.
Proof.
  induction m as [|[k' v] m IH]; cbn; [reflexivity|]. intros H. apply orb_false_iff in H. destruct H as [H1 H2].
  rewrite str_eqb_sym, H1. apply IH. exact H2.
Qed.

Lemma has_key_true_assoc {V} k (m : list (str * V)) : has_key k m = true -> exists v, assoc k m = Some v.
Proof.
  induction m as [|[k' v] m IH]; cbn; [discriminate|]. intros H. rewrite (str_eqb_sym k k').
  destruct (str_eqb k' k); [exists v; reflexivity|]. apply IH. exact H.
Qed.

Lemma assoc_hm_update {V} k k' (f : V -> V) m :
  assoc k (hm_update k' f m) = if str_eqb k k' then option_map f (assoc k m) else assoc k m.
Proof.
  induction m as [|[k0 v0] m IH]; cbn [hm_update map fst snd assoc]; [destruct (str_eqb k k'); reflexivity|].
  fold (hm_update k' f m). destruct (str_eqb k0 k') eqn:E0.
  - apply str_eqb_spec in E0. subst k0. cbn [assoc]. destruct (str_eqb k k') eqn:E; [reflexivity|]. rewrite IH. try rewrite E. reflexivity.
  - cbn [assoc]. destruct (str_eqb k k0) eqn:E1.
    + apply str_eqb_spec in E1. subst k0. rewrite E0. reflexivity.
    + exact IH.
Qed.

Lemma assoc_app {V} k (m m' : list (str * V)) : assoc k (m ++ m') = match assoc k m with Some v => Some v | None => assoc k m' end.
Proof. induction m as [|[k0 v0] m IH]; cbn; [reflexivity|]. destruct (str_eqb k k0); [reflexivity|exact IH]. Qed.

Lemma assoc_vc_insert k k' v m : assoc k (vc_insert k' v m) = if str_eqb k k' then Some v else assoc k m.
Proof.
  unfold vc_insert. destruct (has_key k' m) eqn:Hk.
  - rewrite assoc_hm_update. destruct (str_eqb k k') eqn:E; [|reflexivity]. apply str_eqb_spec in E. subst k'.
    destruct (has_key_true_assoc k m Hk) as (v0 & ->). reflexivity.
  - rewrite assoc_app. cbn [assoc]. destruct (str_eqb k k') eqn:E.
    + apply str_eqb_spec in E. subst k'. rewrite (has_key_false_assoc k m Hk). reflexivity.
    + destruct (assoc k m); reflexivity.
Qed.

Theorem run_events_values k evs : forall t, assoc k (ut_values (run_events evs t)) = last_value k evs (assoc k (ut_values t)).
Proof.
  induction evs as [|e evs IH]; intros t; [reflexivity|]. change (run_events (e :: evs) t) with (run_events evs (run_event t e)).
  rewrite IH. destruct e; try reflexivity. cbn [run_event ut_add_value_computed_by_unit ut_values last_value].
  rewrite assoc_vc_insert. reflexivity.
Qed.

(* ------------------------------------------------------------------ which ids a target holds *)
(* [survives tgt x evs]: x was passed for target tgt by an add_/override_unit_id_with_target call after which no
   override_unit_id_with_target call on tgt occurred *)
Definition survives (tgt x : str) (evs : list uev) : Prop :=
  exists pre ev post, evs = pre ++ ev :: post /\ (ev = EvAddT tgt x \/ ev = EvOvrT tgt x) /\ (forall j, ~ In (EvOvrT tgt j) post).

Lemma survives_snoc tgt x evs e :
  survives tgt x (evs ++ [e]) <-> (e = EvAddT tgt x \/ e = EvOvrT tgt x) \/ (survives tgt x evs /\ forall j, e <> EvOvrT tgt j).
Proof.
  split.
  - intros (pre & ev & post & Heq & Hev & Hpost).
    destruct post as [|p post].
    + left. apply (app_inj_tail evs pre e ev) in Heq. destruct Heq as [_ ->]. exact Hev.
    + right. destruct (exists_last (l := p :: post)) as (post' & z' & Hl'); [discriminate|].
      rewrite Hl' in Heq, Hpost. change (pre ++ ev :: post' ++ [z']) with (pre ++ (ev :: post') ++ [z']) in Heq.
      rewrite app_assoc in Heq. apply app_inj_tail in Heq. destruct Heq as [-> ->]. split.
      * exists pre, ev, post'. split; [reflexivity|]. split; [exact Hev|].
        intros j Hj. apply (Hpost j). apply in_or_app. left. exact Hj.
      * intros j Hj. apply (Hpost j). apply in_or_app. right. left. exact Hj.
  - intros [Hev|[(pre & ev & post & -> & Hev & Hpost) Hne]].
    + exists evs, e, []. split; [reflexivity|]. split; [exact Hev|]. intros j [].
    + exists pre, ev, (post ++ [e]). split; [rewrite <- app_assoc; reflexivity|]. split; [exact Hev|].
      intros j Hj. apply in_app_or in Hj. destruct Hj as [Hj|[Hj|[]]]; [exact (Hpost j Hj)|exact (Hne j Hj)].
Qed.

Lemma has_key_true {V} k (m : list (str * V)) : has_key k m = true <-> exists v, In (k, v) m.
Proof.
  unfold has_key. rewrite existsb_exists. split.
  - intros ([k' v] & He & E). cbn in E. apply str_eqb_spec in E. subst k'. exists v. exact He.
  - intros (v & He). exists (k, v). split; [exact He|apply str_eqb_refl].
Qed.

Lemma in_target_tg_add tgt x t i m : in_target tgt x (tg_add t i m) <-> (t = tgt /\ x = i) \/ in_target tgt x m.
Proof.
  unfold tg_add. destruct (has_key t m) eqn:Hk.
  - unfold in_target, hm_update. split.
    + intros (ids & He & Hx). apply in_map_iff in He. destruct He as ([k ids0] & HF & He). cbn [fst snd] in HF.
      destruct (str_eqb k t) eqn:E.
      * apply str_eqb_spec in E. subst k. inversion HF; subst. apply In_lhs_insert in Hx.
        destruct Hx as [->|Hx]; [left; split; reflexivity|right; exists ids0; split; assumption].
      * inversion HF; subst. right. exists ids. split; assumption.
    + intros [[-> ->]|(ids & He & Hx)].
      * apply has_key_true in Hk. destruct Hk as (ids0 & He). exists (lhs_insert i ids0). split.
        -- apply in_map_iff. exists (tgt, ids0). split; [cbn [fst snd]; rewrite str_eqb_refl; reflexivity|exact He].
        -- apply In_lhs_insert. left. reflexivity.
      * destruct (str_eqb tgt t) eqn:E.
        -- exists (lhs_insert i ids). split.
           ++ apply in_map_iff. exists (tgt, ids). split; [cbn [fst snd]; rewrite E; reflexivity|exact He].
           ++ apply In_lhs_insert. right. exact Hx.
        -- exists ids. split; [|exact Hx]. apply in_map_iff. exists (tgt, ids). split; [cbn [fst snd]; rewrite E; reflexivity|exact He].
  - unfold in_target. split.
    + intros (ids & He & Hx). apply in_app_or in He. destruct He as [He|[He|[]]].
      * right. exists ids. split; assumption.
      * inversion He; subst. destruct Hx as [->|[]]. left. split; reflexivity.
    + intros [[-> ->]|(ids & He & Hx)].
      * exists [i]. split; [apply in_or_app; right; left; reflexivity|left; reflexivity].
      * exists ids. split; [apply in_or_app; left; exact He|exact Hx].
Qed.

Lemma in_target_hm_remove tgt x t (m : list (str * list str)) : in_target tgt x (hm_remove t m) <-> t <> tgt /\ in_target tgt x m.
Proof.
  unfold in_target, hm_remove. split.
  - intros (ids & He & Hx). apply filter_In in He. destruct He as [He E]. cbn [fst] in E.
    apply negb_true_iff, str_eqb_neq in E. split; [congruence|]. exists ids. split; assumption.
  - intros [Hne (ids & He & Hx)]. exists ids. split; [|exact Hx]. apply filter_In. split; [exact He|].
    cbn [fst]. apply negb_true_iff, str_eqb_neq. congruence.
Qed.

Lemma in_target_tg_override tgt x t i m :
  in_target tgt x (tg_override t i m) <-> (t = tgt /\ x = i) \/ (t <> tgt /\ in_target tgt x m).
Proof. unfold tg_override. rewrite in_target_tg_add, in_target_hm_remove. tauto. Qed.

(* the with-target map after any sequence of method calls on a fresh trace *)
Theorem run_events_targets evs : forall tgt x,
  in_target tgt x (ut_targets (run_events evs ut_empty)) <-> survives tgt x evs.
Proof.
  induction evs as [|e evs IH] using rev_ind; intros tgt x.
  - cbn. split.
    + intros (ids & [] & _).
    + intros (pre & ev & post & Heq & _). destruct pre; discriminate.
  - rewrite run_events_app. change (run_events [e] ?t) with (run_event t e). rewrite survives_snoc.
    destruct e as [i|i|t i|t i|k v]; cbn [run_event ut_rule_insert ut_add_unit_id ut_add_unit_id_with_target
      ut_override_unit_id_with_target ut_add_value_computed_by_unit ut_targets].
    + rewrite IH. split; [intros H; right; split; [exact H|discriminate]|]. intros [[H|H]|[H _]]; [discriminate|discriminate|exact H].
    + rewrite IH. split; [intros H; right; split; [exact H|discriminate]|]. intros [[H|H]|[H _]]; [discriminate|discriminate|exact H].
    + rewrite in_target_tg_add, IH. split.
      * intros [[-> ->]|H]; [left; left; reflexivity|right; split; [exact H|discriminate]].
      * intros [[H|H]|[H _]]; [inversion H; left; split; reflexivity|discriminate|right; exact H].
    + rewrite in_target_tg_override, IH. split.
      * intros [[-> ->]|[Hne H]]; [left; right; reflexivity|right; split; [exact H|]]. intros j Hj. inversion Hj. contradiction.
      * intros [[H|H]|[H Hne]]; [discriminate|inversion H; left; split; reflexivity|].
        right. split; [|exact H]. intros ->. apply (Hne i). reflexivity.
    + rewrite IH. split; [intros H; right; split; [exact H|discriminate]|]. intros [[H|H]|[H _]]; [discriminate|discriminate|exact H].
Qed.

(* ------------------------------------------------------------------ (S) on method-call sequences *)
Theorem squash_sorted evs t : StronglySorted slt (ut_applied (ut_squash (run_events evs t))).
Proof. apply squash_over_sorted. Qed.

Theorem squash_NoDup evs t : NoDup (ut_applied (ut_squash (run_events evs t))).
Proof. apply slt_sorted_NoDup, squash_sorted. Qed.

(* unit_ids_applied after squash: the ids given to add_unit_id, plus for every target the ids given to it since
   (and including) its last override *)
Theorem squash_applied_spec evs x :
  In x (ut_applied (ut_squash (run_events evs ut_empty))) <-> In (EvAdd x) evs \/ exists tgt, survives tgt x evs.
Proof.
  unfold ut_squash. rewrite squash_over_applied, run_events_applied, In_lhs_extend, In_direct_ids, in_flat_targets.
  cbn [ut_applied ut_empty]. split.
  - intros [[H|[]]|(tgt & H)]; [left; exact H|right; exists tgt; apply run_events_targets; exact H].
  - intros [H|(tgt & H)]; [left; left; exact H|right; exists tgt; apply run_events_targets; exact H].
Qed.

(* unit_ids_seen after squash: every id ever passed to add_unit_id / add_unit_id_with_target / override_unit_id_with_target *)
Theorem squash_seen_spec evs x :
  In x (ut_seen (ut_squash (run_events evs ut_empty))) <-> exists e, In e evs /\ ev_unit e = Some x.
Proof.
  unfold ut_squash. rewrite squash_over_seen, run_events_seen, In_lhs_extend, In_unit_ids, in_flat_targets.
  cbn [ut_seen ut_empty]. split.
  - intros [[H|[]]|(tgt & H)]; [exact H|]. apply run_events_targets in H.
    destruct H as (pre & ev & post & -> & Hev & _). exists ev. split; [apply in_or_app; right; left; reflexivity|].
    destruct Hev as [->| ->]; reflexivity.
  - intros H. left. left. exact H.
Qed.

Theorem squash_seen_NoDup evs : NoDup (ut_seen (ut_squash (run_events evs ut_empty))).
Proof.
  unfold ut_squash. rewrite squash_over_eq. cbn [ut_seen]. apply NoDup_lhs_extend. rewrite run_events_seen.
  apply NoDup_lhs_extend. constructor.
Qed.

(* applied ids have been seen *)
Theorem squash_applied_seen evs x :
  In x (ut_applied (ut_squash (run_events evs ut_empty))) -> In x (ut_seen (ut_squash (run_events evs ut_empty))).
Proof.
  rewrite squash_applied_spec, squash_seen_spec. intros [H|(tgt & pre & ev & post & -> & Hev & _)].
  - exists (EvAdd x). split; [exact H|reflexivity].
  - exists ev. split; [apply in_or_app; right; left; reflexivity|]. destruct Hev as [->| ->]; reflexivity.
Qed.

(* ------------------------------------------------------------------ (D) diff *)
Lemma fold_cond_insert (P : str -> bool) other : forall d,
  fold_left (fun d x => if P x then lhs_insert x d else d) other d = lhs_extend (filter P other) d.
Proof.
  induction other as [|x other IH]; intros d; cbn [fold_left filter]; [reflexivity|].
  rewrite IH. destruct (P x); reflexivity.
Qed.

(* diff = the elements of [other] that are not in unit_ids_applied, in order, each kept at its last occurrence *)
Theorem diff_spec t other : ut_diff t other = dedup_last (filter (fun x => negb (mem_str x (ut_applied t))) other).
Proof. unfold ut_diff. rewrite fold_cond_insert. apply lhs_of_list_spec. Qed.

Theorem diff_In t other x : In x (ut_diff t other) <-> In x other /\ ~ In x (ut_applied t).
Proof.
  rewrite diff_spec, In_dedup_last, filter_In. split; intros [H1 H2]; (split; [exact H1|]).
  - intros Hin. apply mem_str_In in Hin. rewrite Hin in H2. discriminate.
  - destruct (mem_str x (ut_applied t)) eqn:E; [apply mem_str_In in E; contradiction|reflexivity].
Qed.

Theorem diff_NoDup t other : NoDup (ut_diff t other).
Proof. rewrite diff_spec. apply NoDup_dedup_last. Qed.

Theorem diff_of_NoDup t other : NoDup other -> ut_diff t other = filter (fun x => negb (mem_str x (ut_applied t))) other.
Proof. intros H. rewrite diff_spec. apply dedup_last_NoDup, NoDup_filter, H. Qed.

Theorem diff_empty_iff t other : ut_diff t other = [] <-> forall x, In x other -> In x (ut_applied t).
Proof.
  split.
  - intros H x Hx. destruct (mem_str x (ut_applied t)) eqn:E; [apply mem_str_In; exact E|]. exfalso.
    assert (Hin : In x (ut_diff t other)).
    { apply diff_In. split; [exact Hx|]. intros Hc. apply mem_str_In in Hc. congruence. }
    rewrite H in Hin. exact Hin.
  - intros H. destruct (ut_diff t other) as [|y l] eqn:E; [reflexivity|]. exfalso.
    assert (Hin : In y (ut_diff t other)) by (rewrite E; left; reflexivity).
    apply diff_In in Hin. destruct Hin as [H1 H2]. apply H2, H, H1.
Qed.
