(* Utf8.v — facts about [utf8_valid] (RIO.HtmlTok): concatenation, and cutting a valid string at an ASCII byte. *)
Require Import RIO.Base RIO.TokMonad RIO.HtmlTok RIO.TokLogic RIO.HtmlTokProofs.
Close Scope N_scope.
Open Scope nat_scope.

Lemma in_range_lo lo hi b : in_range lo hi b = true -> (lo <= b)%N.
Proof. unfold in_range. intros H. apply andb_prop in H. destruct H as [H _]. apply N.leb_le in H. exact H. Qed.

Lemma utf8_app_eq : forall n a b, length a <= n -> utf8_valid a = true -> utf8_valid (a ++ b) = utf8_valid b.
Proof.
  induction n as [|n IH]; intros a b Hn Ha.
  - destruct a; [reflexivity|cbn in Hn; lia].
  - destruct a as [|b0 t0]; [reflexivity|]. cbn [app]. cbn [utf8_valid] in *. cbn [length] in Hn.
    destruct (N.ltb b0 128); [apply IH; [lia|exact Ha]|].
    destruct (in_range 194 223 b0).
    { destruct t0 as [|b1 t1]; [discriminate|]. cbn [app length] in *. apply andb_prop in Ha. destruct Ha as [H1 H2].
      rewrite H1. cbn [andb]. apply IH; [lia|exact H2]. }
    destruct (in_range 224 239 b0).
    { destruct t0 as [|b1 [|b2 t2]]; try discriminate. cbn [app length] in *. apply andb_prop in Ha. destruct Ha as [H1 H2].
      rewrite H1. cbn [andb]. apply IH; [lia|exact H2]. }
    destruct (in_range 240 244 b0); [|discriminate].
    destruct t0 as [|b1 [|b2 [|b3 t3]]]; try discriminate. cbn [app length] in *. apply andb_prop in Ha. destruct Ha as [H1 H2].
    rewrite H1. cbn [andb]. apply IH; [lia|exact H2].
Qed.

Lemma utf8_valid_app a b : utf8_valid a = true -> utf8_valid b = true -> utf8_valid (a ++ b) = true.
Proof. intros Ha Hb. rewrite (utf8_app_eq (length a) a b (le_n _) Ha). exact Hb. Qed.

Lemma utf8_valid_app_r a b : utf8_valid a = true -> utf8_valid (a ++ b) = true -> utf8_valid b = true.
Proof. intros Ha Hab. rewrite (utf8_app_eq (length a) a b (le_n _) Ha) in Hab. exact Hab. Qed.

Lemma utf8_valid_concat l : Forall (fun x => utf8_valid x = true) l -> utf8_valid (concat l) = true.
Proof. induction 1; cbn [concat]; [reflexivity|apply utf8_valid_app; assumption]. Qed.

(* cutting at an ASCII byte *)
Lemma utf8_cut : forall n d p c, length d <= n -> utf8_valid d = true -> nth_error d p = Some c -> (c < 128)%N ->
  utf8_valid (firstn p d) = true /\ utf8_valid (skipn p d) = true.
Proof.
  induction n as [|n IH]; intros d p c Hn Hd Hp Hc.
  - destruct d; [destruct p; discriminate|cbn in Hn; lia].
  - destruct p as [|p]; [split; [reflexivity|exact Hd]|].
    destruct d as [|b0 t0]; [discriminate|]. cbn [length] in Hn. cbn [nth_error] in Hp.
    cbn [firstn skipn]. cbn [utf8_valid] in Hd |- *.
    destruct (N.ltb b0 128); [apply (IH t0 p c); auto; lia|].
    destruct (in_range 194 223 b0).
    { destruct t0 as [|b1 t1]; [discriminate|]. apply andb_prop in Hd. destruct Hd as [H1 H2]. cbn [length] in Hn.
      destruct p as [|p]; cbn [nth_error] in Hp.
      - injection Hp as ->. apply in_range_lo in H1. lia.
      - cbn [firstn skipn]. rewrite H1. cbn [andb]. apply (IH t1 p c); auto; lia. }
    destruct (in_range 224 239 b0).
    { destruct t0 as [|b1 [|b2 t2]]; try discriminate. apply andb_prop in Hd. destruct Hd as [H1 H2].
      apply andb_prop in H1. destruct H1 as [H0 H1]. cbn [length] in Hn.
      destruct p as [|[|p]]; cbn [nth_error] in Hp.
      - injection Hp as ->. exfalso. destruct (is b0 224); [|destruct (is b0 237)]; apply in_range_lo in H0; lia.
      - injection Hp as ->. apply in_range_lo in H1. lia.
      - cbn [firstn skipn]. rewrite H0, H1. cbn [andb]. apply (IH t2 p c); auto; lia. }
    destruct (in_range 240 244 b0); [|discriminate].
    destruct t0 as [|b1 [|b2 [|b3 t3]]]; try discriminate. apply andb_prop in Hd. destruct Hd as [H1 H3].
    apply andb_prop in H1. destruct H1 as [H1 H2]. apply andb_prop in H1. destruct H1 as [H0 H1]. cbn [length] in Hn.
    destruct p as [|[|[|p]]]; cbn [nth_error] in Hp.
    + injection Hp as ->. exfalso. destruct (is b0 240); [|destruct (is b0 244)]; apply in_range_lo in H0; lia.
    + injection Hp as ->. apply in_range_lo in H1. lia.
    + injection Hp as ->. apply in_range_lo in H2. lia.
    + cbn [firstn skipn]. rewrite H0, H1, H2. cbn [andb]. apply (IH t3 p c); auto; lia.
Qed.

(* character boundaries of a string *)
Definition bnd (d : list N) (p : nat) : Prop := utf8_valid (firstn p d) = true /\ utf8_valid (skipn p d) = true.

Lemma bnd_0 d : utf8_valid d = true -> bnd d 0.
Proof. intros H. split; [reflexivity|exact H]. Qed.
Lemma bnd_end d p : utf8_valid d = true -> length d <= p -> bnd d p.
Proof. intros H Hp. split; [rewrite firstn_all2 by exact Hp; exact H|rewrite skipn_all2 by exact Hp; reflexivity]. Qed.
Lemma bnd_at d p c : utf8_valid d = true -> nth_error d p = Some c -> (c < 128)%N -> bnd d p.
Proof. intros H Hp Hc. exact (utf8_cut (length d) d p c (le_n _) H Hp Hc). Qed.

Lemma skipn_nth {A} (d : list A) : forall p c, nth_error d p = Some c -> skipn p d = c :: skipn (S p) d.
Proof.
  induction d as [|x d IH]; intros p c H; [destruct p; discriminate|].
  destruct p as [|p]; cbn in *; [congruence|]. apply IH. exact H.
Qed.
Lemma firstn_S_nth {A} (d : list A) : forall p c, nth_error d p = Some c -> firstn (S p) d = firstn p d ++ [c].
Proof.
  induction d as [|x d IH]; intros p c H; [destruct p; discriminate|].
  destruct p as [|p]; cbn in *; [congruence|]. f_equal. apply IH. exact H.
Qed.

Lemma bnd_after d p c : utf8_valid d = true -> nth_error d p = Some c -> (c < 128)%N -> bnd d (S p).
Proof.
  intros H Hp Hc. destruct (bnd_at d p c H Hp Hc) as [H1 H2]. split.
  - rewrite (firstn_S_nth d p c Hp). apply utf8_valid_app; [exact H1|]. cbn. apply N.ltb_lt in Hc. rewrite Hc. reflexivity.
  - rewrite (skipn_nth d p c Hp) in H2. cbn [utf8_valid] in H2. apply N.ltb_lt in Hc. rewrite Hc in H2. exact H2.
Qed.

Lemma firstn_sub (d : list N) p q : p <= q -> firstn q d = firstn p d ++ sub d p q.
Proof.
  intros H. unfold sub. replace q with (p + (q - p)) at 1 by lia. apply firstn_add.
Qed.

Lemma sub_valid d p q : bnd d p -> bnd d q -> p <= q -> utf8_valid (sub d p q) = true.
Proof.
  intros [Hp _] [Hq _] Hle. rewrite (firstn_sub d p q Hle) in Hq. exact (utf8_valid_app_r _ _ Hp Hq).
Qed.
