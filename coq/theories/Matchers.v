(* Matchers.v — the seven matchers of src/router/request_matcher/ and Router (src/router/mod.rs).
   PathAndQueryMatcher (leaf: static map + regex tree), DateTime / Header / Method / Ip / Scheme as
   instances of RIO.Layer, HostMatcher (static map + unique regex tree of IpMatchers + any_host with the
   always_match_any_host policy), Router (routes map + scheme matcher, cache loop, change sets). *)
Require Import RIO.Base RIO.Route RIO.Layer RIO.Tree RIO.TreeInst.
Close Scope N_scope.
Open Scope nat_scope.

Section Matchers.
Variable lower : str -> str.                         (* String::to_lowercase (header names) *)
Variable eng : bool -> pat -> list N -> bool.        (* the regex engine, as in RIO.Tree *)
Variable valid : bool -> pat -> bool.
(* RouterConfig *)
Variable ic_host : bool.                             (* ignore_host_case *)
Variable ic_path : bool.                             (* ignore_path_and_query_case *)
Variable always_any_host : bool.                     (* always_match_any_host *)

(* --------------------------------------------------------------------- PathAndQueryMatcher *)
Record pathm := {
  p_tree : item route;                               (* RegexTreeMap<Arc<Route>> *)
  p_static : list (str * list (str * route));        (* HashMap<path, HashMap<id, route>> *)
  p_count : nat
}.
Definition p_new : pathm := {| p_tree := Empty ic_path; p_static := []; p_count := 0 |}.

Fixpoint idmap_set (id : str) (r : route) (m : list (str * route)) : list (str * route) :=
  match m with
  | [] => [(id, r)]
  | (id', r') :: m' => if str_eqb id id' then (id, r) :: m' else (id', r') :: idmap_set id r m'
  end.
Fixpoint static_insert (path : str) (r : route) (st : list (str * list (str * route))) :=
  match st with
  | [] => [(path, [(rt_id r, r)])]
  | (p, m) :: st' => if str_eqb path p then (p, idmap_set (rt_id r) r m) :: st' else (p, m) :: static_insert path r st'
  end.

Definition t_insert (t : item route) re id r := Tree.insert route cp_c take_c clen_c t re id r.

Definition p_insert (r : route) (P : pathm) : pathm :=
  match rt_path r with
  | SStatic path => {| p_tree := p_tree P; p_static := static_insert path r (p_static P); p_count := S (p_count P) |}
  | SDynamic re => {| p_tree := t_insert (p_tree P) re (rt_id r) r; p_static := p_static P; p_count := S (p_count P) |}
  end.

Fixpoint idmap_remove (id : str) (m : list (str * route)) : list (str * route) * option route :=
  match m with
  | [] => ([], None)
  | (id', r) :: m' => if str_eqb id id' then (m', Some r) else let '(m'', o) := idmap_remove id m' in ((id', r) :: m'', o)
  end.
(* static_rules.retain(|_, m| { if removed.is_some() { return true } removed = m.remove(id); !m.is_empty() }) *)
Fixpoint static_remove (id : str) (st : list (str * list (str * route))) : list (str * list (str * route)) * option route :=
  match st with
  | [] => ([], None)
  | (p, m) :: st' =>
      let '(m', o) := idmap_remove id m in
      match o with
      | Some r => ((if is_nil m' then st' else (p, m') :: st'), Some r)
      | None => let '(st'', o') := static_remove id st' in ((if is_nil m' then st'' else (p, m') :: st''), o')
      end
  end.

Definition p_remove (id : str) (P : pathm) : pathm * option route :=
  match Tree.remove route (p_tree P) id with
  | (t', Some r) => ({| p_tree := t'; p_static := p_static P; p_count := pred (p_count P) |}, Some r)
  | (t', None) =>
      let '(st', o) := static_remove id (p_static P) in
      ({| p_tree := t'; p_static := st'; p_count := match o with Some _ => pred (p_count P) | None => p_count P end |}, o)
  end.

Definition p_batch_remove (ids : list str) (P : pathm) : pathm :=
  {| p_tree := Tree.retain route (fun id r => if mem_str id ids then None else Some r) (p_tree P);
     p_static := flat_map (fun pm => let m' := filter (fun e => negb (mem_str (fst e) ids)) (snd pm) in
                                     if is_nil m' then [] else [(fst pm, m')]) (p_static P);
     p_count := p_count P |}.

Definition p_match (q : request) (P : pathm) : list route :=
  Tree.find route eng (p_tree P) (q_path q)
  ++ match assoc (q_path q) (p_static P) with Some m => map snd m | None => [] end.

(* path_and_query.rs tree_trace_to_trace *)
Fixpoint path_tree_trace (t : Tree.trace route) : Layer.trace :=
  match t with
  | Tr re count matched children values =>
      Trc matched true count []
          (map path_tree_trace children
           ++ (if is_nil values then [] else [Trc matched true (length values) (if matched then values else []) []]))
  end.
Definition p_trace (q : request) (P : pathm) : list Layer.trace :=
  let tt := path_tree_trace (Tree.trace_of route eng (p_tree P) (q_path q)) in
  let st := match assoc (q_path q) (p_static P) with
            | Some m => [Trc true true (length m) (map snd m) []]
            | None => []
            end in
  [Trc (match tt with Trc m _ _ _ _ => m end) true (match tt with Trc _ _ c _ _ => c end) [] [tt];
   Trc (negb (is_nil st)) true (length (p_static P)) [] st].

Definition p_cache (limit : N) (level : nat) (P : pathm) : pathm * N :=
  let '(t', lft) := Tree.tree_cache route valid (p_tree P) limit (Some level) in
  ({| p_tree := t'; p_static := p_static P; p_count := p_count P |}, lft).

Definition path_ops : mops pathm :=
  {| m_new := p_new; m_insert := p_insert; m_remove := p_remove; m_batch_remove := p_batch_remove;
     m_match := p_match; m_trace := p_trace; m_cache := p_cache; m_len := p_count |}.

(* --------------------------------------------------------------------- condition groups with a per-request memo *)
Section Groups.
Variable C : Type.
Variable c_eqb : C -> C -> bool.
Variable holds : request -> C -> bool.

Fixpoint memo_get (c : C) (memo : list (C * bool)) : option bool :=
  match memo with [] => None | (c', b) :: m' => if c_eqb c c' then Some b else memo_get c m' end.

(* 'group: for condition in conditions { match memo.get(c) { None => { r = eval; memo.insert(c, r); if !r continue 'group }
                                                              Some(r) => if !r continue 'group } } *)
Fixpoint group_sel (q : request) (memo : list (C * bool)) (conds : list C) : bool * list (C * bool) :=
  match conds with
  | [] => (true, memo)
  | c :: cs =>
      match memo_get c memo with
      | None => let r := holds q c in
                if r then group_sel q ((c, r) :: memo) cs else (false, (c, r) :: memo)
      | Some r => if r then group_sel q memo cs else (false, memo)
      end
  end.

(* trace(): every condition of the group is visited; the memo stores the cumulative [matched] and only while [executed] *)
Fixpoint group_sel_trace (q : request) (memo : list (C * bool)) (matched executed : bool) (conds : list C) : bool * list (C * bool) :=
  match conds with
  | [] => (matched, memo)
  | c :: cs =>
      match memo_get c memo with
      | None => let r := holds q c in
                let matched' := matched && r in
                let memo' := if executed then (c, matched') :: memo else memo in
                group_sel_trace q memo' matched' matched' cs
      | Some r => let matched' := matched && r in group_sel_trace q memo matched' matched' cs
      end
  end.
End Groups.

(* --------------------------------------------------------------------- DateTimeMatcher *)
Definition dt_group (r : route) : list dt_cond :=
  (match rt_datetime r with Some rs => [DateTimeRange rs] | None => [] end)
  ++ (match rt_weekdays r with Some ws => [Weekdays ws] | None => [] end)
  ++ (match rt_time r with Some ts => [TimeRange ts] | None => [] end).
Definition dt_keys (r : route) : list (list dt_cond) := match dt_group r with [] => [] | g => [g] end.
Definition dtm := layer (list dt_cond) pathm.
Definition dt_ops : mops dtm :=
  layer_ops (list dt_cond) pathm (set_eqb dt_cond_eqb) path_ops dt_keys (list (dt_cond * bool)) []
            (fun q memo g => group_sel dt_cond dt_cond_eqb dt_cond_holds q memo g)
            (fun q memo g => group_sel_trace dt_cond dt_cond_eqb dt_cond_holds q memo true true g)
            false.

(* --------------------------------------------------------------------- HeaderMatcher *)
Definition hd_keys (r : route) : list (list hcond) :=
  match rt_headers r with
  | [] => []
  | hs => [map (fun h => {| hc_name := lower (hc_name h); hc_cond := hc_cond h |}) hs]
  end.
Definition hdm := layer (list hcond) dtm.
Definition hd_ops : mops hdm :=
  layer_ops (list hcond) dtm (set_eqb hcond_eqb) dt_ops hd_keys (list (hcond * bool)) []
            (fun q memo g => group_sel hcond hcond_eqb (hcond_holds lower (eng false)) q memo g)
            (fun q memo g => group_sel_trace hcond hcond_eqb (hcond_holds lower (eng false)) q memo true true g)
            false.

(* --------------------------------------------------------------------- MethodMatcher *)
Inductive mkey := KMethod (m : str) | KExclude (ms : list str).
Definition mkey_eqb (a b : mkey) : bool :=
  match a, b with
  | KMethod x, KMethod y => str_eqb x y
  | KExclude x, KExclude y => list_eqb str_eqb x y
  | _, _ => false
  end.
(* route.exclude_methods() == Some(true) (repaired code; the pinned tree tested is_some()) *)
Definition mt_keys (r : route) : list mkey :=
  match rt_methods r with
  | None => []
  | Some ms => if is_nil ms then []
               else match rt_exclude_methods r with
                    | Some true => [KExclude ms]
                    | _ => map KMethod ms
                    end
  end.
Definition mt_sel (q : request) (u : unit) (k : mkey) : bool * unit :=
  (match k with KMethod m => str_eqb m (req_method q) | KExclude ms => negb (mem_str (req_method q) ms) end, tt).
Definition mtm := layer mkey hdm.
Definition mt_ops : mops mtm := layer_ops mkey hdm mkey_eqb hd_ops mt_keys unit tt mt_sel mt_sel false.

(* --------------------------------------------------------------------- IpMatcher *)
Definition ip_keys (r : route) : list route_ip := match rt_ips r with Some ips => ips | None => [] end.
Definition ip_sel (q : request) (u : unit) (k : route_ip) : bool * unit :=
  (match q_addr q with Some a => match_ip k a | None => false end, tt).
Definition ipm := layer route_ip mtm.
(* dedupe = true: a route stored under several ranges is returned once (repaired code) *)
Definition ip_ops : mops ipm := layer_ops route_ip mtm route_ip_eqb mt_ops ip_keys unit tt ip_sel ip_sel true.

(* --------------------------------------------------------------------- HostMatcher *)
Record hostm := {
  h_static : list (str * ipm);
  h_tree : item ipm;                 (* UniqueRegexTreeMap<IpMatcher>: id = regex *)
  h_any : ipm;
  h_count : nat
}.
Definition h_new : hostm := {| h_static := []; h_tree := Empty ic_host; h_any := m_new ip_ops; h_count := 0 |}.

Fixpoint hstatic_insert (host : str) (r : route) (st : list (str * ipm)) : list (str * ipm) :=
  match st with
  | [] => [(host, m_insert ip_ops r (m_new ip_ops))]
  | (h, m) :: st' => if str_eqb host h then (h, m_insert ip_ops r m) :: st' else (h, m) :: hstatic_insert host r st'
  end.

Definition h_insert (r : route) (H : hostm) : hostm :=
  let c := S (h_count H) in
  match rt_host r with
  | None => {| h_static := h_static H; h_tree := h_tree H; h_any := m_insert ip_ops r (h_any H); h_count := c |}
  | Some (SStatic host) =>
      if is_nil host then {| h_static := h_static H; h_tree := h_tree H; h_any := m_insert ip_ops r (h_any H); h_count := c |}
      else {| h_static := hstatic_insert host r (h_static H); h_tree := h_tree H; h_any := h_any H; h_count := c |}
  | Some (SDynamic re) =>
      let t' := match Tree.get ipm (h_tree H) re with
                | [] => Tree.insert ipm cp_c take_c clen_c (h_tree H) re re (m_insert ip_ops r (m_new ip_ops))
                | _ => Tree.update_at ipm (h_tree H) re (fun m => m_insert ip_ops r m)
                end in
      {| h_static := h_static H; h_tree := t'; h_any := h_any H; h_count := c |}
  end.

Fixpoint hstatic_remove (id : str) (st : list (str * ipm)) : list (str * ipm) * option route :=
  match st with
  | [] => ([], None)
  | (h, m) :: st' =>
      let '(m', r) := m_remove ip_ops id m in
      let '(st'', r') := hstatic_remove id st' in
      (if m_is_empty ip_ops m' then st'' else (h, m') :: st'', match r' with Some v => Some v | None => r end)
  end.

(* the regex tree of matchers: retain(&|_, m| { if let Some(v) = m.remove(id) { removed.replace(Some(v)) } !m.is_empty() })
   (repaired code: the pinned tree dropped the value).  The removed route is read off the tree before the retain. *)
Definition tree_removed (id : str) (t : item ipm) : option route :=
  fold_left (fun acc m => match snd (m_remove ip_ops id m) with Some v => Some v | None => acc end) (Tree.all_values ipm t) None.

Definition h_remove (id : str) (H : hostm) : hostm * option route :=
  let '(a', r) := m_remove ip_ops id (h_any H) in
  match r with
  | Some v => ({| h_static := h_static H; h_tree := h_tree H; h_any := a'; h_count := pred (h_count H) |}, Some v)
  | None =>
      let '(st', r1) := hstatic_remove id (h_static H) in
      let r2 := tree_removed id (h_tree H) in
      let t' := Tree.retain ipm (fun _ m => let m' := fst (m_remove ip_ops id m) in
                                            if m_is_empty ip_ops m' then None else Some m') (h_tree H) in
      let removed := match r1 with Some v => Some v | None => r2 end in
      ({| h_static := st'; h_tree := t'; h_any := a';
          h_count := match removed with Some _ => pred (h_count H) | None => h_count H end |}, removed)
  end.

Definition h_batch_remove (ids : list str) (H : hostm) : hostm :=
  {| h_static := flat_map (fun hm => let m' := m_batch_remove ip_ops ids (snd hm) in
                                     if m_is_empty ip_ops m' then [] else [(fst hm, m')]) (h_static H);
     h_tree := Tree.retain ipm (fun _ m => let m' := m_batch_remove ip_ops ids m in
                                           if m_is_empty ip_ops m' then None else Some m') (h_tree H);
     h_any := m_batch_remove ip_ops ids (h_any H);
     h_count := h_count H |}.

Definition h_match (q : request) (H : hostm) : list route :=
  let specific :=
    match q_host q with
    | Some host =>
        flat_map (fun m => m_match ip_ops q m) (Tree.find ipm eng (h_tree H) host)
        ++ match assoc host (h_static H) with Some m => m_match ip_ops q m | None => [] end
    | None => []
    end in
  if always_any_host || is_nil specific then specific ++ m_match ip_ops q (h_any H) else specific.

(* host.rs tree_trace_to_trace *)
Fixpoint host_tree_trace (q : request) (t : Tree.trace ipm) : Layer.trace :=
  match t with
  | Tr re count matched children values =>
      Trc matched true count []
          (map (host_tree_trace q) children
           ++ (if matched then flat_map (fun m => m_trace ip_ops q m) values else []))
  end.
Definition h_trace (q : request) (H : hostm) : list Layer.trace :=
  let statics :=
    map (fun hm => match q_host q with
                   | Some host => if str_eqb (fst hm) host
                                  then Trc true true (m_len ip_ops (snd hm)) [] (m_trace ip_ops q (snd hm))
                                  else Trc false false (m_len ip_ops (snd hm)) [] []
                   | None => Trc false false (m_len ip_ops (snd hm)) [] []
                   end) (h_static H) in
  let regex :=
    match q_host q with
    | Some host =>
        let tt := host_tree_trace q (Tree.trace_of ipm eng (h_tree H) host) in
        Trc (match tt with Trc m _ _ _ _ => m end) true (match tt with Trc _ _ c _ _ => c end) [] [tt]
        :: (match assoc host (h_static H) with Some _ => [] | None => [Trc true false 0 [] []] end)
    | None => []
    end in
  let specific := statics ++ regex in
  if always_any_host || is_nil (traces_routes specific) then specific ++ m_trace ip_ops q (h_any H) else specific.

Fixpoint hstatic_cache (limit : N) (level : nat) (st : list (str * ipm)) : list (str * ipm) * N :=
  match st with
  | [] => ([], limit)
  | (h, m) :: st' => let '(m', l1) := m_cache ip_ops limit level m in
                     let '(st'', l2) := hstatic_cache l1 level st' in ((h, m') :: st'', l2)
  end.
Definition h_cache (limit : N) (level : nat) (H : hostm) : hostm * N :=
  let '(t1, l1) := Tree.tree_cache ipm valid (h_tree H) limit (Some level) in
  let '(st', l2) := hstatic_cache l1 level (h_static H) in
  let '(t2, l3) := Tree.map_acc ipm (fun m l => m_cache ip_ops l level m) t1 l2 in
  let '(a', l4) := m_cache ip_ops l3 level (h_any H) in
  ({| h_static := st'; h_tree := t2; h_any := a'; h_count := h_count H |}, l4).

Definition host_ops : mops hostm :=
  {| m_new := h_new; m_insert := h_insert; m_remove := h_remove; m_batch_remove := h_batch_remove;
     m_match := h_match; m_trace := h_trace; m_cache := h_cache; m_len := h_count |}.

(* --------------------------------------------------------------------- SchemeMatcher *)
Definition sc_keys (r : route) : list str :=
  match rt_scheme r with Some s => if is_nil s then [] else [s] | None => [] end.
Definition sc_sel (q : request) (u : unit) (k : str) : bool * unit :=
  (match q_scheme q with Some s => str_eqb k s | None => false end, tt).
Definition sc_sel_t (q : request) (u : unit) (k : str) : bool * unit :=
  (match q_scheme q with Some s => str_eqb k s && negb (is_nil s) | None => false end, tt).
Definition scm := layer str hostm.
Definition sc_ops : mops scm := layer_ops str hostm str_eqb host_ops sc_keys unit tt sc_sel sc_sel_t false.

(* --------------------------------------------------------------------- Router *)
Record router := { r_matcher : scm; r_routes : list (str * route) }.
Definition router_new : router := {| r_matcher := m_new sc_ops; r_routes := [] |}.

Fixpoint routes_set (id : str) (r : route) (m : list (str * route)) : list (str * route) :=
  match m with
  | [] => [(id, r)]
  | (id', r') :: m' => if str_eqb id id' then (id, r) :: m' else (id', r') :: routes_set id r m'
  end.

(* Router::insert_route *)
Definition router_insert (r : route) (R : router) : router :=
  {| r_matcher := m_insert sc_ops r (r_matcher R); r_routes := routes_set (rt_id r) r (r_routes R) |}.

(* Router::remove *)
Definition router_remove (id : str) (R : router) : router * option route :=
  match assoc id (r_routes R) with
  | Some _ =>
      let '(m', o) := m_remove sc_ops id (r_matcher R) in
      ({| r_matcher := m'; r_routes := filter (fun e => negb (str_eqb (fst e) id)) (r_routes R) |}, o)
  | None => (R, None)
  end.

(* Router::batch_remove *)
Definition router_batch_remove (ids : list str) (R : router) : router :=
  {| r_matcher := m_batch_remove sc_ops ids (r_matcher R);
     r_routes := filter (fun e => negb (mem_str (fst e) ids)) (r_routes R) |}.

(* Router::apply_change_set(added, updated, removed): removed ∪ ids(updated) are batch-removed, then updated, then added *)
Definition router_apply_change_set (added updated : list route) (removed : list str) (R : router) : router :=
  let R1 := router_batch_remove (removed ++ map rt_id updated) R in
  let R2 := fold_left (fun R r => router_insert r R) updated R1 in
  fold_left (fun R r => router_insert r R) added R2.

Definition router_match (q : request) (R : router) : list route := m_match sc_ops q (r_matcher R).
Definition router_len (R : router) : nat := length (r_routes R).
Definition router_trace (q : request) (R : router) : list Layer.trace := m_trace sc_ops q (r_matcher R).

(* Router::cache: the matcher loop; Route::compile of the remaining budget does not affect matching
   (it only pre-compiles the capture regexes) and is not modelled *)
Fixpoint router_cache_loop (fuel : nat) (m : scm) (prev : N) (level retry : nat) : scm :=
  match fuel with
  | O => m
  | S f =>
      if N.eqb prev 0 then m
      else let '(m', next) := m_cache sc_ops prev level m in
           let retry' := if N.eqb next prev then S retry else retry in
           if N.eqb next prev && Nat.ltb 5 retry' then m'
           else router_cache_loop f m' next (S level) retry'
  end.
Definition router_cache (limit : option N) (R : router) : router :=
  let prev := match limit with
              | Some l => l
              | None => N.max 100 (N.min 10000 (N.of_nat (length (r_routes R) / 10)))
              end in
  {| r_matcher := router_cache_loop (N.to_nat (N.min prev 100000) + 8) (r_matcher R) prev 0 0; r_routes := r_routes R |}.

(* Router::get_route: routes.sort_by_key(|b| Reverse(b.priority())); first — a stable sort, so the first route
   in match order among those of maximal priority *)
Definition best_route (l : list route) : option route :=
  fold_left (fun acc r => match acc with
                          | None => Some r
                          | Some b => if Z.ltb (rt_priority b) (rt_priority r) then Some r else Some b
                          end) l None.
Definition router_get_route (q : request) (R : router) : option route := best_route (router_match q R).
End Matchers.
