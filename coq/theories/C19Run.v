(* C19Run.v — executable verdicts for C19.  The four analyses are compared between their two entry-point families by
   the harness (projection named by the property); the redirect chain reported by the crate is compared with the loop
   model of RIO.Analyses run on the one-hop table (obtained from the crate itself with max_hops = 1). *)
Require Import RIO.Base RIO.Analyses RIO.Headers RIO.BodyText RIO.ActionModel RIO.Pipeline RIO.C05Run RIO.UnitTrace RIO.C19UnitsRun.
Open Scope N_scope.

(* one response reported by an analysis (explain for the example of the case, impact for each example of the analysed
   rule), with the rules the router matched for that example (as Action::from_routes_rule receives them, translated to
   the rule record of RIO.ActionModel; HTML body filters are dropped and the body is then not compared) *)
Record pipe19 := {
  p_rules : list rule; p_skipped : option str; p_code : option N;     (* example.response_status_code *)
  p_lower : list (str * str); p_body_cmp : bool;
  p_status : N; p_backend : N; p_headers : list header; p_body : str; p_log : bool
}.

(* one example of the unit-ids analysis (src/api/unit_ids.rs): the rules the router matched with their unit fields, and
   the unit_ids_applied the crate stored on the example *)
Record uunit19 := {
  uu_rules : list urule; uu_skipped : option str; uu_code : option N; uu_lower : list (str * str); uu_out : list str
}.
Definition unit_ids_ok (table : list (str * hkind)) (skeleton : str) (p : uunit19) : bool :=
  list_eqb str_eqb (t_unit_ids (lower_of (uu_lower p)) table (uu_rules p) (uu_skipped p) None (uu_code p) skeleton) (uu_out p).

(* one FAILED example reported by the test-examples analysis (src/api/test_examples.rs): the matched rules with their unit
   fields, the example's expected unit ids and the id of the rule under test, and what the crate reported: rule ids applied,
   unit ids applied, unit ids not applied any more; [ut_loop]: the failure was reported for its redirect chain (then the
   must-match verdict itself was "pass") *)
Record utest19 := {
  ut_rules19 : list urule; ut_skipped : option str; ut_code : option N; ut_lower : list (str * str);
  ut_expected : list str; ut_id : str; ut_must_match : bool; ut_loop : bool;
  ut_out_rules : list str; ut_out_units : list str; ut_out_gone : list str
}.
Definition test_example_ok (table : list (str * hkind)) (skeleton : str) (p : utest19) : bool :=
  let '(t, gone, contains) := t_test_example (lower_of (ut_lower p)) table (ut_rules19 p) (ut_skipped p) None (ut_code p) skeleton (ut_expected p) (ut_id p) in
  let fails := if ut_must_match p then negb (is_nil gone) || negb contains else contains in
  list_eqb str_eqb (ut_get_rule_ids_applied t) (ut_out_rules p) && list_eqb str_eqb (ut_get_unit_ids_applied t) (ut_out_units p)
  && list_eqb str_eqb gone (ut_out_gone p) && Bool.eqb fails (negb (ut_loop p)).

(* the model of the analysis (RIO.Pipeline.analysis_of_rules) reproduces the reported response *)
Definition pipe_ok (table : list (str * hkind)) (skeleton : str) (p : pipe19) : bool :=
  let r := analysis_of_rules (lower_of (p_lower p)) table (p_rules p) (p_skipped p) None (p_code p) skeleton in
  N.eqb (rs_status r) (p_status p) && N.eqb (rs_backend r) (p_backend p) && headers_eqb (rs_headers r) (p_headers p)
  && (negb (p_body_cmp p) || str_eqb (rs_body r) (p_body p)) && Bool.eqb (rs_log r) (p_log p).

Record case19 := {
  k_tests_same : bool;      (* TestExamplesOutput: from_project = create_result_without_project *)
  k_units_same : bool;      (* UnitIdsOutput *)
  k_explain_same : bool;    (* ExplainRequestOutput *)
  k_impact_same : bool;     (* ImpactOutput *)
  k_pipeline_same : bool;   (* response reported by explain = the live pipeline replayed by the harness on a rebuilt router *)
  k_pipes : list pipe19;    (* the reported responses with the matched rules, for the pipeline model *)
  k_upipes : list upipe19;  (* the reported unit traces with the matched rules and their unit fields (RIO.C19UnitsRun) *)
  k_uunits : list uunit19;  (* the unit ids the unit-ids analysis stores on each example of each rule *)
  k_utests : list utest19;  (* the failed examples the test-examples analysis reports *)
  k_has_chain : bool;
  k_max : N;                (* max_hops *)
  k_table : list (N * option (N * N) * bool * bool);   (* node, one hop (target, status), target outside the project domains, self loop *)
  o_hops : list (N * N);    (* crate: hops as (node, status) *)
  o_err : N                 (* 0 none, 1 AtLeastOneHop, 2 TooManyHops, 3 Loop *)
}.

Definition tbl_step (t : list (N * option (N * N) * bool * bool)) (n : N) : option (N * N) :=
  match find (fun e => N.eqb (fst (fst (fst e))) n) t with Some (_, st, _, _) => st | None => None end.
Definition tbl_external (t : list (N * option (N * N) * bool * bool)) (n : N) : bool :=
  existsb (fun e => match e with (_, Some (m, _), ext, _) => N.eqb m n && ext | _ => false end) t.

Definition err_code (e : option lerr) : N := match e with None => 0 | Some AtLeastOneHop => 1 | Some TooManyHops => 2 | Some Loop => 3 end.

Fixpoint hops_eqb (a b : list (N * N)) : bool :=
  match a, b with [] , [] => true | (x, c) :: a', (y, d) :: b' => N.eqb x y && N.eqb c d && hops_eqb a' b' | _, _ => false end.

Fixpoint has_dup (l : list N) : bool := match l with [] => false | x :: l' => existsb (N.eqb x) l' || has_dup l' end.

Definition model_chain (c : case19) : list (N * N) * option lerr :=
  compute N N.eqb (tbl_step (k_table c)) (tbl_external (k_table c)) (N.to_nat (k_max c)) 0.

(* the reported hops follow the one-hop function (computed independently by the harness): each hop is the step of its predecessor *)
Fixpoint hops_follow (t : list (N * option (N * N) * bool * bool)) (cur : N) (hs : list (N * N)) : bool :=
  match hs with
  | [] => true
  | (n, code) :: rest => match tbl_step t cur with
                         | Some (m, d) => N.eqb m n && N.eqb d code && hops_follow t n rest
                         | None => false
                         end
  end.

(* the clause of the property about chains, on the crate's output: within the limit, a loop is reported exactly when a
   (url, method) pair repeats, and the hops are the real chain of the example *)
Definition chain_ok (c : case19) : bool :=
  N.leb (N.of_nat (length (o_hops c))) (k_max c + 1)
  && Bool.eqb (N.eqb (o_err c) 3) (has_dup (map fst (o_hops c)))
  && match o_hops c with
     | (n0, _) :: rest => N.eqb n0 0 && hops_follow (k_table c) 0 rest
     | [] => false
     end.

Definition verdict19 (table : list (str * hkind)) (skeleton : str) (c : case19) : N :=
  (vbit ((negb (k_has_chain c) || (let '(h, e) := model_chain c in hops_eqb h (o_hops c) && N.eqb (err_code e) (o_err c)))
         && forallb (pipe_ok table skeleton) (k_pipes c) && forallb (unit_trace_ok table skeleton) (k_upipes c)
         && forallb (unit_ids_ok table skeleton) (k_uunits c) && forallb (test_example_ok table skeleton) (k_utests c)) 1
   + vbit (k_tests_same c && k_units_same c && k_explain_same c && k_impact_same c && k_pipeline_same c && (negb (k_has_chain c) || chain_ok c)) 4)%N.

Definition spec_verdict19 (c : case19) : N :=
  vbit (k_tests_same c && k_units_same c && k_explain_same c && k_impact_same c && k_pipeline_same c && (negb (k_has_chain c) || chain_ok c)) 4.
