(* PctProofs.v — lemmas about RIO.Pct: hexadecimal digits, percent_encode / percent_decode, splitting,
   the bytewise string order and the BTreeMap model.  Used by RIO.UrlProofs (C09). *)
Require Import RIO.Base RIO.Pct.
Open Scope N_scope.

(* ------------------------------------------------------------------------------------------------ *)
(* generalities *)

Definition byte_ok (b : N) : bool := N.ltb b 256.
Definition bytes_ok (x : str) : bool := forallb byte_ok x.

Lemma bytes_ok_app a b : bytes_ok (a ++ b) = bytes_ok a && bytes_ok b.
Proof. apply forallb_app. Qed.

Lemma bytes_ok_cons b x : bytes_ok (b :: x) = byte_ok b && bytes_ok x.
Proof. reflexivity. Qed.

Lemma is_nil_app {A} (a b : list A) : is_nil (a ++ b) = is_nil a && is_nil b.
Proof. destruct a; reflexivity. Qed.

Lemma is_nil_true {A} (a : list A) : is_nil a = true <-> a = [].
Proof. destruct a; simpl; split; congruence. Qed.

Lemma is_nil_false {A} (a : list A) : is_nil a = false <-> a <> [].
Proof. destruct a; simpl; split; congruence. Qed.

Lemma is_nil_map {A B} (f : A -> B) (a : list A) : is_nil (map f a) = is_nil a.
Proof. destruct a; reflexivity. Qed.

Lemma memN_app x a b : memN x (a ++ b) = memN x a || memN x b.
Proof. unfold memN. apply existsb_app. Qed.

Lemma memN_cons x y l : memN x (y :: l) = N.eqb x y || memN x l.
Proof. reflexivity. Qed.

(* ------------------------------------------------------------------------------------------------ *)
(* hexadecimal digits *)

Definition is_hex (c : N) : bool := match to_digit16 c with Some _ => true | None => false end.

Lemma hex_upper_cases n : n < 16 ->
  (n < 10 /\ hex_upper n = 48 + n) \/ (10 <= n /\ hex_upper n = 55 + n).
Proof. intros H. unfold hex_upper. destruct (N.ltb_spec n 10); [left|right]; split; auto. Qed.

Lemma to_digit16_hex_upper n : n < 16 -> to_digit16 (hex_upper n) = Some n.
Proof.
  intros H. destruct (hex_upper_cases n H) as [[H1 E]|[H1 E]]; rewrite E; unfold to_digit16, in_range.
  - replace (N.leb 48 (48 + n) && N.leb (48 + n) 57) with true by lia. f_equal. lia.
  - replace (N.leb 48 (55 + n) && N.leb (55 + n) 57) with false by lia.
    replace (N.leb 97 (55 + n) && N.leb (55 + n) 102) with false by lia.
    replace (N.leb 65 (55 + n) && N.leb (55 + n) 70) with true by lia. f_equal. lia.
Qed.

Lemma hex_upper_range n : n < 16 -> (48 <= hex_upper n <= 57) \/ (65 <= hex_upper n <= 70).
Proof. intros H. destruct (hex_upper_cases n H) as [[H1 E]|[H1 E]]; rewrite E; lia. Qed.

Lemma to_digit16_range c v : to_digit16 c = Some v ->
  v < 16 /\ ((48 <= c <= 57) \/ (97 <= c <= 102) \/ (65 <= c <= 70)).
Proof.
  unfold to_digit16, in_range. intros H.
  destruct (N.leb 48 c && N.leb c 57) eqn:E1; [inversion H; subst; lia|].
  destruct (N.leb 97 c && N.leb c 102) eqn:E2; [inversion H; subst; lia|].
  destruct (N.leb 65 c && N.leb c 70) eqn:E3; [inversion H; subst; lia|discriminate].
Qed.

Lemma to_digit16_none c : ~ ((48 <= c <= 57) \/ (97 <= c <= 102) \/ (65 <= c <= 70)) -> to_digit16 c = None.
Proof.
  intros H. destruct (to_digit16 c) eqn:E; [|reflexivity]. apply to_digit16_range in E. tauto.
Qed.

Lemma to_digit16_percent : to_digit16 c_percent = None.
Proof. reflexivity. Qed.

(* a set leaves '%' and all hexadecimal digits (both cases) alone *)
Definition keeps_escapes (s : ascii_set) : Prop :=
  s c_percent = false /\ forall c, is_hex c = true -> s c = false.

Lemma is_hex_ascii c : is_hex c = true -> is_ascii c = true.
Proof.
  unfold is_hex. destruct (to_digit16 c) eqn:E; [|discriminate]. intros _.
  apply to_digit16_range in E. unfold is_ascii. lia.
Qed.

Lemma is_hex_hex_upper n : n < 16 -> is_hex (hex_upper n) = true.
Proof. intros H. unfold is_hex. rewrite to_digit16_hex_upper by exact H. reflexivity. Qed.

Lemma keeps_escapes_spe s c : keeps_escapes s -> is_hex c = true -> should_percent_encode s c = false.
Proof.
  intros [_ H] Hc. unfold should_percent_encode. rewrite (is_hex_ascii c Hc), (H c Hc). reflexivity.
Qed.

Lemma keeps_escapes_spe_percent s : keeps_escapes s -> should_percent_encode s c_percent = false.
Proof. intros [H _]. unfold should_percent_encode. rewrite H. reflexivity. Qed.

Lemma spe_not_hex s c : keeps_escapes s -> should_percent_encode s c = true -> to_digit16 c = None.
Proof.
  intros K H. destruct (to_digit16 c) eqn:E; [|reflexivity].
  assert (Hh : is_hex c = true) by (unfold is_hex; rewrite E; reflexivity).
  rewrite (keeps_escapes_spe s c K Hh) in H. discriminate.
Qed.

Lemma spe_not_percent s c : keeps_escapes s -> should_percent_encode s c = true -> c <> c_percent.
Proof. intros K H E. subst. rewrite (keeps_escapes_spe_percent s K) in H. discriminate. Qed.

Lemma byte_hi_lo b : byte_ok b = true -> b / 16 < 16 /\ b mod 16 < 16 /\ (b / 16) * 16 + b mod 16 = b.
Proof. unfold byte_ok. intros H. lia. Qed.

(* ------------------------------------------------------------------------------------------------ *)
(* percent_encode *)

Lemma percent_encode_app s a b : percent_encode s (a ++ b) = percent_encode s a ++ percent_encode s b.
Proof.
  induction a as [|x a IH]; [reflexivity|]. cbn [app percent_encode]. rewrite IH.
  destruct (should_percent_encode s x); [rewrite app_assoc|]; reflexivity.
Qed.

Lemma percent_encode_cons_keep s b r : should_percent_encode s b = false ->
  percent_encode s (b :: r) = b :: percent_encode s r.
Proof. intros H. cbn [percent_encode]. rewrite H. reflexivity. Qed.

Lemma percent_encode_cons_enc s b r : should_percent_encode s b = true ->
  percent_encode s (b :: r) = c_percent :: hex_upper (b / 16) :: hex_upper (b mod 16) :: percent_encode s r.
Proof. intros H. cbn [percent_encode]. rewrite H. reflexivity. Qed.

Lemma is_nil_percent_encode s x : is_nil (percent_encode s x) = is_nil x.
Proof. destruct x as [|b r]; [reflexivity|]. cbn [percent_encode]. destruct (should_percent_encode s b); reflexivity. Qed.

(* every byte written by percent_encode is one the set leaves alone *)
Lemma percent_encode_out s x c : keeps_escapes s -> bytes_ok x = true ->
  In c (percent_encode s x) -> should_percent_encode s c = false /\ byte_ok c = true.
Proof.
  intros K. induction x as [|b r IH]; intros Hx Hin; [destruct Hin|].
  rewrite bytes_ok_cons in Hx. apply andb_prop in Hx. destruct Hx as [Hb Hr].
  destruct (should_percent_encode s b) eqn:E.
  - rewrite percent_encode_cons_enc in Hin by exact E.
    destruct (byte_hi_lo b Hb) as (H1 & H2 & _).
    destruct Hin as [<-|[<-|[<-|Hin]]]; [| | |apply IH; assumption].
    + split; [apply keeps_escapes_spe_percent; exact K|reflexivity].
    + split; [apply keeps_escapes_spe; [exact K|apply is_hex_hex_upper; exact H1]|].
      unfold byte_ok. pose proof (hex_upper_range _ H1). lia.
    + split; [apply keeps_escapes_spe; [exact K|apply is_hex_hex_upper; exact H2]|].
      unfold byte_ok. pose proof (hex_upper_range _ H2). lia.
  - rewrite percent_encode_cons_keep in Hin by exact E. destruct Hin as [<-|Hin]; [split; assumption|apply IH; assumption].
Qed.

Lemma percent_encode_bytes_ok s x : keeps_escapes s -> bytes_ok x = true -> bytes_ok (percent_encode s x) = true.
Proof.
  intros K Hx. apply forallb_forall. intros c Hc. apply (percent_encode_out s x c K Hx Hc).
Qed.

Lemma percent_encode_ascii s x : keeps_escapes s -> bytes_ok x = true -> all_ascii (percent_encode s x) = true.
Proof.
  intros K Hx. apply forallb_forall. intros c Hc. destruct (percent_encode_out s x c K Hx Hc) as [H _].
  unfold should_percent_encode in H. destruct (is_ascii c); [reflexivity|discriminate].
Qed.

(* a byte the set leaves alone occurs in the output iff it occurs in the input, provided it is not '%' or a digit
   that the escapes are made of *)
Lemma percent_encode_mem s x d : keeps_escapes s -> bytes_ok x = true ->
  d <> c_percent -> is_hex d = false ->
  memN d (percent_encode s x) = memN d x && negb (should_percent_encode s d).
Proof.
  intros K Hx Hd Hh. induction x as [|b r IH]; [reflexivity|].
  rewrite bytes_ok_cons in Hx. apply andb_prop in Hx. destruct Hx as [Hb Hr]. specialize (IH Hr).
  destruct (should_percent_encode s b) eqn:E.
  - rewrite percent_encode_cons_enc by exact E. rewrite !memN_cons, IH.
    destruct (byte_hi_lo b Hb) as (H1 & H2 & _).
    assert (N.eqb d c_percent = false) as -> by lia.
    assert (N.eqb d (hex_upper (b / 16)) = false) as ->.
    { apply N.eqb_neq. intros ->. rewrite is_hex_hex_upper in Hh by exact H1. discriminate. }
    assert (N.eqb d (hex_upper (b mod 16)) = false) as ->.
    { apply N.eqb_neq. intros ->. rewrite is_hex_hex_upper in Hh by exact H2. discriminate. }
    destruct (N.eqb_spec d b) as [->|]; [rewrite E, andb_false_r|]; reflexivity.
  - rewrite percent_encode_cons_keep by exact E. rewrite !memN_cons, IH.
    destruct (N.eqb_spec d b) as [->|]; [rewrite E|]; reflexivity.
Qed.

(* T2 / L4: a second pass with a larger set that keeps escapes intact adds exactly what one pass with the larger
   set does *)
Lemma percent_encode_absorb s s' x :
  (forall b, should_percent_encode s b = true -> should_percent_encode s' b = true) ->
  keeps_escapes s' -> bytes_ok x = true ->
  percent_encode s' (percent_encode s x) = percent_encode s' x.
Proof.
  intros Hsub K. induction x as [|b r IH]; intros Hx; [reflexivity|].
  rewrite bytes_ok_cons in Hx. apply andb_prop in Hx. destruct Hx as [Hb Hr]. specialize (IH Hr).
  destruct (byte_hi_lo b Hb) as (H1 & H2 & _).
  destruct (should_percent_encode s b) eqn:E.
  - rewrite percent_encode_cons_enc by exact E.
    rewrite percent_encode_cons_keep by (apply keeps_escapes_spe_percent; exact K).
    rewrite percent_encode_cons_keep by (apply keeps_escapes_spe; [exact K|apply is_hex_hex_upper; exact H1]).
    rewrite percent_encode_cons_keep by (apply keeps_escapes_spe; [exact K|apply is_hex_hex_upper; exact H2]).
    rewrite IH. rewrite percent_encode_cons_enc by (apply Hsub; exact E). reflexivity.
  - rewrite percent_encode_cons_keep by exact E. cbn [percent_encode]. rewrite IH. reflexivity.
Qed.

Lemma percent_encode_idem s x : keeps_escapes s -> bytes_ok x = true ->
  percent_encode s (percent_encode s x) = percent_encode s x.
Proof. intros K Hx. apply percent_encode_absorb; auto. Qed.

(* ------------------------------------------------------------------------------------------------ *)
(* percent_decode *)

(* what follows a '%': Some (byte, rest) when two hexadecimal digits follow *)
Definition esc (l : str) : option (N * str) :=
  match l with
  | h :: lo :: r' =>
      match to_digit16 h, to_digit16 lo with
      | Some x, Some y => Some (x * 16 + y, r')
      | _, _ => None
      end
  | _ => None
  end.

Lemma pd_unfold l : percent_decode l =
  match l with
  | [] => []
  | b :: r =>
      if N.eqb b c_percent then
        match r with
        | h :: lo :: r' =>
            match to_digit16 h, to_digit16 lo with
            | Some x, Some y => (x * 16 + y) :: percent_decode r'
            | _, _ => b :: percent_decode r
            end
        | _ => b :: percent_decode r
        end
      else b :: percent_decode r
  end.
Proof. destruct l; reflexivity. Qed.

Lemma pd_percent l : percent_decode (c_percent :: l) =
  match esc l with Some (v, r') => v :: percent_decode r' | None => c_percent :: percent_decode l end.
Proof.
  rewrite (pd_unfold (c_percent :: l)). cbv beta iota. rewrite N.eqb_refl. unfold esc.
  destruct l as [|h [|lo r']]; try reflexivity.
  destruct (to_digit16 h); [|reflexivity]. destruct (to_digit16 lo); reflexivity.
Qed.

Lemma pd_cons b r : b <> c_percent -> percent_decode (b :: r) = b :: percent_decode r.
Proof.
  intros H. rewrite (pd_unfold (b :: r)). cbv beta iota.
  replace (N.eqb b c_percent) with false by lia. reflexivity.
Qed.

Lemma pd_nil : percent_decode [] = [].
Proof. reflexivity. Qed.

Lemma esc_cons_none1 h l : to_digit16 h = None -> esc (h :: l) = None.
Proof. intros H. unfold esc. destruct l; [reflexivity|]. rewrite H. reflexivity. Qed.

Lemma esc_cons_none2 h lo l : to_digit16 lo = None -> esc (h :: lo :: l) = None.
Proof. intros H. unfold esc. rewrite H. destruct (to_digit16 h); reflexivity. Qed.

Lemma esc_some h lo l a c : to_digit16 h = Some a -> to_digit16 lo = Some c -> esc (h :: lo :: l) = Some (a * 16 + c, l).
Proof. intros H1 H2. unfold esc. rewrite H1, H2. reflexivity. Qed.

(* replace_plus, bytewise *)
Definition rpb (b : N) : N := if N.eqb b c_plus then c_space else b.

Lemma replace_plus_cons b r : replace_plus (b :: r) = rpb b :: replace_plus r.
Proof. reflexivity. Qed.

Lemma replace_plus_app a b : replace_plus (a ++ b) = replace_plus a ++ replace_plus b.
Proof. unfold replace_plus. apply map_app. Qed.

Lemma rpb_id b : b <> c_plus -> rpb b = b.
Proof. intros H. unfold rpb. replace (N.eqb b c_plus) with false by lia. reflexivity. Qed.

Lemma rpb_not_percent b : b <> c_percent -> rpb b <> c_percent.
Proof. unfold rpb, c_percent, c_plus, c_space. intros H. destruct (N.eqb_spec b 43); lia. Qed.

Lemma to_digit16_rpb b v : to_digit16 (rpb b) = Some v -> rpb b = b.
Proof.
  unfold rpb. destruct (N.eqb_spec b c_plus) as [->|]; [|reflexivity].
  intros H. apply to_digit16_range in H. unfold c_space in H. lia.
Qed.

Lemma replace_plus_id y : memN c_plus y = false -> replace_plus y = y.
Proof.
  induction y as [|b r IH]; [reflexivity|]. rewrite memN_cons. intros H. apply orb_false_elim in H. destruct H as [H1 H2].
  rewrite replace_plus_cons, IH by exact H2. rewrite rpb_id; [reflexivity|]. unfold c_plus in *. lia.
Qed.

(* decoding an encoded byte gives the byte back *)
Lemma pd_encoded_byte b rest : byte_ok b = true ->
  percent_decode (c_percent :: hex_upper (b / 16) :: hex_upper (b mod 16) :: rest) = b :: percent_decode rest.
Proof.
  intros Hb. destruct (byte_hi_lo b Hb) as (H1 & H2 & H3).
  rewrite pd_percent. rewrite (esc_some _ _ _ _ _ (to_digit16_hex_upper _ H1) (to_digit16_hex_upper _ H2)).
  rewrite H3. reflexivity.
Qed.

Lemma rpb_hex_upper n : n < 16 -> rpb (hex_upper n) = hex_upper n.
Proof. intros H. apply rpb_id. pose proof (hex_upper_range n H). unfold c_plus. lia. Qed.

Section DecodeEncode.
  Variable s : ascii_set.
  Hypothesis K : keeps_escapes s.
  Hypothesis Hplus : should_percent_encode s c_plus = false.

  Let enc := percent_encode s.

  (* the look-ahead after a literal '%' sees the same thing in x and in its encoding *)
  Lemma esc_rp_enc r : bytes_ok r = true ->
    (esc (replace_plus (enc r)) = None /\ esc (replace_plus r) = None)
    \/ exists h lo r2 v, r = h :: lo :: r2
         /\ esc (replace_plus r) = Some (v, replace_plus r2)
         /\ esc (replace_plus (enc r)) = Some (v, replace_plus (enc r2)).
  Proof.
    intros Hr. unfold enc. destruct r as [|h [|lo r2]].
    - left. split; reflexivity.
    - left. split; [|reflexivity].
      destruct (should_percent_encode s h) eqn:Eh.
      + rewrite percent_encode_cons_enc by exact Eh. reflexivity.
      + rewrite percent_encode_cons_keep by exact Eh. reflexivity.
    - rewrite !bytes_ok_cons in Hr. apply andb_prop in Hr. destruct Hr as [Hh Hr]. apply andb_prop in Hr. destruct Hr as [Hlo Hr2].
      destruct (should_percent_encode s h) eqn:Eh.
      { left. split.
        - rewrite percent_encode_cons_enc by exact Eh. reflexivity.
        - rewrite !replace_plus_cons. apply esc_cons_none1. rewrite rpb_id.
          + apply (spe_not_hex s h K Eh).
          + intros ->. rewrite Hplus in Eh. discriminate. }
      rewrite percent_encode_cons_keep by exact Eh.
      destruct (to_digit16 (rpb h)) as [a|] eqn:Dh.
      2:{ left. split.
          - rewrite replace_plus_cons.
            destruct (should_percent_encode s lo) eqn:El.
            + rewrite percent_encode_cons_enc by exact El. apply esc_cons_none1. exact Dh.
            + rewrite percent_encode_cons_keep by exact El. apply esc_cons_none1. exact Dh.
          - rewrite !replace_plus_cons. apply esc_cons_none1. exact Dh. }
      destruct (should_percent_encode s lo) eqn:El.
      { left. split.
        - rewrite percent_encode_cons_enc by exact El. rewrite !replace_plus_cons. apply esc_cons_none2. reflexivity.
        - rewrite !replace_plus_cons. apply esc_cons_none2. rewrite rpb_id.
          + apply (spe_not_hex s lo K El).
          + intros ->. rewrite Hplus in El. discriminate. }
      rewrite percent_encode_cons_keep by exact El.
      destruct (to_digit16 (rpb lo)) as [c|] eqn:Dlo.
      2:{ left. split; rewrite !replace_plus_cons; apply esc_cons_none2; exact Dlo. }
      right. exists h, lo, r2, (a * 16 + c). split; [reflexivity|].
      split; rewrite !replace_plus_cons; apply esc_some; assumption.
  Qed.

  (* L5: application/x-www-form-urlencoded decoding does not see the encoding *)
  Lemma pd_rp_enc_len n : forall x, (length x <= n)%nat -> bytes_ok x = true ->
    percent_decode (replace_plus (enc x)) = percent_decode (replace_plus x).
  Proof.
    induction n as [|n IH]; intros x Hlen Hx.
    - destruct x; [reflexivity|simpl in Hlen; lia].
    - destruct x as [|b r]; [reflexivity|].
      rewrite bytes_ok_cons in Hx. apply andb_prop in Hx. destruct Hx as [Hb Hr].
      simpl in Hlen. unfold enc in *.
      destruct (should_percent_encode s b) eqn:E.
      + rewrite percent_encode_cons_enc by exact E. destruct (byte_hi_lo b Hb) as (H1 & H2 & _).
        rewrite !replace_plus_cons. rewrite (rpb_hex_upper _ H1), (rpb_hex_upper _ H2).
        change (rpb c_percent) with c_percent. rewrite pd_encoded_byte by exact Hb.
        assert (Hbp : b <> c_plus) by (intros ->; rewrite Hplus in E; discriminate).
        rewrite (rpb_id b Hbp). rewrite pd_cons by (apply (spe_not_percent s b K E)).
        f_equal. apply IH; [lia|exact Hr].
      + rewrite percent_encode_cons_keep by exact E. rewrite !replace_plus_cons.
        destruct (N.eqb_spec b c_percent) as [->|Hbp].
        * change (rpb c_percent) with c_percent. rewrite !pd_percent.
          destruct (esc_rp_enc r Hr) as [[E1 E2]|(h & lo & r2 & v & -> & E1 & E2)]; unfold enc in *.
          -- rewrite E1, E2. f_equal. apply IH; [lia|exact Hr].
          -- rewrite E1, E2. f_equal.
             rewrite !bytes_ok_cons in Hr. apply andb_prop in Hr. destruct Hr as [_ Hr]. apply andb_prop in Hr. destruct Hr as [_ Hr].
             apply IH; [simpl in Hlen; lia|exact Hr].
        * rewrite !pd_cons by (apply rpb_not_percent; exact Hbp). f_equal. apply IH; [lia|exact Hr].
  Qed.

  Lemma decode_enc x : bytes_ok x = true -> decode (enc x) = decode x.
  Proof. intros Hx. unfold decode. apply (pd_rp_enc_len (length x)); [apply Nat.le_refl|exact Hx]. Qed.
End DecodeEncode.

(* ------------------------------------------------------------------------------------------------ *)
(* decoding what was encoded; ASCII case *)

Definition is_letter (c : N) : bool := in_range 65 90 c || in_range 97 122 c.
Definition ascii_swap (c : N) : N :=
  if in_range 65 90 c then c + 32 else if in_range 97 122 c then c - 32 else c.
Definition keeps_letters (s : ascii_set) : Prop := forall c, is_letter c = true -> should_percent_encode s c = false.

Ltac case_ifs :=
  repeat match goal with
         | |- context [if ?b then _ else _] => let E := fresh "E" in destruct b eqn:E
         end.

Lemma to_digit16_lower c : to_digit16 (ascii_lower c) = to_digit16 c.
Proof.
  unfold ascii_lower. destruct (N.leb 65 c && N.leb c 90) eqn:E0; [|reflexivity].
  unfold to_digit16, in_range. case_ifs; try reflexivity; try lia; f_equal; lia.
Qed.

Lemma to_digit16_swap c : to_digit16 (ascii_swap c) = to_digit16 c.
Proof.
  unfold ascii_swap, in_range. destruct (N.leb 65 c && N.leb c 90) eqn:E0; [|destruct (N.leb 97 c && N.leb c 122) eqn:E1; [|reflexivity]];
  unfold to_digit16, in_range; case_ifs; try reflexivity; try lia; f_equal; lia.
Qed.

Lemma ascii_lower_swap c : ascii_lower (ascii_swap c) = ascii_lower c.
Proof. unfold ascii_lower, ascii_swap, in_range. case_ifs; try reflexivity; lia. Qed.

Lemma ascii_lower_idem c : ascii_lower (ascii_lower c) = ascii_lower c.
Proof. unfold ascii_lower. case_ifs; try reflexivity; lia. Qed.

Lemma ascii_lower_nonletter c : is_letter c = false -> ascii_lower c = c.
Proof. unfold ascii_lower, is_letter, in_range. intros H. case_ifs; try reflexivity; lia. Qed.

Lemma ascii_swap_nonletter c : is_letter c = false -> ascii_swap c = c.
Proof. unfold ascii_swap, is_letter, in_range. intros H. case_ifs; try reflexivity; lia. Qed.

Lemma is_letter_swap c : is_letter (ascii_swap c) = is_letter c.
Proof. unfold ascii_swap, is_letter, in_range. case_ifs; lia. Qed.

Lemma is_letter_lower c : is_letter (ascii_lower c) = is_letter c.
Proof. unfold ascii_lower, is_letter, in_range. case_ifs; lia. Qed.

(* two bytes with the same lower-case form are equal or both letters *)
Lemma ascii_lower_eq a b : ascii_lower a = ascii_lower b -> a = b \/ (is_letter a = true /\ is_letter b = true).
Proof. unfold ascii_lower, is_letter, in_range. case_ifs; intros H; try (left; lia); right; split; lia. Qed.

Lemma ascii_lower_eqb_const c d : is_letter d = false -> N.eqb (ascii_lower c) d = N.eqb c d.
Proof. unfold ascii_lower, is_letter, in_range. intros H. case_ifs; lia. Qed.

Lemma ascii_swap_eqb_const c d : is_letter d = false -> N.eqb (ascii_swap c) d = N.eqb c d.
Proof. unfold ascii_swap, is_letter, in_range. intros H. case_ifs; lia. Qed.

Lemma byte_ok_swap c : byte_ok (ascii_swap c) = byte_ok c.
Proof. unfold ascii_swap, byte_ok, in_range. case_ifs; lia. Qed.

Lemma bytes_ok_map_swap x : bytes_ok (map ascii_swap x) = bytes_ok x.
Proof. induction x as [|b r IH]; [reflexivity|]. cbn [map]. rewrite !bytes_ok_cons, IH, byte_ok_swap. reflexivity. Qed.

Lemma not_letter_spe s c : keeps_letters s -> should_percent_encode s c = true -> is_letter c = false.
Proof. intros L H. destruct (is_letter c) eqn:E; [|reflexivity]. rewrite (L c E) in H. discriminate. Qed.

(* L7: on strings without '%' decoding inverts encoding, also through lower-casing *)
Lemma pd_enc_clean s x : keeps_escapes s -> bytes_ok x = true -> memN c_percent x = false ->
  percent_decode (percent_encode s x) = x.
Proof.
  intros K. induction x as [|b r IH]; intros Hx Hp; [reflexivity|].
  rewrite bytes_ok_cons in Hx. apply andb_prop in Hx. destruct Hx as [Hb Hr].
  rewrite memN_cons in Hp. apply orb_false_elim in Hp. destruct Hp as [Hp1 Hp2].
  destruct (should_percent_encode s b) eqn:E.
  - rewrite percent_encode_cons_enc by exact E. rewrite pd_encoded_byte by exact Hb. f_equal. apply IH; assumption.
  - rewrite percent_encode_cons_keep by exact E. rewrite pd_cons by (unfold c_percent in *; lia). f_equal. apply IH; assumption.
Qed.

Lemma pd_lower_enc_clean s x : keeps_escapes s -> keeps_letters s -> bytes_ok x = true -> memN c_percent x = false ->
  percent_decode (map ascii_lower (percent_encode s x)) = map ascii_lower x.
Proof.
  intros K L. induction x as [|b r IH]; intros Hx Hp; [reflexivity|].
  rewrite bytes_ok_cons in Hx. apply andb_prop in Hx. destruct Hx as [Hb Hr].
  rewrite memN_cons in Hp. apply orb_false_elim in Hp. destruct Hp as [Hp1 Hp2].
  destruct (should_percent_encode s b) eqn:E.
  - rewrite percent_encode_cons_enc by exact E. cbn [map]. change (ascii_lower c_percent) with c_percent.
    destruct (byte_hi_lo b Hb) as (H1 & H2 & H3).
    rewrite pd_percent. rewrite (esc_some _ _ _ (b / 16) (b mod 16)).
    + rewrite H3. rewrite (ascii_lower_nonletter b (not_letter_spe s b L E)). f_equal. apply IH; assumption.
    + rewrite to_digit16_lower. apply to_digit16_hex_upper. exact H1.
    + rewrite to_digit16_lower. apply to_digit16_hex_upper. exact H2.
  - rewrite percent_encode_cons_keep by exact E. cbn [map].
    rewrite pd_cons.
    + f_equal. apply IH; assumption.
    + intros Hc. assert (N.eqb (ascii_lower b) c_percent = true) as Hc' by lia.
      rewrite ascii_lower_eqb_const in Hc' by reflexivity. unfold c_percent in *. lia.
Qed.

(* lower-casing commutes with encoding up to the case of the hexadecimal digits *)
Lemma lower_enc_lower s x y : keeps_letters s -> map ascii_lower x = map ascii_lower y ->
  map ascii_lower (percent_encode s x) = map ascii_lower (percent_encode s y).
Proof.
  intros L. revert y. induction x as [|a x IH]; intros [|b y] H; try discriminate; [reflexivity|].
  cbn [map] in H. injection H as Hab Hxy. specialize (IH y Hxy).
  destruct (ascii_lower_eq a b Hab) as [->|[La Lb]].
  - cbn [percent_encode]. destruct (should_percent_encode s b); [rewrite !map_app|cbn [map]]; rewrite IH; reflexivity.
  - rewrite !percent_encode_cons_keep by (apply L; assumption). cbn [map]. rewrite Hab, IH. reflexivity.
Qed.

(* the case swap under decoding *)
Lemma rpb_swap b : rpb (ascii_swap b) = ascii_swap (rpb b).
Proof.
  unfold rpb. rewrite (ascii_swap_eqb_const b c_plus) by reflexivity.
  destruct (N.eqb b c_plus); reflexivity.
Qed.

Lemma replace_plus_swap y : replace_plus (map ascii_swap y) = map ascii_swap (replace_plus y).
Proof. induction y as [|b r IH]; [reflexivity|]. cbn [map]. rewrite !replace_plus_cons. cbn [map]. rewrite IH, rpb_swap. reflexivity. Qed.

Lemma pd_swap_lower_len n : forall y, (length y <= n)%nat ->
  map ascii_lower (percent_decode (map ascii_swap y)) = map ascii_lower (percent_decode y).
Proof.
  induction n as [|n IH]; intros y Hlen.
  - destruct y; [reflexivity|simpl in Hlen; lia].
  - destruct y as [|b r]; [reflexivity|]. simpl in Hlen. cbn [map].
    destruct (N.eqb_spec b c_percent) as [->|Hb].
    + change (ascii_swap c_percent) with c_percent. rewrite !pd_percent.
      destruct r as [|h [|lo r2]].
      * reflexivity.
      * cbn [map esc]. f_equal. apply (IH [h]). simpl in *. lia.
      * cbn [map]. unfold esc. rewrite !to_digit16_swap.
        destruct (to_digit16 h); [destruct (to_digit16 lo)|]; cbn [map]; f_equal.
        -- apply IH. simpl in Hlen. lia.
        -- apply (IH (h :: lo :: r2)). simpl in *. lia.
        -- apply (IH (h :: lo :: r2)). simpl in *. lia.
    + rewrite !pd_cons.
      * cbn [map]. rewrite ascii_lower_swap. f_equal. apply IH. lia.
      * exact Hb.
      * intros Hc. assert (N.eqb (ascii_swap b) c_percent = true) as Hc' by lia.
        rewrite ascii_swap_eqb_const in Hc' by reflexivity. unfold c_percent in *. lia.
Qed.

Lemma decode_swap_lower y : map ascii_lower (decode (map ascii_swap y)) = map ascii_lower (decode y).
Proof.
  unfold decode. rewrite replace_plus_swap. apply (pd_swap_lower_len (length (replace_plus y))). apply Nat.le_refl.
Qed.

(* ------------------------------------------------------------------------------------------------ *)
(* splitting *)

Lemma split_on_nonempty d l : split_on d l <> [].
Proof.
  destruct l as [|b r]; [discriminate|]. cbn [split_on]. destruct (N.eqb b d); [discriminate|].
  destruct (split_on d r); discriminate.
Qed.

Lemma split_on_cons_sep d r : split_on d (d :: r) = [] :: split_on d r.
Proof. cbn [split_on]. rewrite N.eqb_refl. reflexivity. Qed.

Lemma split_on_cons_other d b r : b <> d ->
  split_on d (b :: r) = match split_on d r with p :: ps => (b :: p) :: ps | [] => [[b]] end.
Proof. intros H. cbn [split_on]. replace (N.eqb b d) with false by lia. reflexivity. Qed.

Lemma split_on_notin d a : memN d a = false -> split_on d a = [a].
Proof.
  induction a as [|b r IH]; [reflexivity|]. rewrite memN_cons. intros H. apply orb_false_elim in H. destruct H as [H1 H2].
  rewrite split_on_cons_other by lia. rewrite IH by exact H2. reflexivity.
Qed.

Lemma split_on_app_sep d a b : memN d a = false -> split_on d (a ++ d :: b) = a :: split_on d b.
Proof.
  induction a as [|x a IH]; intros H.
  - apply split_on_cons_sep.
  - rewrite memN_cons in H. apply orb_false_elim in H. destruct H as [H1 H2].
    cbn [app]. rewrite split_on_cons_other by lia. rewrite IH by exact H2. reflexivity.
Qed.

Lemma splitn2_notin d a : memN d a = false -> splitn2 d a = (a, None).
Proof.
  induction a as [|b r IH]; [reflexivity|]. rewrite memN_cons. intros H. apply orb_false_elim in H. destruct H as [H1 H2].
  cbn [splitn2]. replace (N.eqb b d) with false by lia. rewrite IH by exact H2. reflexivity.
Qed.

Lemma splitn2_app_sep d a b : memN d a = false -> splitn2 d (a ++ d :: b) = (a, Some b).
Proof.
  induction a as [|x a IH]; intros H.
  - cbn [app splitn2]. rewrite N.eqb_refl. reflexivity.
  - rewrite memN_cons in H. apply orb_false_elim in H. destruct H as [H1 H2].
    cbn [app splitn2]. replace (N.eqb x d) with false by lia. rewrite IH by exact H2. reflexivity.
Qed.

Lemma splitn2_spec d l : memN d (fst (splitn2 d l)) = false
  /\ l = fst (splitn2 d l) ++ match snd (splitn2 d l) with Some q => d :: q | None => [] end.
Proof.
  induction l as [|b r IH]; [split; reflexivity|]. cbn [splitn2].
  destruct (N.eqb_spec b d) as [->|Hb].
  - split; reflexivity.
  - destruct (splitn2 d r) as [p q]. cbn [fst snd] in *. destruct IH as [H1 H2]. split.
    + rewrite memN_cons, H1. replace (N.eqb d b) with false by lia. reflexivity.
    + cbn [app]. f_equal. exact H2.
Qed.

(* a bytewise map that fixes the delimiter commutes with splitting *)
Lemma split_on_map f d l : (forall b, N.eqb (f b) d = N.eqb b d) ->
  split_on d (map f l) = map (map f) (split_on d l).
Proof.
  intros H. induction l as [|b r IH]; [reflexivity|]. cbn [map split_on]. rewrite H, IH.
  destruct (N.eqb b d); [reflexivity|]. destruct (split_on d r); reflexivity.
Qed.

Lemma splitn2_map f d l : (forall b, N.eqb (f b) d = N.eqb b d) ->
  splitn2 d (map f l) = (map f (fst (splitn2 d l)), option_map (map f) (snd (splitn2 d l))).
Proof.
  intros H. induction l as [|b r IH]; [reflexivity|]. cbn [map splitn2]. rewrite H, IH.
  destruct (N.eqb b d); [reflexivity|]. destruct (splitn2 d r); reflexivity.
Qed.

(* percent_encode commutes with splitting at a delimiter it leaves alone *)
Section SplitEncode.
  Variable s : ascii_set.
  Variable d : N.
  Hypothesis Hd : should_percent_encode s d = false.
  Hypothesis Hdp : d <> c_percent.
  Hypothesis Hdh : is_hex d = false.

  Lemma hex_upper_not_d n : n < 16 -> hex_upper n <> d.
  Proof. intros H E. subst d. rewrite is_hex_hex_upper in Hdh by exact H. discriminate. Qed.

  Lemma split_on_enc x : bytes_ok x = true ->
    split_on d (percent_encode s x) = map (percent_encode s) (split_on d x).
  Proof.
    induction x as [|b r IH]; intros Hx; [reflexivity|].
    rewrite bytes_ok_cons in Hx. apply andb_prop in Hx. destruct Hx as [Hb Hr]. specialize (IH Hr).
    destruct (byte_hi_lo b Hb) as (H1 & H2 & _).
    destruct (should_percent_encode s b) eqn:E.
    - assert (Hbd : b <> d) by (intros ->; rewrite Hd in E; discriminate).
      rewrite percent_encode_cons_enc by exact E.
      rewrite split_on_cons_other by (intros Hc; apply Hdp; symmetry; exact Hc).
      rewrite split_on_cons_other by (apply hex_upper_not_d; exact H1).
      rewrite split_on_cons_other by (apply hex_upper_not_d; exact H2).
      rewrite IH. rewrite (split_on_cons_other d b r Hbd).
      destruct (split_on d r) as [|p ps] eqn:Es; [exfalso; apply (split_on_nonempty d r Es)|].
      cbn [map]. rewrite percent_encode_cons_enc by exact E. reflexivity.
    - rewrite percent_encode_cons_keep by exact E.
      destruct (N.eqb_spec b d) as [->|Hbd].
      + rewrite !split_on_cons_sep, IH. reflexivity.
      + rewrite !split_on_cons_other by exact Hbd. rewrite IH.
        destruct (split_on d r) as [|p ps] eqn:Es; [exfalso; apply (split_on_nonempty d r Es)|].
        cbn [map]. rewrite percent_encode_cons_keep by exact E. reflexivity.
  Qed.

  Lemma splitn2_enc x : bytes_ok x = true ->
    splitn2 d (percent_encode s x)
    = (percent_encode s (fst (splitn2 d x)), option_map (percent_encode s) (snd (splitn2 d x))).
  Proof.
    induction x as [|b r IH]; intros Hx; [reflexivity|].
    rewrite bytes_ok_cons in Hx. apply andb_prop in Hx. destruct Hx as [Hb Hr]. specialize (IH Hr).
    destruct (byte_hi_lo b Hb) as (H1 & H2 & _).
    destruct (should_percent_encode s b) eqn:E.
    - assert (Hbd : b <> d) by (intros ->; rewrite Hd in E; discriminate).
      rewrite percent_encode_cons_enc by exact E. cbn [splitn2].
      replace (N.eqb c_percent d) with false by lia.
      replace (N.eqb (hex_upper (b / 16)) d) with false by (pose proof (hex_upper_not_d _ H1); lia).
      replace (N.eqb (hex_upper (b mod 16)) d) with false by (pose proof (hex_upper_not_d _ H2); lia).
      replace (N.eqb b d) with false by lia.
      rewrite IH. destruct (splitn2 d r) as [p q]. cbn [fst snd].
      rewrite percent_encode_cons_enc by exact E. reflexivity.
    - rewrite percent_encode_cons_keep by exact E. cbn [splitn2].
      destruct (N.eqb b d); [reflexivity|].
      rewrite IH. destruct (splitn2 d r) as [p q]. cbn [fst snd].
      rewrite percent_encode_cons_keep by exact E. reflexivity.
  Qed.
End SplitEncode.

Lemma bytes_ok_split_on d x p : bytes_ok x = true -> In p (split_on d x) -> bytes_ok p = true.
Proof.
  revert p. induction x as [|b r IH]; intros p Hx Hin.
  - destruct Hin as [<-|[]]. reflexivity.
  - rewrite bytes_ok_cons in Hx. apply andb_prop in Hx. destruct Hx as [Hb Hr]. cbn [split_on] in Hin.
    destruct (N.eqb b d).
    + destruct Hin as [<-|Hin]; [reflexivity|apply IH; assumption].
    + destruct (split_on d r) as [|q qs] eqn:Es.
      * destruct Hin as [<-|[]]. rewrite bytes_ok_cons, Hb. reflexivity.
      * destruct Hin as [<-|Hin].
        -- rewrite bytes_ok_cons, Hb. apply IH; [exact Hr|left; reflexivity].
        -- apply IH; [exact Hr|right; exact Hin].
Qed.

Lemma bytes_ok_splitn2 d x : bytes_ok x = true ->
  bytes_ok (fst (splitn2 d x)) = true /\ match snd (splitn2 d x) with Some q => bytes_ok q = true | None => True end.
Proof.
  induction x as [|b r IH]; intros Hx; [split; [reflexivity|exact I]|].
  rewrite bytes_ok_cons in Hx. apply andb_prop in Hx. destruct Hx as [Hb Hr]. cbn [splitn2].
  destruct (N.eqb b d); [split; [reflexivity|exact Hr]|].
  destruct (splitn2 d r) as [p q]. cbn [fst snd] in *. destruct (IH Hr) as [H1 H2]. split; [|exact H2].
  rewrite bytes_ok_cons, Hb. exact H1.
Qed.

Lemma percent_decode_bytes_ok y : bytes_ok y = true -> bytes_ok (percent_decode y) = true.
Proof.
  assert (H : forall n y, (length y <= n)%nat -> bytes_ok y = true -> bytes_ok (percent_decode y) = true).
  { induction n as [|n IH]; intros z Hlen Hz.
    - destruct z; [reflexivity|simpl in Hlen; lia].
    - destruct z as [|b r]; [reflexivity|]. simpl in Hlen.
      rewrite bytes_ok_cons in Hz. apply andb_prop in Hz. destruct Hz as [Hb Hr].
      destruct (N.eqb_spec b c_percent) as [->|Hbp].
      + rewrite pd_percent. destruct (esc r) as [[v t]|] eqn:Ee.
        * unfold esc in Ee. destruct r as [|h [|lo r2]]; try discriminate.
          destruct (to_digit16 h) as [a|] eqn:Dh; [|discriminate]. destruct (to_digit16 lo) as [c|] eqn:Dl; [|discriminate].
          inversion Ee; subst. apply to_digit16_range in Dh. apply to_digit16_range in Dl.
          rewrite bytes_ok_cons. apply andb_true_intro. split; [unfold byte_ok; lia|].
          rewrite !bytes_ok_cons in Hr. apply andb_prop in Hr. destruct Hr as [_ Hr]. apply andb_prop in Hr. destruct Hr as [_ Hr].
          apply IH; [simpl in Hlen; lia|exact Hr].
        * rewrite bytes_ok_cons. apply andb_true_intro. split; [reflexivity|apply IH; [lia|exact Hr]].
      + rewrite pd_cons by exact Hbp. rewrite bytes_ok_cons, Hb. apply IH; [lia|exact Hr]. }
  intros Hy. apply (H (length y)); [apply Nat.le_refl|exact Hy].
Qed.

Lemma replace_plus_bytes_ok y : bytes_ok y = true -> bytes_ok (replace_plus y) = true.
Proof.
  induction y as [|b r IH]; [reflexivity|]. rewrite replace_plus_cons, !bytes_ok_cons. intros H.
  apply andb_prop in H. destruct H as [Hb Hr]. rewrite (IH Hr), andb_true_r.
  unfold rpb, byte_ok in *. destruct (N.eqb b c_plus); [reflexivity|exact Hb].
Qed.

Lemma decode_bytes_ok y : bytes_ok y = true -> bytes_ok (decode y) = true.
Proof. intros H. unfold decode. apply percent_decode_bytes_ok, replace_plus_bytes_ok, H. Qed.

(* ------------------------------------------------------------------------------------------------ *)
(* form_urlencoded_parse of an encoded query *)

Definition kv_bytes_ok (kv : str * str) : bool := bytes_ok (fst kv) && bytes_ok (snd kv).

Lemma parse_sequence_bytes_ok p : bytes_ok p = true -> kv_bytes_ok (parse_sequence p) = true.
Proof.
  intros Hp. unfold parse_sequence, kv_bytes_ok. destruct (bytes_ok_splitn2 c_eq p Hp) as [H1 H2].
  destruct (splitn2 c_eq p) as [name value]. cbn [fst snd] in *.
  rewrite (decode_bytes_ok name H1). destruct value as [v|]; [apply decode_bytes_ok; exact H2|reflexivity].
Qed.

Lemma parse_bytes_ok q : bytes_ok q = true -> forallb kv_bytes_ok (form_urlencoded_parse q) = true.
Proof.
  intros Hq. apply forallb_forall. intros kv Hin. unfold form_urlencoded_parse in Hin.
  apply in_map_iff in Hin. destruct Hin as (p & <- & Hp). apply filter_In in Hp. destruct Hp as [Hp _].
  apply parse_sequence_bytes_ok. apply (bytes_ok_split_on c_amp q p Hq Hp).
Qed.

Section ParseEncode.
  Variable s : ascii_set.
  Hypothesis K : keeps_escapes s.
  Hypothesis Hplus : should_percent_encode s c_plus = false.
  Hypothesis Hamp : should_percent_encode s c_amp = false.
  Hypothesis Heq : should_percent_encode s c_eq = false.

  Lemma parse_sequence_enc p : bytes_ok p = true -> parse_sequence (percent_encode s p) = parse_sequence p.
  Proof.
    intros Hp. unfold parse_sequence.
    rewrite (splitn2_enc s c_eq Heq) by (try exact Hp; try reflexivity; discriminate).
    destruct (bytes_ok_splitn2 c_eq p Hp) as [H1 H2].
    destruct (splitn2 c_eq p) as [name value]. cbn [fst snd] in *.
    rewrite (decode_enc s K Hplus name H1). f_equal.
    destruct value as [v|]; [|reflexivity]. cbn [option_map]. apply (decode_enc s K Hplus v H2).
  Qed.

  (* L5 *)
  Lemma parse_enc q : bytes_ok q = true ->
    form_urlencoded_parse (percent_encode s q) = form_urlencoded_parse q.
  Proof.
    intros Hq. unfold form_urlencoded_parse.
    rewrite (split_on_enc s c_amp Hamp) by (try exact Hq; try reflexivity; discriminate).
    assert (Hall : forall p, In p (split_on c_amp q) -> bytes_ok p = true) by (intros p; apply bytes_ok_split_on; exact Hq).
    induction (split_on c_amp q) as [|p ps IH]; [reflexivity|].
    cbn [map filter]. rewrite is_nil_percent_encode.
    destruct (is_nil p); cbn [negb map].
    - apply IH. intros p' Hp'. apply Hall. right. exact Hp'.
    - rewrite parse_sequence_enc by (apply Hall; left; reflexivity). f_equal.
      apply IH. intros p' Hp'. apply Hall. right. exact Hp'.
  Qed.
End ParseEncode.

(* ------------------------------------------------------------------------------------------------ *)
(* the bytewise order *)

Lemma str_cmp_refl a : str_cmp a a = Eq.
Proof. induction a as [|x a IH]; [reflexivity|]. cbn [str_cmp]. rewrite N.compare_refl. exact IH. Qed.

Lemma str_cmp_eq a b : str_cmp a b = Eq -> a = b.
Proof.
  revert b. induction a as [|x a IH]; intros [|y b] H; try discriminate; [reflexivity|].
  cbn [str_cmp] in H. destruct (N.compare x y) eqn:E; try discriminate.
  apply N.compare_eq in E. subst. f_equal. apply IH. exact H.
Qed.

Lemma str_cmp_antisym a b : str_cmp b a = CompOpp (str_cmp a b).
Proof.
  revert b. induction a as [|x a IH]; intros [|y b]; try reflexivity.
  cbn [str_cmp]. rewrite (N.compare_antisym x y). destruct (N.compare x y); cbn [CompOpp]; [apply IH|reflexivity|reflexivity].
Qed.

Lemma str_cmp_lt_trans a b c : str_cmp a b = Lt -> str_cmp b c = Lt -> str_cmp a c = Lt.
Proof.
  revert b c. induction a as [|x a IH]; intros [|y b] [|z c] H1 H2; try discriminate; try reflexivity.
  cbn [str_cmp] in *.
  destruct (N.compare x y) eqn:E1; try discriminate; destruct (N.compare y z) eqn:E2; try discriminate.
  - apply N.compare_eq in E1, E2. subst. rewrite N.compare_refl. apply (IH b c); assumption.
  - apply N.compare_eq in E1. subst. rewrite E2. reflexivity.
  - apply N.compare_eq in E2. subst. rewrite E1. reflexivity.
  - assert (x < z) as Hxz by (rewrite N.compare_lt_iff in E1, E2; lia).
    apply N.compare_lt_iff in Hxz. rewrite Hxz. reflexivity.
Qed.

Lemma str_cmp_eqb a b : str_eqb a b = match str_cmp a b with Eq => true | _ => false end.
Proof.
  destruct (str_cmp a b) eqn:E.
  - apply str_cmp_eq in E. subst. apply str_eqb_refl.
  - apply str_eqb_neq. intros ->. rewrite str_cmp_refl in E. discriminate.
  - apply str_eqb_neq. intros ->. rewrite str_cmp_refl in E. discriminate.
Qed.

(* ------------------------------------------------------------------------------------------------ *)
(* the BTreeMap model *)

Definition key_lt (k : str) (e : str * str) : Prop := str_cmp k (fst e) = Lt.

(* strictly ascending keys *)
Fixpoint sorted (m : list (str * str)) : Prop :=
  match m with
  | [] => True
  | e :: m' => Forall (key_lt (fst e)) m' /\ sorted m'
  end.

Lemma assoc_cons {A} k k' (v : A) m : assoc k ((k', v) :: m) = if str_eqb k k' then Some v else assoc k m.
Proof. reflexivity. Qed.

Lemma assoc_btree_insert k0 k v m :
  assoc k0 (btree_insert k v m) = if str_eqb k0 k then Some v else assoc k0 m.
Proof.
  induction m as [|[k' v'] m IH]; [reflexivity|]. cbn [btree_insert].
  destruct (str_cmp k k') eqn:E.
  - apply str_cmp_eq in E. subst k'. rewrite !assoc_cons. destruct (str_eqb k0 k); reflexivity.
  - rewrite !assoc_cons. reflexivity.
  - rewrite !assoc_cons, IH. destruct (str_eqb k0 k') eqn:E1; [|reflexivity].
    apply str_eqb_spec in E1. subst k0. destruct (str_eqb k' k) eqn:E2; [|reflexivity].
    apply str_eqb_spec in E2. subst. rewrite str_cmp_refl in E. discriminate.
Qed.

Lemma btree_insert_keys k v m e : In e (btree_insert k v m) -> fst e = k \/ In (fst e) (map fst m).
Proof.
  induction m as [|[k' v'] m IH]; cbn [btree_insert].
  - intros [<-|[]]. left. reflexivity.
  - destruct (str_cmp k k') eqn:E.
    + intros [<-|Hin]; [right; left; reflexivity|right; right; apply in_map; exact Hin].
    + intros [<-|[<-|Hin]]; [left; reflexivity|right; left; reflexivity|right; right; apply in_map; exact Hin].
    + intros [<-|Hin]; [right; left; reflexivity|]. destruct (IH Hin) as [H|H]; [left; exact H|right; right; exact H].
Qed.

Lemma btree_insert_sorted k v m : sorted m -> sorted (btree_insert k v m).
Proof.
  induction m as [|[k' v'] m IH]; intros Hs; [split; [constructor|exact I]|].
  cbn [sorted fst] in Hs. destruct Hs as [Hall Hs]. cbn [btree_insert].
  destruct (str_cmp k k') eqn:E.
  - split; assumption.
  - split; [|split; assumption]. constructor; [exact E|].
    apply Forall_forall. intros e He. rewrite Forall_forall in Hall. unfold key_lt in *. cbn [fst].
    apply (str_cmp_lt_trans k k' (fst e) E (Hall e He)).
  - split; [|apply IH; exact Hs]. cbn [fst]. apply Forall_forall. intros e He.
    destruct (btree_insert_keys k v m e He) as [H|H].
    + unfold key_lt. rewrite H. rewrite (str_cmp_antisym k k'), E. reflexivity.
    + apply in_map_iff in H. destruct H as (e' & He' & Hin). rewrite Forall_forall in Hall.
      unfold key_lt in *. rewrite <- He'. apply Hall. exact Hin.
Qed.

Lemma fold_insert_sorted l m : sorted m -> sorted (fold_left (fun m kv => btree_insert (fst kv) (snd kv) m) l m).
Proof. revert m. induction l as [|kv l IH]; intros m Hs; [exact Hs|]. cbn [fold_left]. apply IH, btree_insert_sorted, Hs. Qed.

Lemma btree_collect_sorted l : sorted (btree_collect l).
Proof. apply fold_insert_sorted. exact I. Qed.

Lemma assoc_app {A} k (a b : list (str * A)) :
  assoc k (a ++ b) = match assoc k a with Some v => Some v | None => assoc k b end.
Proof.
  induction a as [|[ka va] a IHa]; [reflexivity|]. cbn [app]. rewrite !assoc_cons.
  destruct (str_eqb k ka); [reflexivity|exact IHa].
Qed.

(* the value of a key: the LAST one in the input *)
Lemma assoc_fold_insert k l m :
  assoc k (fold_left (fun m kv => btree_insert (fst kv) (snd kv) m) l m)
  = match assoc k (rev l) with Some v => Some v | None => assoc k m end.
Proof.
  revert m. induction l as [|[k' v'] l IH]; intros m; [reflexivity|].
  cbn [fold_left rev fst snd]. rewrite IH, assoc_btree_insert.
  rewrite assoc_app. destruct (assoc k (rev l)); [reflexivity|]. rewrite assoc_cons. cbn [assoc]. destruct (str_eqb k k'); reflexivity.
Qed.

Lemma assoc_btree_collect k l : assoc k (btree_collect l) = assoc k (rev l).
Proof. unfold btree_collect. rewrite assoc_fold_insert. destruct (assoc k (rev l)); reflexivity. Qed.

Lemma assoc_in_key {A} k (m : list (str * A)) v : assoc k m = Some v -> In (k, v) m.
Proof.
  induction m as [|[k' v'] m IH]; [discriminate|]. rewrite assoc_cons.
  destruct (str_eqb k k') eqn:E; [apply str_eqb_spec in E; subst; intros H; inversion H; left; reflexivity|intros H; right; apply IH; exact H].
Qed.

Lemma assoc_none_notin {A} k (m : list (str * A)) : assoc k m = None -> forall v, ~ In (k, v) m.
Proof.
  induction m as [|[k' v'] m IH]; [intros _ v []|]. rewrite assoc_cons.
  destruct (str_eqb k k') eqn:E; [discriminate|]. intros H v [Hin|Hin].
  - inversion Hin; subst. rewrite str_eqb_refl in E. discriminate.
  - apply (IH H v Hin).
Qed.

Lemma sorted_head_not_in_tail k v m : sorted ((k, v) :: m) -> assoc k m = None.
Proof.
  intros [Hall _]. destruct (assoc k m) as [w|] eqn:E; [|reflexivity].
  apply assoc_in_key in E. rewrite Forall_forall in Hall. specialize (Hall _ E). unfold key_lt in Hall. cbn [fst] in Hall.
  rewrite str_cmp_refl in Hall. discriminate.
Qed.

(* two strictly sorted association lists with the same lookups are equal *)
Lemma sorted_ext m m' : sorted m -> sorted m' -> (forall k, assoc k m = assoc k m') -> m = m'.
Proof.
  revert m'. induction m as [|[k v] m IH]; intros [|[k' v'] m'] Hs Hs' Hext.
  - reflexivity.
  - specialize (Hext k'). rewrite assoc_cons, str_eqb_refl in Hext. discriminate.
  - specialize (Hext k). rewrite assoc_cons, str_eqb_refl in Hext. discriminate.
  - assert (Hk : k = k').
    { pose proof (Hext k) as H1. pose proof (Hext k') as H2. rewrite !assoc_cons, !str_eqb_refl in *.
      destruct (str_eqb k k') eqn:E; [apply str_eqb_spec; exact E|].
      rewrite str_eqb_sym, E in H2. symmetry in H1. apply assoc_in_key in H1, H2.
      destruct Hs as [Hall _]. destruct Hs' as [Hall' _]. rewrite Forall_forall in Hall, Hall'.
      specialize (Hall _ H2). specialize (Hall' _ H1). unfold key_lt in *. cbn [fst] in *.
      rewrite (str_cmp_antisym k k'), Hall in Hall'. discriminate. }
    subst k'. pose proof (Hext k) as Hv. rewrite !assoc_cons, !str_eqb_refl in Hv. inversion Hv; subst v'.
    f_equal. apply IH; [apply Hs|apply Hs'|]. intros k0. specialize (Hext k0). rewrite !assoc_cons in Hext.
    destruct (str_eqb k0 k) eqn:E; [|exact Hext]. apply str_eqb_spec in E. subst k0.
    rewrite (sorted_head_not_in_tail k v m Hs), (sorted_head_not_in_tail k v m' Hs'). reflexivity.
Qed.

(* filtering by key *)
Definition has_key (k : str) (e : str * str) : bool := str_eqb k (fst e).

Lemma assoc_filter_key (P : str -> bool) k (m : list (str * str)) :
  assoc k (filter (fun e => P (fst e)) m) = if P k then assoc k m else None.
Proof.
  induction m as [|[k' v'] m IH]; [destruct (P k); reflexivity|]. cbn [filter fst].
  destruct (P k') eqn:E.
  - rewrite !assoc_cons, IH. destruct (str_eqb k k') eqn:E1; [|reflexivity]. apply str_eqb_spec in E1. subst. rewrite E. reflexivity.
  - rewrite IH, assoc_cons. destruct (str_eqb k k') eqn:E1; [|reflexivity]. apply str_eqb_spec in E1. subst. rewrite E. reflexivity.
Qed.

Lemma filter_rev {A} (f : A -> bool) l : filter f (rev l) = rev (filter f l).
Proof.
  induction l as [|a l IH]; [reflexivity|]. cbn [rev filter]. rewrite filter_app, IH. cbn [filter].
  destruct (f a); [reflexivity|rewrite app_nil_r; reflexivity].
Qed.

Lemma sorted_filter (f : str * str -> bool) m : sorted m -> sorted (filter f m).
Proof.
  induction m as [|e m IH]; intros Hs; [exact I|]. destruct Hs as [Hall Hs]. cbn [filter].
  destruct (f e); [|apply IH; exact Hs]. split; [|apply IH; exact Hs].
  apply Forall_forall. intros e' He'. apply filter_In in He'. rewrite Forall_forall in Hall. apply Hall, He'.
Qed.

Lemma btree_collect_filter_key (P : str -> bool) l :
  filter (fun e => P (fst e)) (btree_collect l) = btree_collect (filter (fun e => P (fst e)) l).
Proof.
  apply sorted_ext; [apply sorted_filter, btree_collect_sorted|apply btree_collect_sorted|].
  intros k. rewrite assoc_filter_key, !assoc_btree_collect, <- filter_rev, assoc_filter_key. reflexivity.
Qed.

(* the collected map only depends on, for every key, the sequence of its occurrences *)
Lemma assoc_by_filter k (m : list (str * str)) : assoc k m = assoc k (filter (has_key k) m).
Proof.
  induction m as [|[k' v'] m IH]; [reflexivity|]. cbn [filter]. unfold has_key at 1. cbn [fst].
  rewrite assoc_cons. destruct (str_eqb k k') eqn:E; [rewrite assoc_cons, E; reflexivity|exact IH].
Qed.

Lemma btree_collect_stable l l' :
  (forall k, filter (has_key k) l = filter (has_key k) l') -> btree_collect l = btree_collect l'.
Proof.
  intros H. apply sorted_ext; try apply btree_collect_sorted.
  intros k. rewrite !assoc_btree_collect. rewrite (assoc_by_filter k (rev l)), (assoc_by_filter k (rev l')).
  rewrite !filter_rev, H. reflexivity.
Qed.

Lemma btree_insert_incl k v m e : In e (btree_insert k v m) -> e = (k, v) \/ In e m.
Proof.
  induction m as [|[k' v'] m IH]; cbn [btree_insert].
  - intros [<-|[]]. left. reflexivity.
  - destruct (str_cmp k k') eqn:E.
    + apply str_cmp_eq in E. subst k'. intros [<-|H]; [left; reflexivity|right; right; exact H].
    + intros [<-|H]; [left; reflexivity|right; exact H].
    + intros [<-|H]; [right; left; reflexivity|]. destruct (IH H) as [H1|H1]; [left; exact H1|right; right; exact H1].
Qed.

(* every entry of the collected map is one of the parsed parameters *)
Lemma btree_collect_incl l e : In e (btree_collect l) -> In e l.
Proof.
  unfold btree_collect.
  assert (H : forall l acc, In e (fold_left (fun m kv => btree_insert (fst kv) (snd kv) m) l acc) -> In e l \/ In e acc).
  { induction l0 as [|[k v] l0 IH]; intros acc Hin; [right; exact Hin|].
    cbn [fold_left fst snd] in Hin. destruct (IH _ Hin) as [H|H]; [left; right; exact H|].
    destruct (btree_insert_incl k v acc e H) as [->|H1]; [left; left; reflexivity|right; exact H1]. }
  intros Hin. destruct (H l [] Hin) as [H1|[]]. exact H1.
Qed.

(* boolean equality of lists *)
Fixpoint list_eqb {A} (e : A -> A -> bool) (a b : list A) : bool :=
  match a, b with [], [] => true | x :: a', y :: b' => e x y && list_eqb e a' b' | _, _ => false end.

Lemma list_eqb_spec {A} (e : A -> A -> bool) : (forall x y, e x y = true <-> x = y) ->
  forall a b, list_eqb e a b = true <-> a = b.
Proof.
  intros He. induction a as [|x a IH]; intros [|y b]; cbn [list_eqb]; split; intros H; try reflexivity; try discriminate.
  - apply andb_prop in H. destruct H as [H1 H2]. apply He in H1. apply IH in H2. subst. reflexivity.
  - inversion H; subst. apply andb_true_intro. split; [apply He; reflexivity|apply IH; reflexivity].
Qed.

Definition kv_eqb (a b : str * str) : bool := str_eqb (fst a) (fst b) && str_eqb (snd a) (snd b).

Lemma kv_eqb_spec a b : kv_eqb a b = true <-> a = b.
Proof.
  destruct a as [k v], b as [k' v']. unfold kv_eqb. cbn [fst snd]. split; intros H.
  - apply andb_prop in H. destruct H as [H1 H2]. apply str_eqb_spec in H1, H2. subst. reflexivity.
  - inversion H; subst. rewrite !str_eqb_refl. reflexivity.
Qed.

(* the same occurrences, in the same order, for every key: a permutation that keeps the relative order of the
   parameters of one key *)
Definition same_by_key (l l' : list (str * str)) : bool :=
  forallb (fun k => list_eqb kv_eqb (filter (has_key k) l) (filter (has_key k) l')) (map fst (l ++ l')).

Lemma filter_none {A} (f : A -> bool) l : (forall a, In a l -> f a = false) -> filter f l = [].
Proof.
  induction l as [|a l IH]; intros H; [reflexivity|]. cbn [filter]. rewrite (H a (or_introl eq_refl)).
  apply IH. intros b Hb. apply H. right. exact Hb.
Qed.

Lemma same_by_key_spec l l' : same_by_key l l' = true -> forall k, filter (has_key k) l = filter (has_key k) l'.
Proof.
  intros H k. unfold same_by_key in H. rewrite forallb_forall in H.
  destruct (mem_str k (map fst (l ++ l'))) eqn:E.
  - apply mem_str_In in E. apply (list_eqb_spec kv_eqb kv_eqb_spec). apply H. exact E.
  - assert (Hno : forall e, In e (l ++ l') -> has_key k e = false).
    { intros e He. unfold has_key. destruct (str_eqb k (fst e)) eqn:Ek; [|reflexivity].
      apply str_eqb_spec in Ek. subst k. assert (In (fst e) (map fst (l ++ l'))) as Hin by (apply in_map; exact He).
      apply mem_str_In in Hin. rewrite Hin in E. discriminate. }
    rewrite !filter_none; [reflexivity| |]; intros e He; apply Hno; apply in_or_app; [right|left]; exact He.
Qed.

Lemma same_by_key_collect l l' : same_by_key l l' = true -> btree_collect l = btree_collect l'.
Proof. intros H. apply btree_collect_stable. apply same_by_key_spec. exact H. Qed.

(* ------------------------------------------------------------------------------------------------ *)
(* two parameter lists collected side by side (used for the case swap) *)

Section Aligned.
  Variable C : list ((str * str) * (str * str)).
  (* aligned entries compare the same way *)
  Hypothesis Hcmp : forall p q, In p C -> In q C ->
    str_cmp (fst (fst p)) (fst (fst q)) = str_cmp (fst (snd p)) (fst (snd q)).

  Let inC (e e' : str * str) : Prop := In (e, e') C.

  Lemma btree_insert_aligned k v k' v' m m' :
    Forall2 inC m m' -> inC (k, v) (k', v') -> Forall2 inC (btree_insert k v m) (btree_insert k' v' m').
  Proof.
    intros Hm Hin. induction Hm as [|[ka va] [ka' va'] m m' Ha Hm IH].
    - constructor; [exact Hin|constructor].
    - cbn [btree_insert]. pose proof (Hcmp _ _ Hin Ha) as Hc. cbn [fst snd] in Hc. rewrite <- Hc.
      destruct (str_cmp k ka) eqn:E.
      + symmetry in Hc. apply str_cmp_eq in E, Hc. subst ka ka'. constructor; [exact Hin|exact Hm].
      + constructor; [exact Hin|]. constructor; [exact Ha|exact Hm].
      + constructor; [exact Ha|exact IH].
  Qed.

  Lemma fold_insert_aligned l l' : Forall2 inC l l' -> forall m m', Forall2 inC m m' ->
    Forall2 inC (fold_left (fun m kv => btree_insert (fst kv) (snd kv) m) l m)
                (fold_left (fun m kv => btree_insert (fst kv) (snd kv) m) l' m').
  Proof.
    intros Hl. induction Hl as [|[k v] [k' v'] l l' He Hl IH]; intros m m' Hm; [exact Hm|].
    cbn [fold_left fst snd]. apply IH. apply btree_insert_aligned; assumption.
  Qed.

  Lemma btree_collect_aligned l l' : Forall2 inC l l' -> Forall2 inC (btree_collect l) (btree_collect l').
  Proof. intros Hl. apply fold_insert_aligned; [exact Hl|constructor]. Qed.
End Aligned.

Lemma Forall2_weaken {A B} (R R' : A -> B -> Prop) l l' : (forall a b, R a b -> R' a b) -> Forall2 R l l' -> Forall2 R' l l'.
Proof. intros HR H. induction H; constructor; [apply HR; assumption|assumption]. Qed.

Lemma Forall2_combine_self {A B} (l : list A) (l' : list B) : length l = length l' ->
  Forall2 (fun a b => In (a, b) (combine l l')) l l'.
Proof.
  revert l'. induction l as [|a l IH]; intros [|b l'] H; try discriminate; [constructor|].
  injection H as H. constructor; [left; reflexivity|].
  apply (Forall2_weaken (fun x y => In (x, y) (combine l l'))); [|apply IH; exact H].
  intros x y Hxy. right. exact Hxy.
Qed.

Lemma Forall2_in_combine {A B} (R : A -> B -> Prop) l l' : Forall2 R l l' -> forall a b, In (a, b) (combine l l') -> R a b.
Proof.
  intros H. induction H as [|x y l l' Hxy H IH]; intros a b Hin; [destruct Hin|].
  destruct Hin as [Hin|Hin]; [inversion Hin; subst; exact Hxy|apply IH; exact Hin].
Qed.

Lemma Forall2_filter {A B} (R : A -> B -> Prop) (f : A -> bool) (g : B -> bool) l l' :
  Forall2 (fun a b => R a b /\ f a = g b) l l' -> Forall2 R (filter f l) (filter g l').
Proof.
  intros H. induction H as [|x y l l' [Hxy Hfg] H IH]; [constructor|]. cbn [filter]. rewrite <- Hfg.
  destruct (f x); [constructor; assumption|exact IH].
Qed.

Lemma Forall2_length {A B} (R : A -> B -> Prop) l l' : Forall2 R l l' -> length l = length l'.
Proof. intros H. induction H; [reflexivity|simpl; f_equal; assumption]. Qed.

(* ------------------------------------------------------------------------------------------------ *)
(* bytewise maps that only change the case of letters: the identity and ascii_lower *)

Definition casemap (f : N -> N) : Prop :=
  (forall c d, is_letter d = false -> N.eqb (f c) d = N.eqb c d)
  /\ (forall c, to_digit16 (f c) = to_digit16 c)
  /\ (forall c, is_letter c = false -> f c = c).

Lemma casemap_lower : casemap ascii_lower.
Proof. split; [exact ascii_lower_eqb_const|split; [exact to_digit16_lower|exact ascii_lower_nonletter]]. Qed.

Lemma casemap_id : casemap (fun c => c).
Proof. split; [reflexivity|split; reflexivity]. Qed.

Lemma memN_map_casemap f d x : casemap f -> is_letter d = false -> memN d (map f x) = memN d x.
Proof.
  intros (H1 & _ & _) Hd. induction x as [|b r IH]; [reflexivity|]. cbn [map]. rewrite !memN_cons, IH.
  rewrite (N.eqb_sym d (f b)), (N.eqb_sym d b), (H1 b d Hd). reflexivity.
Qed.

Lemma pd_map_enc_clean f s x : casemap f -> keeps_escapes s -> keeps_letters s -> bytes_ok x = true ->
  memN c_percent x = false -> percent_decode (map f (percent_encode s x)) = map f x.
Proof.
  intros (F1 & F2 & F3) K L. induction x as [|b r IH]; intros Hx Hp; [reflexivity|].
  rewrite bytes_ok_cons in Hx. apply andb_prop in Hx. destruct Hx as [Hb Hr].
  rewrite memN_cons in Hp. apply orb_false_elim in Hp. destruct Hp as [Hp1 Hp2].
  destruct (should_percent_encode s b) eqn:E.
  - rewrite percent_encode_cons_enc by exact E. cbn [map]. rewrite (F3 c_percent eq_refl).
    destruct (byte_hi_lo b Hb) as (H1 & H2 & H3).
    rewrite pd_percent. rewrite (esc_some _ _ _ (b / 16) (b mod 16)).
    + rewrite H3. rewrite (F3 b (not_letter_spe s b L E)). f_equal. apply IH; assumption.
    + rewrite F2. apply to_digit16_hex_upper. exact H1.
    + rewrite F2. apply to_digit16_hex_upper. exact H2.
  - rewrite percent_encode_cons_keep by exact E. cbn [map].
    rewrite pd_cons.
    + f_equal. apply IH; assumption.
    + intros Hc. assert (N.eqb (f b) c_percent = true) as Hc' by lia.
      rewrite (F1 b c_percent eq_refl) in Hc'. unfold c_percent in *. lia.
Qed.

(* splitting a joined list of delimiter-free pieces gives the pieces back *)
Lemma split_on_join d p ps : memN d p = false -> (forall q, In q ps -> memN d q = false) ->
  split_on d (p ++ concat (map (cons d) ps)) = p :: ps.
Proof.
  revert p. induction ps as [|q ps IH]; intros p Hp Hps.
  - cbn. rewrite app_nil_r. apply split_on_notin. exact Hp.
  - cbn [map concat]. change ((d :: q) ++ concat (map (cons d) ps)) with (d :: (q ++ concat (map (cons d) ps))).
    rewrite (split_on_app_sep d p _ Hp). f_equal.
    apply IH; [apply Hps; left; reflexivity|intros q' Hq'; apply Hps; right; exact Hq'].
Qed.
