(* RxCapt3.v — rx_captures returns a valid parse ([spans]) on anchored chains of simple capturing tokens, and the
   captured values of a marker template are its instantiated values (case-sensitive matching, separated templates). *)
Require Import Coq.Strings.String.
Require Import RIO.Base RIO.Pct RIO.Url RIO.Prefix RIO.RegexSem RIO.Marker RIO.MarkerProofs RIO.Rx RIO.RxMatch RIO.RxParse RIO.RxToks RIO.RxGi
               RIO.RxLaws RIO.RxTokSem RIO.RxTokSem2 RIO.RxCapt RIO.RxCapt2.
Close Scope N_scope.
Open Scope nat_scope.

Lemma cap_simple_parses t : cap_simple t = true -> tok_parses t = true.
Proof.
  destruct t as [c|b]; [reflexivity|]. unfold cap_simple, tok_parses. destruct (tok_atom 1 (TGrp b)) as [[a g]|]; [reflexivity|discriminate].
Qed.

Theorem rx_captures_valid_parse ic ts s cs : forallb cap_simple ts = true ->
  rx_captures ic (ch_caret :: render ts ++ [ch_dollar]) s = Some cs -> spans ic ts 1 0 s cs.
Proof.
  intros Hsimple H.
  assert (Hp : toks_parse ts = true).
  { apply toks_parse_forallb. rewrite forallb_forall in *. intros t Ht. apply cap_simple_parses. apply Hsimple. exact Ht. }
  unfold toks_parse in Hp. destruct (toks_atoms 1 ts) as [[l g]|] eqn:Ea; [|discriminate]. clear Hp.
  unfold rx_captures in H. rewrite (parse_leaf ts l g Ea) in H.
  apply first_some_in in H. destruct H as ([p r] & Hin & H). cbn [fst snd] in H.
  apply m_sound_c in H. destruct H as (s' & Hr & Hk). inversion Hk as [Hcs]. clear Hk.
  cbn [reachc] in Hr. destruct Hr as (s1 & Hr & He & ->).
  apply reachc_chain_elim in Hr. destruct Hr as (s0 & H0 & Hl). cbn [reachc] in H0. destruct H0 as [Hp0 ->]. unfold cpos in Hp0. cbn [fst] in Hp0. subst p.
  destruct (suffixes_from_pos _ _ _ _ Hin) as [_ Hs]. specialize (Hs eq_refl). subst r.
  destruct (reachc_list_spans ic s ts 1 l g ((0, s), []) s1 Hsimple Ea eq_refl Hl He) as (added & E1 & _ & E3).
  cbn [snd] in E1. rewrite app_nil_r in E1. rewrite E1. exact E3.
Qed.

(* ------------------------------------------------------------------ marker templates *)
(* the capture pattern of a template: a literal per literal piece, one capturing group ( regex ) per reference *)
Definition ctok (markers : list (str * str)) (p : piece) : tok :=
  match p with PLit c => TLit c | PRef n => TGrp (regex_of markers n) end.
Definition refs (ps : list piece) : list str := flat_map (fun p => match p with PRef n => [n] | PLit _ => [] end) ps.

(* what MarkerString::capture reads off the captures: the i-th reference is group i *)
Fixpoint cap_fun (ps : list piece) (gi : nat) (cs : caps) (hay : str) (n : str) {struct ps} : str :=
  match ps with
  | [] => []
  | PLit _ :: r => cap_fun r gi cs hay n
  | PRef m :: r =>
      if str_eqb m n then match cap_lookup gi cs with Some (a, b) => firstn (b - a) (skipn a hay) | None => [] end
      else cap_fun r (S gi) cs hay n
  end.

Lemma instantiate_ext f g ps : (forall n, In n (refs ps) -> f n = g n) -> instantiate f ps = instantiate g ps.
Proof.
  induction ps as [|p ps IH]; intros H; [reflexivity|]. unfold instantiate in *. cbn [flat_map]. f_equal.
  - destruct p as [c|m]; [reflexivity|]. cbn [inst_piece]. apply H. cbn [refs flat_map app]. left. reflexivity.
  - apply IH. intros n Hn. apply H. cbn [refs flat_map]. apply in_or_app. right. exact Hn.
Qed.

Lemma G_rx_len ic b (s : list N) pos k : G_rx ic b s pos k = true -> k <= length (skipn pos s).
Proof.
  unfold G_rx. destruct (tok_atom 1 (TGrp b)) as [[a g]|]; [|discriminate]. intros H. apply reaches_to_iff in H.
  destruct (reach_wf _ _ _ _ H) as [Hw _]. cbn [fst snd] in Hw. rewrite skipn_length in Hw. lia.
Qed.

Lemma spans_instantiate markers sepb (hay : str) cs ps : forall gi pos,
  (forall n whole p k, In n (refs ps) -> G_rx false (regex_of markers n) whole p k = true -> sep_free sepb (firstn k (skipn p whole)) = true) ->
  NoDup (refs ps) -> spans false (map (ctok markers) ps) gi pos hay cs ->
  skipn pos hay = instantiate (cap_fun ps gi cs hay) ps /\ (forall n, sep_free sepb (cap_fun ps gi cs hay n) = true).
Proof.
  induction ps as [|p ps IH]; intros gi pos HG Hnd H; cbn [map spans] in H.
  - split; [exact H|intros n; reflexivity].
  - destruct p as [c|m]; cbn [ctok] in H; cbn [spans] in H.
    + destruct H as (y & r & E & Hc & H). unfold char_eq in Hc. cbn [andb] in Hc. rewrite orb_false_r in Hc. apply N.eqb_eq in Hc. subst y.
      destruct (IH gi (S pos) HG Hnd H) as [I1 I2]. split; [|exact I2].
      unfold instantiate. cbn [flat_map inst_piece app cap_fun]. rewrite E. f_equal. rewrite <- (skipn_cons_S pos hay c r E). exact I1.
    + destruct H as (k & Hlk & Hg & H). cbn [refs flat_map app] in Hnd. inversion Hnd as [|x l Hnin Hnd']; subst.
      assert (HG' : forall n whole p k, In n (refs ps) -> G_rx false (regex_of markers n) whole p k = true -> sep_free sepb (firstn k (skipn p whole)) = true).
      { intros n whole p0 k0 Hn. apply HG. cbn [refs flat_map app]. right. exact Hn. }
      destruct (IH (S gi) (pos + k) HG' Hnd' H) as [I1 I2].
      assert (Hval : cap_fun (PRef m :: ps) gi cs hay m = firstn k (skipn pos hay)).
      { cbn [cap_fun]. rewrite str_eqb_refl, Hlk. f_equal. lia. }
      split.
      * unfold instantiate. cbn [flat_map inst_piece]. rewrite Hval. fold (instantiate (cap_fun (PRef m :: ps) gi cs hay) ps).
        rewrite (instantiate_ext _ (cap_fun ps (S gi) cs hay) ps).
        { rewrite <- I1, <- skipn_add. symmetry. apply firstn_skipn. }
        intros n Hn. cbn [cap_fun]. destruct (str_eqb m n) eqn:E; [|reflexivity]. apply str_eqb_spec in E. subst n. contradiction.
      * intros n. cbn [cap_fun]. destruct (str_eqb m n) eqn:E; [|apply I2]. rewrite Hlk. replace (pos + k - pos) with k by lia.
        apply (HG m hay pos k); [cbn [refs flat_map app]; left; reflexivity|exact Hg].
Qed.

(* the captures of the executable engine are the instantiated values *)
Theorem rx_captures_are_values markers sepb (val : str -> str) ps cs :
  forallb cap_simple (map (ctok markers) ps) = true -> NoDup (refs ps) ->
  (forall n whole p k, In n (refs ps) -> G_rx false (regex_of markers n) whole p k = true -> sep_free sepb (firstn k (skipn p whole)) = true) ->
  sep_delimited sepb ps = true -> (forall n, sep_free sepb (val n) = true) ->
  rx_captures false (ch_caret :: render (map (ctok markers) ps) ++ [ch_dollar]) (instantiate val ps) = Some cs ->
  forall n, In (PRef n) ps -> cap_fun ps 1 cs (instantiate val ps) n = val n.
Proof.
  intros Hsimple Hnd HG Hd Hv Hc. pose proof (rx_captures_valid_parse false _ _ _ Hsimple Hc) as Hsp.
  destruct (spans_instantiate markers sepb _ cs ps 1 0 HG Hnd Hsp) as [I1 I2]. cbn [skipn] in I1.
  intros n Hin. apply (unique_parse sepb val (cap_fun ps 1 cs (instantiate val ps)) ps Hd Hv I2 (eq_sym I1) n Hin).
Qed.
