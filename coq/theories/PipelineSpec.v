(* PipelineSpec.v — the status explain / impact report, read off the contributing window of the matched rules
   (composition of RIO.PipelineProofs.analysis_status with the C05 theorem c05_status of RIO.ActionProofs). *)
Require Import RIO.Base RIO.Headers RIO.HeadersSpec RIO.BodyText RIO.ActionModel RIO.ActionSpec RIO.ActionProofs RIO.Pipeline RIO.PipelineProofs.

Lemma get_status_code_keeps_status a c : a_status (snd (get_status_code a c)) = a_status a.
Proof. unfold get_status_code. destruct (a_status a) as [s|] eqn:E; [destruct (scu_get s c); cbn; exact E|cbn; exact E]. Qed.

Lemma get_status_code_after a c d : fst (get_status_code (snd (get_status_code a c)) d) = fst (get_status_code a d).
Proof.
  unfold get_status_code at 1 3. rewrite get_status_code_keeps_status.
  destruct (a_status a) as [s|]; [destruct (scu_get s d)|]; reflexivity.
Qed.

Section PipelineSpec.
Variable lower : str -> str.
Variable table : list (str * hkind).

(* the reported status: the request-phase decision of the window when there is one, otherwise the window's decision
   for the backend code the example stands for *)
Theorem analysis_status_is_window_status rules skipped ov example_code skeleton :
  Forall sampling_decided rules ->
  rs_status (analysis_of_rules lower table rules skipped ov example_code skeleton)
  = (let W := window (eligible (sort_rules rules) ov) in
     if N.eqb (status_spec W 0) 0 then status_spec W (example_backend example_code) else status_spec W 0).
Proof.
  intros Hd. unfold analysis_of_rules. rewrite analysis_status. cbv zeta.
  rewrite get_status_code_after.
  assert (Hr : rvs_ok []) by (unfold rvs_ok; constructor).
  rewrite !(c05_status rules skipped ov [] Hd Hr). reflexivity.
Qed.
End PipelineSpec.
