(* MatcherSpec.v — what it means for a matcher to implement a flat list of routes.
   [repr m L]: the matcher [m] stores exactly the routes of [L] (a duplicate-free list of routes with
   unique ids, taken up to permutation).  Every matcher of RIO.Matchers is shown to satisfy [mspec] for
   the conjunction of the trigger predicates it and its sub-matchers are responsible for; C01 and C02
   are corollaries at the top (RIO.RouterProofs). *)
Require Import RIO.Base RIO.Route RIO.Layer.

Definition ids (L : list route) : list str := map rt_id L.
Definition without_id (id : str) (L : list route) : list route := filter (fun r => negb (str_eqb (rt_id r) id)) L.
Definition without_ids (xs : list str) (L : list route) : list route := filter (fun r => negb (mem_str (rt_id r) xs)) L.
Definition find_id (id : str) (L : list route) : option route := find (fun r => str_eqb (rt_id r) id) L.

(* representation: operations preserve "stores exactly L" *)
Record mrep {M : Type} (ops : mops M) (ok : route -> Prop) : Type := {
  repr : M -> list route -> Prop;
  repr_perm : forall m L L', repr m L -> Permutation L L' -> repr m L';
  (* count never undercounts: pruning on count == 0 is sound, count - 1 never underflows *)
  repr_len : forall m L, repr m L -> length L <= m_len ops m;
  repr_new : repr (m_new ops) [];
  repr_insert : forall m L r, repr m L -> NoDup (ids L) -> ~ In (rt_id r) (ids L) -> ok r ->
                repr (m_insert ops r m) (r :: L);
  repr_remove : forall m L id, repr m L -> NoDup (ids L) ->
                repr (fst (m_remove ops id m)) (without_id id L) /\ snd (m_remove ops id m) = find_id id L;
  repr_batch : forall m L xs, repr m L -> NoDup (ids L) -> repr (m_batch_remove ops xs m) (without_ids xs L);
  (* cache warm-up keeps the representation *)
  repr_cache : forall m L limit level, repr m L -> repr (fst (m_cache ops limit level m)) L;
}.
Arguments repr {M ops ok}.
Arguments repr_perm {M ops ok}.
Arguments repr_len {M ops ok}.
Arguments repr_new {M ops ok}.
Arguments repr_insert {M ops ok}.
Arguments repr_remove {M ops ok}.
Arguments repr_batch {M ops ok}.
Arguments repr_cache {M ops ok}.

(* matching with a per-route predicate [sat]: exactly the stored routes satisfying it, each once;
   explain traces list the matched routes *)
Record mspec {M : Type} (ops : mops M) (ok : route -> Prop) (sat : route -> request -> bool) : Type := {
  ms_rep :> mrep ops ok;
  match_nodup : forall m L q, repr ms_rep m L -> NoDup (ids L) -> NoDup (m_match ops q m);
  match_in : forall m L q r, repr ms_rep m L -> NoDup (ids L) -> (In r (m_match ops q m) <-> In r L /\ sat r q = true);
  trace_in : forall m L q r, repr ms_rep m L -> NoDup (ids L) -> (In r (traces_routes (m_trace ops q m)) <-> In r L /\ sat r q = true);
}.
Arguments ms_rep {M ops ok sat}.
Arguments match_nodup {M ops ok sat}.
Arguments match_in {M ops ok sat}.
Arguments trace_in {M ops ok sat}.

(* consequences used everywhere *)
Lemma match_perm {M} (ops : mops M) ok sat (S : mspec ops ok sat) m L q :
  repr S m L -> NoDup (ids L) -> NoDup L -> Permutation (m_match ops q m) (filter (fun r => sat r q) L).
Proof.
  intros Hr Hi Hn. apply NoDup_Permutation.
  - eapply match_nodup; eassumption.
  - apply NoDup_filter. exact Hn.
  - intros r. rewrite (match_in S m L q r Hr Hi), filter_In. tauto.
Qed.

Lemma NoDup_ids_NoDup L : NoDup (ids L) -> NoDup L.
Proof. unfold ids. induction L as [|r L IH]; intros H; [constructor|]. inversion H; subst. constructor; [|auto]. intros Hin. apply H2. apply in_map. exact Hin. Qed.

Lemma ids_without_id id L : NoDup (ids L) -> NoDup (ids (without_id id L)).
Proof.
  unfold ids, without_id. induction L as [|r L IH]; cbn; intros H; [constructor|]. inversion H; subst.
  destruct (negb (str_eqb (rt_id r) id)); cbn; [constructor; [|auto]|auto].
  intros Hin. apply H2. apply in_map_iff in Hin. destruct Hin as (x & Hx & Hin). apply filter_In in Hin. apply in_map_iff. exists x. tauto.
Qed.
Lemma ids_without_ids xs L : NoDup (ids L) -> NoDup (ids (without_ids xs L)).
Proof.
  unfold ids, without_ids. induction L as [|r L IH]; cbn; intros H; [constructor|]. inversion H; subst.
  destruct (negb (mem_str (rt_id r) xs)); cbn; [constructor; [|auto]|auto].
  intros Hin. apply H2. apply in_map_iff in Hin. destruct Hin as (x & Hx & Hin). apply filter_In in Hin. apply in_map_iff. exists x. tauto.
Qed.
