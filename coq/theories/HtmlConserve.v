(* HtmlConserve.v — property C04, content clause, for the HTML stage (RIO.HtmlFilter, model of
   src/filter/html_filter_body.rs and src/filter/html_body_action/*.rs): for EVERY state reachable from the initial
   state, EVERY chunk (any bytes) and whether or not the call takes the error path,
       what the call returns ++ what the stage holds afterwards
   is (what the stage held ++ the chunk) with only insertions of the filter value (append_child / prepend_child,
   with or without css selector, whatever the selector engine answers), resp. with only replacements of whole
   '<' ... '>' segments by the value (replace).  Lifted to whole runs (any chunking, end of stream included).
   The [quiet_tok] restriction of RIO.HtmlSplit.hfb_conservation_partial is gone. *)
Require Import RIO.Base RIO.TokMonad RIO.HtmlTok RIO.BodyText RIO.HtmlFilter RIO.ChainProofs RIO.BodyProofs.
Require Import RIO.TokLogic RIO.HtmlTokProofs RIO.TokShift RIO.HtmlSplit RIO.HtmlEdit RIO.HtmlTagShape.
Close Scope N_scope.
Open Scope nat_scope.

Section Conserve.
Variable lower : str -> str.
Variable sel : str -> str -> bool.
Hypothesis LO : lower_ok lower.

(* the constant part of the visitor: kind, element_tree, css_selector, content *)
Variable K : vkind.
Variable T : list str.
Variable CSS : option str.
Variable C : str.

Definition stat (v : visitor) : Prop := v_kind v = K /\ v_tree v = T /\ v_sel v = CSS /\ v_content v = C.
Definition vwf (v : visitor) : Prop := stat v /\ v_pos v < length T.
Definition HS : bool := match CSS with Some s => negb (is_nil s) | None => false end.

Notation E := (edit_of (K <> VReplace) (K = VReplace) C).

(* the visitor while the stage buffers the target element *)
Definition bufstate (v : visitor) : Prop :=
  match K with
  | VAppend => HS = true /\ v_buffering v = false
  | VPrepend => HS = true /\ v_buffering v = true
  | VReplace => v_buffering v = true
  end.

(* next_enter after a leave is consistent whenever the visitor is at the last level *)
Definition last_ok (v : visitor) (ne : option str) : Prop :=
  forall a, ne = Some a -> S (v_pos v) = length T -> nth_error T (v_pos v) = Some a.

Lemma has_selector_stat v : stat v -> has_selector v = HS.
Proof. intros (_ & _ & Hs & _). unfold has_selector, HS. rewrite Hs. reflexivity. Qed.

Lemma stat_with_pos p v : stat v -> stat (with_pos p v).
Proof. intros H. exact H. Qed.
Lemma stat_with_buffering b v : stat v -> stat (with_buffering b v).
Proof. intros H. exact H. Qed.
Lemma vwf_with_pos p v : stat v -> p < length T -> vwf (with_pos p v).
Proof. intros H Hp. split; [exact H|exact Hp]. Qed.
Lemma vwf_with_buffering b v : vwf v -> vwf (with_buffering b v).
Proof. intros [H Hp]. split; [exact H|exact Hp]. Qed.

Lemma tree_at_ok v : vwf v ->
  tree_at v = (v, nth (v_pos v) T []) /\ nth_error T (v_pos v) = Some (nth (v_pos v) T []).
Proof.
  intros [(_ & Ht & _) Hp]. pose proof (nth_error_nth' T [] Hp) as Hn. unfold tree_at. rewrite Ht, Hn. auto.
Qed.

(* ------------------------------------------------------------------------------------------ the visitors *)
Lemma v_enter_spec v data v' ne nl sb d' : vwf v -> v_buffering v = false ->
  v_enter v data = (v', ne, nl, sb, d') ->
  vwf v' /\ nl = nth_error T (v_pos v) /\
  ((S (v_pos v) < length T /\ v_pos v' = S (v_pos v) /\ ne = nth_error T (v_pos v') /\ sb = false /\ d' = data
      /\ v_buffering v' = false)
   \/ (S (v_pos v) = length T /\ v_pos v' = v_pos v /\ ne = None /\
       ((sb = false /\ v_buffering v' = false /\ E data d' /\ (K <> VPrepend -> d' = data))
        \/ (sb = true /\ d' = data /\ bufstate v')))).
Proof.
  intros W Hb H. destruct (tree_at_ok v W) as [Eta Enth]. unfold v_enter in H. rewrite Eta in H.
  destruct W as [St Hp]. pose proof St as (Hk & Ht & Hs & Hc). rewrite Ht in H.
  destruct (v_pos v + 1 <? length T) eqn:El.
  - apply Nat.ltb_lt in El.
    assert (W1 : vwf (with_pos (S (v_pos v)) v)) by (apply vwf_with_pos; [exact St|lia]).
    destruct (tree_at_ok _ W1) as [Eta1 Enth1]. rewrite Eta1 in H. injection H as <- <- <- <- <-.
    split; [exact W1|]. split; [symmetry; exact Enth|]. left. cbn [with_pos v_pos v_buffering].
    repeat split; try lia; auto.
  - apply Nat.ltb_ge in El. rewrite Hk in H. unfold bufstate.
    pose proof (has_selector_stat v St) as Ehs.
    destruct K eqn:EK.
    + injection H as <- <- <- <- <-. split; [split; assumption|]. split; [symmetry; exact Enth|]. right.
      repeat split; try lia. rewrite Ehs. destruct HS.
      * right. auto.
      * left. repeat split; auto. apply edit_refl.
    + rewrite Ehs in H. destruct HS.
      * injection H as <- <- <- <- <-. split; [apply vwf_with_buffering; split; assumption|]. split; [symmetry; exact Enth|].
        right. cbn [with_buffering v_pos v_buffering]. repeat split; try lia. right. auto.
      * injection H as <- <- <- <- <-. split; [split; assumption|]. split; [symmetry; exact Enth|]. right.
        repeat split; try lia. left. rewrite Hb. repeat split; auto.
        -- rewrite Hc. apply edit_ins_back. discriminate.
        -- intros Hn. congruence.
    + injection H as <- <- <- <- <-. split; [apply vwf_with_buffering; split; assumption|]. split; [symmetry; exact Enth|].
      right. cbn [with_buffering v_pos v_buffering]. repeat split; try lia. right. auto.
Qed.

(* the position after the common "step back" of leave *)
Definition back (cond : bool) (v0 : visitor) : visitor * option str :=
  if cond then let v' := with_pos (pred (v_pos v0)) v0 in let '(v'', s) := tree_at v' in (v'', Some s)
  else (v0, None).

Lemma back_spec cond v : vwf v -> (cond = true -> 0 < v_pos v) ->
  exists nl, back cond v = (if cond then with_pos (pred (v_pos v)) v else v, nl).
Proof.
  intros W Hc. unfold back. destruct cond; [|eexists; reflexivity].
  destruct W as [St Hp].
  assert (W1 : vwf (with_pos (pred (v_pos v)) v)) by (apply vwf_with_pos; [exact St|lia]).
  destruct (tree_at_ok _ W1) as [Eta1 _]. rewrite Eta1. eexists; reflexivity.
Qed.

Lemma v_leave_spec v data v' ne nl d' : vwf v -> v_buffering v = false ->
  v_leave lower sel v data = ROk (v', ne, nl, d') ->
  vwf v' /\ v_buffering v' = false /\ last_ok v' ne /\ E data d' /\ (K = VPrepend -> d' = data).
Proof.
  intros W Hb H. destruct (tree_at_ok v W) as [Eta Enth]. unfold v_leave in H. rewrite Eta in H.
  pose proof W as [St Hp]. pose proof St as (Hk & Ht & Hs & Hc).
  assert (Hcnd : (0 <? v_pos v) = true -> 0 < v_pos v) by (apply Nat.ltb_lt).
  destruct (back_spec (0 <? v_pos v) v W Hcnd) as [nl0 Eb]. unfold back in Eb.
  set (v1 := if 0 <? v_pos v then with_pos (pred (v_pos v)) v else v) in *.
  assert (W1 : vwf v1).
  { unfold v1. destruct (0 <? v_pos v); [apply vwf_with_pos; [exact St|lia]|exact W]. }
  assert (B1 : v_buffering v1 = false) by (unfold v1; destruct (0 <? v_pos v); exact Hb).
  assert (L1 : last_ok v1 (Some (nth (v_pos v) T []))).
  { unfold v1. intros a Ha Hl. injection Ha as <-. destruct (0 <? v_pos v); cbn [with_pos v_pos] in *.
    - specialize (Hcnd eq_refl). lia.
    - exact Enth. }
  assert (C1 : v_content v1 = C) by (destruct W1 as [(_ & _ & _ & X) _]; exact X).
  assert (G : forall d, E data d -> (K = VPrepend -> d = data) ->
            ROk (v1, Some (nth (v_pos v) T []), nl0, d) = ROk (v', ne, nl, d') ->
            vwf v' /\ v_buffering v' = false /\ last_ok v' ne /\ E data d' /\ (K = VPrepend -> d' = data)).
  { intros d Hd Hpd Hq. injection Hq as <- <- <- <-. auto. }
  destruct (v_kind v) eqn:EKv.
  - (* append *)
    rewrite Eb in H.
    destruct (length (v_tree v) <=? v_pos v + 1); [|apply (G data); [apply edit_refl|reflexivity|exact H]].
    destruct (has_selector v1).
    + destruct (negb (sel data (selector v1))); [|apply (G data); [apply edit_refl|reflexivity|exact H]].
      destruct (append_child lower data (v_content v1)) as [d|] eqn:Ea; [|discriminate].
      apply (G d); [|congruence|exact H]. rewrite C1 in Ea. apply inserted_at_edit; [congruence|].
      apply (append_child_ins lower LO). exact Ea.
    + apply (G (v_content v1 ++ data)); [|congruence|exact H]. rewrite C1. apply edit_ins_front. congruence.
  - (* prepend *)
    rewrite Eb in H. rewrite B1 in H. cbn [andb] in H. apply (G data); [apply edit_refl|reflexivity|exact H].
  - (* replace *)
    rewrite Hb in H. cbn [negb] in H. rewrite andb_true_r in H. rewrite Eb in H.
    rewrite B1 in H. apply (G data); [apply edit_refl|reflexivity|exact H].
Qed.

(* leave while the stage buffers the target element (the visitor is at the last level) *)
Lemma v_leave_spec_buf v data v' ne nl d' : vwf v -> S (v_pos v) = length T -> bufstate v ->
  v_leave lower sel v data = ROk (v', ne, nl, d') ->
  vwf v' /\ v_buffering v' = false /\ last_ok v' ne /\ ((K = VReplace -> lt_gt data) -> E data d').
Proof.
  intros W Hl Hbs H. pose proof W as [St Hp]. pose proof St as (Hk & Ht & Hs & Hc).
  destruct (v_kind v) eqn:EKv; unfold bufstate in Hbs; rewrite <- Hk in Hbs.
  - (* append: the visitor itself is not buffering *)
    destruct Hbs as [_ Hb]. destruct (v_leave_spec v data v' ne nl d' W Hb H) as (H1 & H2 & H3 & H4 & _). auto.
  - (* prepend *)
    destruct Hbs as [Hhs Hb].
    destruct (tree_at_ok v W) as [Eta Enth]. unfold v_leave in H. rewrite Eta, EKv in H.
    assert (Hcnd : (0 <? v_pos v) = true -> 0 < v_pos v) by (apply Nat.ltb_lt).
    destruct (back_spec (0 <? v_pos v) v W Hcnd) as [nl0 Eb]. unfold back in Eb. rewrite Eb in H.
    set (v1 := if 0 <? v_pos v then with_pos (pred (v_pos v)) v else v) in *.
    assert (W1 : vwf v1).
    { unfold v1. destruct (0 <? v_pos v); [apply vwf_with_pos; [exact St|lia]|exact W]. }
    assert (B1 : v_buffering v1 = true) by (unfold v1; destruct (0 <? v_pos v); exact Hb).
    assert (L1 : last_ok (with_buffering false v1) (Some (nth (v_pos v) T []))).
    { unfold v1. intros a Ha Hl'. injection Ha as <-. destruct (0 <? v_pos v); cbn [with_buffering with_pos v_pos] in *.
      - specialize (Hcnd eq_refl). lia.
      - exact Enth. }
    rewrite B1, (has_selector_stat v1 (proj1 W1)), Hhs in H. cbn [andb] in H.
    assert (G : forall d, E data d ->
              ROk (with_buffering false v1, Some (nth (v_pos v) T []), nl0, d) = ROk (v', ne, nl, d') ->
              vwf v' /\ v_buffering v' = false /\ last_ok v' ne /\ ((K = VReplace -> lt_gt data) -> E data d')).
    { intros d Hd Hq. injection Hq as <- <- <- <-. split; [apply vwf_with_buffering; exact W1|]. auto. }
    destruct (negb (sel data (selector (with_buffering false v1)))); [|apply (G data); [apply edit_refl|exact H]].
    destruct (prepend_child lower data (v_content (with_buffering false v1))) as [d|] eqn:Ea; [|discriminate].
    apply (G d); [|exact H]. cbn [with_buffering v_content] in Ea.
    assert (C1 : v_content v1 = C) by (destruct W1 as [(_ & _ & _ & X) _]; exact X). rewrite C1 in Ea.
    apply inserted_at_edit; [congruence|]. apply (prepend_child_ins lower LO). exact Ea.
  - (* replace *)
    rename Hbs into Hb.
    destruct (tree_at_ok v W) as [Eta Enth]. unfold v_leave in H. rewrite Eta, EKv in H.
    rewrite Hb in H. cbn [negb] in H. rewrite andb_false_r in H. rewrite Hb in H.
    assert (L1 : last_ok (with_buffering false v) (Some (nth (v_pos v) T []))).
    { intros a Ha _. injection Ha as <-. exact Enth. }
    assert (G : forall d, ((K = VReplace -> lt_gt data) -> E data d) ->
              ROk (with_buffering false v, Some (nth (v_pos v) T []), @None str, d) = ROk (v', ne, nl, d') ->
              vwf v' /\ v_buffering v' = false /\ last_ok v' ne /\ ((K = VReplace -> lt_gt data) -> E data d')).
    { intros d Hd Hq. injection Hq as <- <- <- <-. split; [apply vwf_with_buffering; exact W|]. auto. }
    assert (Hrep : (K = VReplace -> lt_gt data) -> E data (v_content (with_buffering false v))).
    { intros Hsp. cbn [with_buffering v_content]. rewrite Hc. apply edit_repl_whole; [congruence|]. apply Hsp. congruence. }
    destruct (negb (has_selector (with_buffering false v))); [apply (G _ Hrep H)|].
    destruct (sel data (selector (with_buffering false v))); [apply (G _ Hrep H)|].
    apply (G data); [intros _; apply edit_refl|exact H].
Qed.

(* --------------------------------------------------------------------------------------- the stage's state *)
(* what is reachable: the visitor's position is in range; either nothing is buffered, the visitor is not
   buffering, and at the last level the stage waits for that level's element; or exactly one buffer is open, for
   the element at the last level, whose end tag is the only thing the stage waits for *)
Definition core (F : hfb) : Prop :=
  vwf (f_visitor F) /\
  match f_buffers F with
  | [] => v_buffering (f_visitor F) = false /\ last_ok (f_visitor F) (f_enter F)
  | [(a, b)] => f_enter F = None /\ f_leave F = Some a /\ S (v_pos (f_visitor F)) = length T /\ bufstate (f_visitor F)
  | _ => False
  end.

Definition Inv (F : hfb) : Prop :=
  core F /\ (forall a b rest, f_buffers F = (a, b) :: rest -> starts_lt b).

Lemma lt_gt_starts x : lt_gt x -> starts_lt x.
Proof. intros [m ->]. eexists; reflexivity. Qed.
Lemma starts_lt_app b x : starts_lt b -> starts_lt (b ++ x).
Proof. intros [b' ->]. eexists; reflexivity. Qed.
Lemma lt_gt_app b x : starts_lt b -> lt_gt x -> lt_gt (b ++ x).
Proof. intros [b' ->] [m ->]. exists (b' ++ LT :: m). cbn [app]. rewrite <- app_assoc. reflexivity. Qed.

Lemma opt_is_true o s : opt_is o s = true -> o = Some s.
Proof. unfold opt_is. destruct o as [x|]; [|discriminate]. intros H. apply str_eqb_spec in H. congruence. Qed.

Lemma on_start_tag_spec F tag data F1 d1 : core F -> on_start_tag F tag data = (F1, d1) ->
  match f_buffers F with
  | [] => (core F1 /\ f_buffers F1 = [] /\ E data d1 /\ (K <> VPrepend -> d1 = data))
          \/ (core F1 /\ f_buffers F1 = [(tag, [])] /\ d1 = data)
  | _ => F1 = F /\ d1 = data
  end.
Proof.
  intros [W Hc] H. unfold on_start_tag in H.
  destruct (f_buffers F) as [|[a b] [|p rest]] eqn:EB; [| |destruct Hc].
  - destruct Hc as [Hb Hl].
    destruct (opt_is (f_enter F) tag) eqn:Eo.
    + apply opt_is_true in Eo.
      destruct (v_enter (f_visitor F) data) as [[[[v' ne] nl] sb] nb] eqn:Ev.
      destruct (v_enter_spec _ _ _ _ _ _ _ W Hb Ev) as (W' & Hnl & Hcase). injection H as <- <-.
      destruct Hcase as [(H1 & H2 & H3 & -> & -> & H6)|(H1 & H2 & -> & [(-> & H4 & H5 & H6)|(-> & -> & H6)])].
      * left. unfold core. cbn [f_visitor f_buffers f_enter]. rewrite ?EB. repeat split; auto; try apply W'.
        -- intros a Ha _. congruence.
        -- apply edit_refl.
      * left. unfold core. cbn [f_visitor f_buffers f_enter]. rewrite ?EB. repeat split; auto; try apply W'.
        intros a Ha _. discriminate.
      * right. unfold core. cbn [f_visitor f_buffers f_enter f_leave]. repeat split; auto; try apply W'; try lia.
        rewrite Hnl. apply (Hl tag Eo H1).
    + injection H as <- <-. left. unfold core. rewrite ?EB. repeat split; auto; try apply W. apply edit_refl.
  - destruct Hc as (He & _). rewrite He in H. cbn [opt_is] in H. injection H as <- <-. auto.
Qed.

Lemma on_end_tag_spec F tag data F1 d1 : core F -> on_end_tag lower sel F tag data = ROk (F1, d1) ->
  match f_buffers F with
  | [] => core F1 /\ f_buffers F1 = [] /\ E data d1 /\ (K = VPrepend -> d1 = data)
  | [(a, b)] => (str_eqb a tag = false /\ core F1 /\ f_buffers F1 = [(a, b)] /\ d1 = data)
                \/ (core F1 /\ f_buffers F1 = [] /\ ((K = VReplace -> lt_gt (b ++ data)) -> E (b ++ data) d1))
  | _ => True
  end.
Proof.
  intros [W Hc] H. unfold on_end_tag in H.
  destruct (f_buffers F) as [|[a b] [|p rest]] eqn:EB; [| |exact I].
  - destruct Hc as [Hb Hl]. destruct (opt_is (f_leave F) tag).
    + destruct (v_leave lower sel (f_visitor F) data) as [[[[v' ne] nl] nb]|] eqn:Ev; [|discriminate].
      destruct (v_leave_spec _ _ _ _ _ _ W Hb Ev) as (W' & Hb' & Hl' & HE & HP).
      cbn [f_enter f_leave f_visitor f_buffers f_last f_raw_tag f_in_error] in H. rewrite ?EB in H. injection H as <- <-.
      unfold core. cbn [f_visitor f_buffers f_enter]. auto 10.
    + rewrite ?EB in H. injection H as <- <-.
      unfold core. cbn [f_visitor f_buffers f_enter]. repeat split; auto; try apply W. apply edit_refl.
  - destruct Hc as (He & Hlv & Hlast & Hbs). rewrite Hlv in H. cbn [opt_is] in H.
    destruct (str_eqb a tag) eqn:Eat.
    +      destruct (v_leave lower sel (f_visitor F) (b ++ data)) as [[[[v' ne] nl] nb]|] eqn:Ev; [|discriminate].
      destruct (v_leave_spec_buf _ _ _ _ _ _ W Hlast Hbs Ev) as (W' & Hb' & Hl' & HE).
      cbn [f_enter f_leave f_visitor f_buffers f_last f_raw_tag f_in_error] in H. rewrite ?EB in H. cbn [tl] in H.
      injection H as <- <-. right. unfold core. cbn [f_visitor f_buffers f_enter]. auto 10.
    + rewrite ?EB in H. injection H as <- <-. left.
      unfold core. cbn [f_visitor f_buffers f_enter f_leave]. auto 10.
Qed.

(* ------------------------------------------------------------------------------------------ one token *)
Lemma K_prepend_dec : K = VPrepend \/ K <> VPrepend.
Proof. destruct K; auto; right; discriminate. Qed.

(* a start tag immediately closed: void element or self-closing tag *)
Lemma start_end_spec F tag td F2 d2 : Inv F -> lt_gt td ->
  (let '(F1, d1) := on_start_tag F tag td in on_end_tag lower sel F1 tag d1) = ROk (F2, d2) ->
  core F2 /\
  match f_buffers F with
  | [] => f_buffers F2 = [] /\ E td d2
  | [(a, b)] => (f_buffers F2 = [(a, b)] /\ d2 = td) \/ (f_buffers F2 = [] /\ E (b ++ td) d2)
  | _ => False
  end.
Proof.
  intros [Hc Hs] Hsh H. destruct (on_start_tag F tag td) as [F1 d1] eqn:Es.
  pose proof (on_start_tag_spec F tag td F1 d1 Hc Es) as S1.
  destruct (f_buffers F) as [|[a b] [|p rest]] eqn:EB.
  - destruct S1 as [(c1 & b1 & e1 & p1)|(c1 & b1 & ->)].
    + pose proof (on_end_tag_spec F1 tag d1 F2 d2 c1 H) as S2. rewrite b1 in S2. destruct S2 as (c2 & b2 & e2 & p2).
      split; [exact c2|]. split; [exact b2|].
      destruct K_prepend_dec as [Hk|Hk].
      * rewrite (p2 Hk). exact e1.
      * rewrite (p1 Hk) in e2. exact e2.
    + pose proof (on_end_tag_spec F1 tag td F2 d2 c1 H) as S2. rewrite b1 in S2.
      destruct S2 as [(Hne & _)|(c2 & b2 & e2)]; [rewrite str_eqb_refl in Hne; discriminate|].
      split; [exact c2|]. split; [exact b2|]. apply e2. intros _. exact Hsh.
  - destruct S1 as [-> ->].
    pose proof (on_end_tag_spec F tag td F2 d2 Hc H) as S2. rewrite EB in S2.
    destruct S2 as [(_ & c2 & b2 & ->)|(c2 & b2 & e2)]; (split; [exact c2|]); [left; auto|right].
    split; [exact b2|]. apply e2. intros _. apply lt_gt_app; [|exact Hsh]. apply (Hs a b []). reflexivity.
  - destruct Hc as [_ Hm]. rewrite EB in Hm. destruct Hm.
Qed.

Lemma handle_tok_spec F t F2 d2 : Inv F -> tag_shaped t ->
  handle_tok lower sel F (t_tk t) (t_td t) (t_nm t) = ROk (F2, d2) ->
  core F2 /\
  match f_buffers F with
  | [] => (f_buffers F2 = [] /\ E (t_td t) d2) \/ (exists a, f_buffers F2 = [(a, [])] /\ d2 = t_td t /\ starts_lt d2)
  | [(a, b)] => (f_buffers F2 = [(a, b)] /\ d2 = t_td t) \/ (f_buffers F2 = [] /\ E (b ++ t_td t) d2)
  | _ => False
  end.
Proof.
  intros HI Hsh H. pose proof HI as [Hc Hs].
  assert (Hid : ROk (F, t_td t) = ROk (F2, d2) ->
     core F2 /\
     match f_buffers F with
     | [] => (f_buffers F2 = [] /\ E (t_td t) d2) \/ (exists a, f_buffers F2 = [(a, [])] /\ d2 = t_td t /\ starts_lt d2)
     | [(a, b)] => (f_buffers F2 = [(a, b)] /\ d2 = t_td t) \/ (f_buffers F2 = [] /\ E (b ++ t_td t) d2)
     | _ => False
     end).
  { intros Hq. injection Hq as <- <-. split; [exact Hc|].
    destruct (f_buffers F) as [|[a b] [|p rest]] eqn:EB.
    - left. split; [reflexivity|apply edit_refl].
    - left. auto.
    - destruct Hc as [_ Hm]. rewrite EB in Hm. destruct Hm. }
  assert (Hse : forall tag, (let '(F1, d1) := on_start_tag F tag (t_td t) in on_end_tag lower sel F1 tag d1) = ROk (F2, d2) ->
     lt_gt (t_td t) ->
     core F2 /\
     match f_buffers F with
     | [] => (f_buffers F2 = [] /\ E (t_td t) d2) \/ (exists a, f_buffers F2 = [(a, [])] /\ d2 = t_td t /\ starts_lt d2)
     | [(a, b)] => (f_buffers F2 = [(a, b)] /\ d2 = t_td t) \/ (f_buffers F2 = [] /\ E (b ++ t_td t) d2)
     | _ => False
     end).
  { intros tag Hq Hlg. destruct (start_end_spec F tag (t_td t) F2 d2 HI Hlg Hq) as [c2 Hm]. split; [exact c2|].
    destruct (f_buffers F) as [|[a b] [|p rest]]; auto. }
  unfold handle_tok in H. unfold tag_shaped in Hsh.
  destruct (t_tk t) eqn:Etk; cbn [is_tag] in Hsh; try (apply Hid; exact H).
  - (* start tag *)
    destruct (t_nm t) as [name|]; [|discriminate]. specialize (Hsh eq_refl).
    destruct (is_void (unwrap_name name)) eqn:Ev.
    + apply (Hse (unwrap_name name)); [|exact Hsh].
      destruct (on_start_tag F (unwrap_name name) (t_td t)) as [F1 d1]. exact H.
    + destruct (on_start_tag F (unwrap_name name) (t_td t)) as [F1 d1] eqn:Es. injection H as <- <-.
      pose proof (on_start_tag_spec F _ _ _ _ Hc Es) as S1.
      destruct (f_buffers F) as [|[a b] [|p rest]] eqn:EB.
      * destruct S1 as [(c1 & b1 & e1 & _)|(c1 & b1 & ->)]; (split; [exact c1|]); [left; auto|right].
        eexists. split; [exact b1|]. split; [reflexivity|]. apply lt_gt_starts. exact Hsh.
      * destruct S1 as [-> ->]. split; [exact Hc|]. left. auto.
      * destruct Hc as [_ Hm]. rewrite EB in Hm. destruct Hm.
  - (* end tag *)
    destruct (t_nm t) as [name|]; [|discriminate]. specialize (Hsh eq_refl).
    pose proof (on_end_tag_spec F _ _ _ _ Hc H) as S2.
    destruct (f_buffers F) as [|[a b] [|p rest]] eqn:EB.
    + destruct S2 as (c2 & b2 & e2 & _). split; [exact c2|]. left. auto.
    + destruct S2 as [(_ & c2 & b2 & ->)|(c2 & b2 & e2)]; (split; [exact c2|]); [left; auto|right].
      split; [exact b2|]. apply e2. intros _. apply lt_gt_app; [|exact Hsh]. apply (Hs a b []). reflexivity.
    + destruct Hc as [_ Hm]. rewrite EB in Hm. destruct Hm.
  - (* self-closing tag *)
    destruct (t_nm t) as [name|]; [|discriminate]. specialize (Hsh eq_refl).
    apply (Hse (unwrap_name name)); [|exact Hsh].
    destruct (on_start_tag F (unwrap_name name) (t_td t)) as [F1 d1]. exact H.
Qed.

Lemma heldb_nil F : f_buffers F = [] -> heldb F = [].
Proof. intros H. unfold heldb. rewrite H. reflexivity. Qed.
Lemma heldb_one F a b : f_buffers F = [(a, b)] -> heldb F = b.
Proof. intros H. unfold heldb. rewrite H. cbn. rewrite !app_nil_r. reflexivity. Qed.

Definition step_ok (F : hfb) (td o1 : list N) (F' : hfb) : Prop :=
  (o1 = [] /\ heldb F' = heldb F ++ td) \/ (heldb F' = [] /\ E (heldb F ++ td) o1).

Lemma proc_spec F t out F' out' : Inv F -> tag_shaped t -> proc lower sel F t out = ROk (F', out') ->
  Inv F' /\ exists o1, out' = out ++ o1 /\ step_ok F (t_td t) o1 F'.
Proof.
  intros HI Hsh H. unfold proc in H.
  destruct (handle_tok lower sel F (t_tk t) (t_td t) (t_nm t)) as [[F2 d2]|] eqn:Eh; [|discriminate].
  destruct (handle_tok_spec F t F2 d2 HI Hsh Eh) as [c2 Hm]. destruct HI as [Hc Hs].
  injection H as H. unfold emit in H. unfold step_ok.
  destruct (f_buffers F) as [|[a b] [|p rest]] eqn:EB; [| |destruct Hm].
  - rewrite (heldb_nil F EB). cbn [app]. destruct Hm as [(b2 & e2)|(a & b2 & -> & Hst)].
    + rewrite b2 in H. injection H as <- <-. split.
      * split; [exact c2|]. intros a' b' rest' Hq. rewrite b2 in Hq. discriminate.
      * exists d2. split; [reflexivity|]. right. split; [apply heldb_nil; exact b2|exact e2].
    + rewrite b2 in H. injection H as <- <-. split.
      * split.
        -- destruct c2 as [W2 Hm2]. rewrite b2 in Hm2. split; [exact W2|]. cbn [f_buffers f_enter f_leave f_visitor]. exact Hm2.
        -- intros a' b' rest' Hq. cbn [f_buffers] in Hq. injection Hq as _ <- _. exact Hst.
      * exists []. split; [rewrite app_nil_r; reflexivity|]. left. split; [reflexivity|].
        erewrite heldb_one; [|cbn [f_buffers]; reflexivity]. reflexivity.
  - rewrite (heldb_one F a b EB). destruct Hm as [(b2 & ->)|(b2 & e2)].
    + rewrite b2 in H. injection H as <- <-. split.
      * split.
        -- destruct c2 as [W2 Hm2]. rewrite b2 in Hm2. split; [exact W2|]. cbn [f_buffers f_enter f_leave f_visitor]. exact Hm2.
        -- intros a' b' rest' Hq. cbn [f_buffers] in Hq. injection Hq as _ <- _. apply starts_lt_app. apply (Hs a b []). reflexivity.
      * exists []. split; [rewrite app_nil_r; reflexivity|]. left. split; [reflexivity|].
        erewrite heldb_one; [|cbn [f_buffers]; reflexivity]. reflexivity.
    + rewrite b2 in H. injection H as <- <-. split.
      * split; [exact c2|]. intros a' b' rest' Hq. rewrite b2 in Hq. discriminate.
      * exists d2. split; [reflexivity|]. right. split; [apply heldb_nil; exact b2|exact e2].
Qed.

(* ------------------------------------------------------------------------------------------ one chunk *)
Lemma Inv_set_hold F r l : Inv F -> Inv (set_hold F r l).
Proof. intros H. exact H. Qed.

Lemma spec_from_edit L rt rest : forall F out F' out', Inv F -> Forall tag_shaped L ->
  spec_from lower sel L (FEof rt rest) F out = ROk (F', out') ->
  Inv F' /\ exists p o, out' = out ++ o /\ heldb F ++ concat (map t_td L) ++ rest = p ++ held F' /\ E p o.
Proof.
  induction L as [|t L IH]; intros F out F' out' HI Hsh H; cbn [spec_from] in H.
  - injection H as <- <-. split; [apply Inv_set_hold; exact HI|]. exists [], []. rewrite app_nil_r.
    split; [reflexivity|]. split; [|apply ed_nil]. rewrite held_heldb. reflexivity.
  - inversion Hsh as [|? ? Hsh1 Hsh2]; subst.
    destruct (is_nil L && held_text t && is_feof (FEof rt rest)) eqn:Eh.
    + injection H as <- <-. apply andb_prop in Eh. destruct Eh as [Eh _]. apply andb_prop in Eh. destruct Eh as [Eh _].
      destruct L; [|discriminate]. split; [apply Inv_set_hold; exact HI|]. exists [], []. rewrite app_nil_r.
      split; [reflexivity|]. split; [|apply ed_nil]. rewrite held_heldb. cbn. rewrite app_nil_r. reflexivity.
    + destruct (proc lower sel F t out) as [[F1 out1]|] eqn:Ep; [|discriminate].
      destruct (proc_spec F t out F1 out1 HI Hsh1 Ep) as (HI1 & o1 & -> & Hst).
      destruct (IH F1 _ F' out' HI1 Hsh2 H) as (HI' & p & o & -> & Hsplit & He). split; [exact HI'|].
      cbn [map concat]. destruct Hst as [(-> & Hh)|(Hh & He1)].
      * exists p, o. rewrite app_nil_r. split; [reflexivity|]. split; [|exact He].
        rewrite <- Hsplit, Hh. rewrite <- !app_assoc. reflexivity.
      * exists ((heldb F ++ t_td t) ++ p), (o1 ++ o). split; [rewrite app_assoc; reflexivity|].
        split; [|apply edit_app; assumption].
        rewrite Hh in Hsplit. cbn [app] in Hsplit. rewrite <- !app_assoc. rewrite <- Hsplit. reflexivity.
Qed.

(* the states of a run: not in error and within the invariant, or in error with nothing held *)
Definition Reach (F : hfb) : Prop :=
  stat (f_visitor F) /\ ((f_in_error F = false /\ Inv F) \/ (f_in_error F = true /\ held F = [])).

Lemma TS d g s : tinv wf0 d s -> Forall tag_shaped (fst (toks lower g d s)).
Proof. apply (toks_tag_shaped lower LO). Qed.

Notation TF := (tok_facts_wf0 lower LO).

Theorem hfb_filter_split F input : Reach F ->
  Reach (fst (hfb_filter lower sel F input)) /\
  exists p, held F ++ input = p ++ held (fst (hfb_filter lower sel F input))
            /\ E p (snd (hfb_filter lower sel F input)).
Proof.
  intros [Hst [[HE HI]|[HE Hh]]]; unfold hfb_filter; rewrite HE; cbn [fst snd].
  2:{ split; [split; [exact Hst|right; auto]|]. exists input. rewrite Hh, app_nil_r. split; [reflexivity|apply edit_refl]. }
  destruct (do_filter lower sel F input) as [[F' out]|] eqn:ED; cbn [fst snd].
  - pose proof (do_filter_in_error lower sel wf0 TF F input F' out ED) as HE'. rewrite HE in HE'.
    rewrite (do_filter_spec lower sel wf0 TF) in ED.
    set (d := f_last F ++ input) in *. set (s0 := new_fragment lower (f_raw_tag F)) in *.
    assert (Hs0 : tinv wf0 d s0) by (apply (tinv_new lower wf0 TF)).
    pose proof (TS d (fuel_of d) s0 Hs0) as Hsh.
    destruct (toks lower (fuel_of d) d s0) as [L fin] eqn:Et. cbn [fst snd] in *.
    destruct fin as [|rt rest|].
    + rewrite spec_from_err in ED. discriminate.
    + destruct (spec_from_edit L rt rest F [] F' out HI Hsh ED) as (HI' & p & o & Ho & Hsplit & He).
      cbn [app] in Ho. subst o.
      assert (Hst' : stat (f_visitor F')) by (destruct HI' as [[[X _] _] _]; exact X).
      split; [split; [exact Hst'|left; auto]|]. exists p. split; [|exact He].
      rewrite <- Hsplit.
      pose proof (toks_lossless lower sel wf0 TF d _ s0 L rt rest Hs0 Et) as Hl.
      assert (E0 : raw_end s0 = 0) by apply new_fragment_raw_end. rewrite E0 in Hl. cbn [skipn] in Hl.
      rewrite <- Hl. unfold d. rewrite held_heldb. rewrite <- !app_assoc. reflexivity.
    + exfalso. apply (toks_no_fuel lower sel wf0 TF d (fuel_of d) s0 Hs0 (suff_fuel_of sel _ _)). rewrite Et. reflexivity.
  - split; [split; [exact Hst|right; split; reflexivity]|].
    exists (held F ++ input). unfold held at 2. cbn. rewrite app_nil_r. split; [reflexivity|apply edit_refl].
Qed.

(* the statement of the property for one call: returned ++ still held  is  held ++ chunk  edited *)
Corollary hfb_filter_edit F input : Reach F ->
  E (held F ++ input) (snd (hfb_filter lower sel F input) ++ held (fst (hfb_filter lower sel F input))).
Proof.
  intros HR. destruct (hfb_filter_split F input HR) as (_ & p & -> & He). apply edit_suffix. exact He.
Qed.

(* ------------------------------------------------------------------------------------------ whole runs *)
(* one HTML stage fed a list of chunks, then ended: the concatenated output *)
Fixpoint hfb_run (F : hfb) (chunks : list (list N)) : list N :=
  match chunks with
  | [] => snd (hfb_end F)
  | c :: cs => snd (hfb_filter lower sel F c) ++ hfb_run (fst (hfb_filter lower sel F c)) cs
  end.

Theorem hfb_run_edit chunks : forall F, Reach F -> E (held F ++ concat chunks) (hfb_run F chunks).
Proof.
  induction chunks as [|c cs IH]; intros F HR; cbn [hfb_run concat].
  - rewrite app_nil_r. cbn. apply edit_refl.
  - destruct (hfb_filter_split F c HR) as (HR' & p & Hsplit & He).
    rewrite app_assoc, Hsplit, <- app_assoc. apply edit_app; [exact He|]. apply IH. exact HR'.
Qed.

End Conserve.

(* ====================================================================================================== *)
(* The statements, without section parameters.                                                             *)

(* the invariant, for the constants read off the stage's own visitor *)
Definition reach (F : hfb) : Prop :=
  Reach (v_kind (f_visitor F)) (v_tree (f_visitor F)) (v_sel (f_visitor F)) (v_content (f_visitor F)) F.

Lemma Reach_reach K T CSS C F : Reach K T CSS C F -> reach F.
Proof. intros H. pose proof H as [(Hk & Ht & Hs & Hc) _]. unfold reach. rewrite Hk, Ht, Hs, Hc. exact H. Qed.

(* it holds in the initial state of every stage that HtmlBodyVisitor::new builds ... *)
Lemma reach_new v : v_tree v <> [] -> v_pos v = 0 -> v_buffering v = false -> reach (hfb_new v).
Proof.
  intros Ht Hp Hb. unfold reach, Reach, hfb_new. cbn [f_visitor f_in_error].
  split; [repeat split|]. left. split; [reflexivity|].
  assert (W : vwf (v_kind v) (v_tree v) (v_sel v) (v_content v) v).
  { split; [repeat split|]. rewrite Hp. destruct (v_tree v); [congruence|cbn; lia]. }
  split.
  - split; [exact W|]. cbn [f_buffers f_visitor f_enter]. split; [exact Hb|].
    intros a Ha _. rewrite Hp. unfold tree_at in Ha. cbn [with_pos v_tree v_pos] in Ha.
    destruct (v_tree v) as [|x l]; [congruence|]. cbn in Ha. cbn. exact Ha.
  - intros a b rest Hq. discriminate.
Qed.

Lemma reach_visitor_new h v : visitor_new h = Some v -> reach (hfb_new v).
Proof.
  unfold visitor_new. destruct (is_nil (hf_tree h)) eqn:En; [discriminate|].
  assert (Ht : hf_tree h <> []) by (destruct (hf_tree h); [discriminate|congruence]).
  destruct (hf_kind h); intros H; try discriminate; injection H as <-; apply reach_new; auto.
Qed.

Section Statements.
Variable lower : str -> str.
Variable sel : str -> str -> bool.
Hypothesis LO : lower_ok lower.

Notation filt := (hfb_filter lower sel).

(* ... and every call of filter preserves it, together with the visitor's kind and value *)
Theorem reach_filter F input : reach F ->
  reach (fst (filt F input))
  /\ v_kind (f_visitor (fst (filt F input))) = v_kind (f_visitor F)
  /\ v_content (f_visitor (fst (filt F input))) = v_content (f_visitor F).
Proof.
  intros HR. destruct (hfb_filter_split lower sel LO _ _ _ _ F input HR) as [HR' _].
  split; [exact (Reach_reach _ _ _ _ _ HR')|]. destruct HR' as [(Hk & _ & _ & Hc) _]. auto.
Qed.

(* the states reachable from the initial state of a stage *)
Inductive reachable (v : visitor) : hfb -> Prop :=
| rch_init : reachable v (hfb_new v)
| rch_step F input : reachable v F -> reachable v (fst (filt F input)).

Lemma reachable_reach h v F : visitor_new h = Some v -> reachable v F ->
  reach F /\ v_kind (f_visitor F) = v_kind v /\ v_content (f_visitor F) = v_content v.
Proof.
  intros Hv H. induction H as [|F input _ (IH1 & IH2 & IH3)].
  - split; [exact (reach_visitor_new h v Hv)|]. auto.
  - destruct (reach_filter F input IH1) as (H1 & H2 & H3). split; [exact H1|]. split; congruence.
Qed.

(* ---- one call, any visitor: the edit relation with the flags of the visitor's kind ---- *)
Theorem hfb_call_edit F input : reach F ->
  exists p, held F ++ input = p ++ held (fst (filt F input))
    /\ edit_of (v_kind (f_visitor F) <> VReplace) (v_kind (f_visitor F) = VReplace) (v_content (f_visitor F))
               p (snd (filt F input)).
Proof. intros HR. exact (proj2 (hfb_filter_split lower sel LO _ _ _ _ F input HR)). Qed.

(* ---- insert-only visitors (append_child, prepend_child; with or without css selector) ---- *)
(* strong form: what the stage holds after the call is literally a suffix of (held ++ chunk), and what it
   returns is the rest with only insertions of the value *)
Theorem hfb_insert_only_call_split F input : reach F -> v_kind (f_visitor F) <> VReplace ->
  exists p, held F ++ input = p ++ held (fst (filt F input))
    /\ ins_of (v_content (f_visitor F)) p (snd (filt F input)).
Proof.
  intros HR Hk. destruct (hfb_call_edit F input HR) as (p & Hs & He). exists p. split; [exact Hs|].
  apply (edit_ins_of (v_kind (f_visitor F) = VReplace)); [|exact Hk].
  revert He. apply edit_weaken; auto.
Qed.

Lemma ins_of_suffix v a b t : ins_of v a b -> ins_of v (a ++ t) (b ++ t).
Proof.
  intros H. induction H as [|x inp out _ IH|inp out _ IH]; cbn [app].
  - apply ins_of_refl.
  - apply io_keep. exact IH.
  - rewrite <- app_assoc. apply io_ins. exact IH.
Qed.

Lemma ins_of_app v a b c d : ins_of v a b -> ins_of v c d -> ins_of v (a ++ c) (b ++ d).
Proof.
  intros H1 H2. induction H1 as [|x inp out _ IH|inp out _ IH]; cbn [app].
  - exact H2.
  - apply io_keep. exact IH.
  - rewrite <- app_assoc. apply io_ins. exact IH.
Qed.

Theorem hfb_insert_only_call F input : reach F -> v_kind (f_visitor F) <> VReplace ->
  ins_of (v_content (f_visitor F)) (held F ++ input) (snd (filt F input) ++ held (fst (filt F input))).
Proof.
  intros HR Hk. destruct (hfb_insert_only_call_split F input HR Hk) as (p & -> & Hi). apply ins_of_suffix. exact Hi.
Qed.

(* ---- replace ---- *)
Theorem hfb_replace_call_split F input : reach F -> v_kind (f_visitor F) = VReplace ->
  exists p, held F ++ input = p ++ held (fst (filt F input))
    /\ repl_of (v_content (f_visitor F)) p (snd (filt F input)).
Proof.
  intros HR Hk. destruct (hfb_call_edit F input HR) as (p & Hs & He). exists p. split; [exact Hs|].
  apply (edit_repl_of (v_kind (f_visitor F) <> VReplace)); [|intros Hn; exact (Hn Hk)].
  revert He. apply edit_weaken; auto.
Qed.

Lemma repl_of_refl v x : repl_of v x x.
Proof. induction x as [|a x IH]; [apply ro_nil|apply ro_keep; exact IH]. Qed.

Lemma repl_of_app v a b c d : repl_of v a b -> repl_of v c d -> repl_of v (a ++ c) (b ++ d).
Proof.
  intros H1 H2. induction H1 as [|x inp out _ IH|sp inp out Hsp _ IH]; cbn [app].
  - exact H2.
  - apply ro_keep. exact IH.
  - rewrite <- !app_assoc. apply ro_repl; assumption.
Qed.

Theorem hfb_replace_call F input : reach F -> v_kind (f_visitor F) = VReplace ->
  repl_of (v_content (f_visitor F)) (held F ++ input) (snd (filt F input) ++ held (fst (filt F input))).
Proof.
  intros HR Hk. destruct (hfb_replace_call_split F input HR Hk) as (p & -> & Hi).
  apply repl_of_app; [exact Hi|apply repl_of_refl].
Qed.

(* ---- the error path is covered by the theorems above; explicitly: it releases everything unchanged ---- *)
Theorem hfb_call_error F input : f_in_error F = false -> do_filter lower sel F input = RErr ->
  snd (filt F input) = held F ++ input /\ held (fst (filt F input)) = [].
Proof. intros HE HD. unfold hfb_filter. rewrite HE, HD. cbn. auto. Qed.

(* ---- end of stream: the stage releases exactly what it holds, nothing is inserted or replaced ---- *)
Theorem hfb_end_releases F : hfb_end F = (F, held F).
Proof. reflexivity. Qed.

(* ---- whole runs of one stage: any list of chunks (any bytes, empty chunks, no chunk), then end ---- *)
Notation hrun := (hfb_run lower sel).

Theorem hfb_run_edit_of F chunks : reach F ->
  edit_of (v_kind (f_visitor F) <> VReplace) (v_kind (f_visitor F) = VReplace) (v_content (f_visitor F))
          (held F ++ concat chunks) (hrun F chunks).
Proof. intros HR. exact (hfb_run_edit lower sel LO _ _ _ _ chunks F HR). Qed.

Theorem hfb_insert_only_run F chunks : reach F -> v_kind (f_visitor F) <> VReplace ->
  ins_of (v_content (f_visitor F)) (held F ++ concat chunks) (hrun F chunks).
Proof.
  intros HR Hk. apply (edit_ins_of (v_kind (f_visitor F) = VReplace)); [|exact Hk].
  generalize (hfb_run_edit_of F chunks HR). apply edit_weaken; auto.
Qed.

Theorem hfb_replace_run F chunks : reach F -> v_kind (f_visitor F) = VReplace ->
  repl_of (v_content (f_visitor F)) (held F ++ concat chunks) (hrun F chunks).
Proof.
  intros HR Hk. apply (edit_repl_of (v_kind (f_visitor F) <> VReplace)); [|intros Hn; exact (Hn Hk)].
  generalize (hfb_run_edit_of F chunks HR). apply edit_weaken; auto.
Qed.

(* ---- the same, as FilterBodyAction sees it: a body filter made of one HTML filter ---- *)
Lemma run_one_html F chunks :
  run stage (stage_tf lower sel) stage_te [StHtml F] chunks = hrun F chunks.
Proof.
  revert F. induction chunks as [|c cs IH]; intros F.
  - unfold run. cbn. destruct (held F); reflexivity.
  - rewrite run_cons. cbn [cf stage_tf hfb_run]. destruct (filt F c) as [F' o] eqn:Ef. cbn [fst snd].
    destruct (is_nil o); cbn [fst snd]; rewrite IH; reflexivity.
Qed.

Lemma body_run_one_html h v chunks : visitor_new h = Some v ->
  body_run lower sel true [BFHtml h] chunks = hrun (hfb_new v) chunks.
Proof.
  intros Hv. rewrite body_run_total. cbn [stages_of stage_new]. rewrite Hv. apply run_one_html.
Qed.

Definition insert_only_html (h : html_filter) : Prop :=
  hf_tree h <> [] /\ (hf_kind h = HAppendChild \/ hf_kind h = HPrependChild).

Theorem body_run_html_insert_only h chunks : insert_only_html h ->
  ins_of (hf_value h) (concat chunks) (body_run lower sel true [BFHtml h] chunks).
Proof.
  intros [Ht Hk].
  assert (Hv : exists v, visitor_new h = Some v /\ v_kind v <> VReplace /\ v_content v = hf_value h).
  { unfold visitor_new. destruct (hf_tree h); [congruence|]. cbn [is_nil].
    destruct Hk as [-> | ->]; eexists; (split; [reflexivity|]); cbn; (split; [discriminate|reflexivity]). }
  destruct Hv as (v & Hv & Hkv & Hc). rewrite (body_run_one_html h v chunks Hv). rewrite <- Hc.
  apply (hfb_insert_only_run (hfb_new v) chunks (reach_visitor_new h v Hv) Hkv).
Qed.

Theorem body_run_html_replace h chunks : hf_tree h <> [] -> hf_kind h = HReplace ->
  repl_of (hf_value h) (concat chunks) (body_run lower sel true [BFHtml h] chunks).
Proof.
  intros Ht Hk.
  assert (Hv : exists v, visitor_new h = Some v /\ v_kind v = VReplace /\ v_content v = hf_value h).
  { unfold visitor_new. destruct (hf_tree h); [congruence|]. cbn [is_nil]. rewrite Hk.
    eexists; (split; [reflexivity|]); cbn; (split; reflexivity). }
  destruct Hv as (v & Hv & Hkv & Hc). rewrite (body_run_one_html h v chunks Hv). rewrite <- Hc.
  apply (hfb_replace_run (hfb_new v) chunks (reach_visitor_new h v Hv) Hkv).
Qed.
End Statements.
