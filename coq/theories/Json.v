(* Json.v — the serde data model of the derive(Serialize, Deserialize) types that cross the agent -> proxy boundary
   (Action, Request and what they contain), as DATA: a schema [ty] per Rust type (regenerated from the source on every
   run by tools/gen_tables.py, RIOGen.ExtSerde), a universe of values, and the meaning of the serde attributes fixed
   once here: field order = declaration order; rename; Option = null / absent; #[serde(default)]; unknown fields ignored;
   unit enum variants as (renamed) strings; untagged enum = first variant that deserialises; LinkedHashSet<String> =
   array, duplicates dropped keeping the first.  serde_json's text layer (escaping, number syntax) is below this model:
   the harness parses the crate's JSON text into this AST, keeping the order of object members. *)
Require Import RIO.Base.
Close Scope N_scope.

Inductive json :=
| JNull | JBool (b : bool) | JNum (n : N) | JStr (s : str) | JArr (l : list json) | JObj (o : list (str * json)).

Inductive ty :=
| TStr                        (* String *)
| TOpaque                     (* IpAddr, DateTime<Utc>: serialised as a string by their own Display / parse (oracle) *)
| TU16
| TBool
| TOpt (t : ty)               (* Option<T> *)
| TVec (t : ty)               (* Vec<T> *)
| TSet                        (* LinkedHashSet<String> *)
| TStruct (fs : list field)   (* struct with named fields *)
| TUnitEnum (names : list str)(* enum of unit variants, externally tagged: the (renamed) variant name as a string *)
| TUntagged (vs : list ty)    (* #[serde(untagged)] enum of newtype variants *)
with field := Field (name : str) (dflt : bool) (skip : skipk) (t : ty)   (* serialised name, #[serde(default)], skip_serializing[_if], type *)
with skipk := SkNever | SkIfNone | SkIfSome | SkIfEmpty | SkAlways.

Inductive value :=
| VStr (s : str) | VNum (n : N) | VBool (b : bool)
| VOpt (o : option value) | VList (l : list value) | VRec (l : list value)
| VEnum (i : nat) | VVar (i : nat) (v : value).

Definition f_name (f : field) := match f with Field n _ _ _ => n end.
Definition f_dflt (f : field) := match f with Field _ d _ _ => d end.
Definition f_skip (f : field) := match f with Field _ _ k _ => k end.
Definition f_ty (f : field) := match f with Field _ _ _ t => t end.

(* skip_serializing_if: is this member omitted for this value? *)
Definition skipped (k : skipk) (v : value) : bool :=
  match k, v with
  | SkAlways, _ => true
  | SkIfNone, VOpt None => true
  | SkIfSome, VOpt (Some _) => true
  | SkIfEmpty, VList [] => true
  | SkIfEmpty, VStr [] => true
  | _, _ => false
  end.

(* ------------------------------------------------------------------ Serialize *)
Fixpoint ser (t : ty) (v : value) {struct t} : json :=
  match t, v with
  | TStr, VStr s => JStr s
  | TOpaque, VStr s => JStr s
  | TU16, VNum n => JNum n
  | TBool, VBool b => JBool b
  | TOpt _, VOpt None => JNull
  | TOpt t', VOpt (Some x) => ser t' x
  | TVec t', VList l => JArr (map (ser t') l)
  | TSet, VList l => JArr (map (fun x => match x with VStr s => JStr s | _ => JNull end) l)
  | TStruct fs, VRec l =>
      JObj ((fix go (fs : list field) (l : list value) {struct fs} : list (str * json) :=
               match fs, l with
               | Field n _ sk ft :: fs', x :: l' => if skipped sk x then go fs' l' else (n, ser ft x) :: go fs' l'
               | _, _ => []
               end) fs l)
  | TUnitEnum names, VEnum i => JStr (nth i names [])
  | TUntagged vs, VVar i x =>
      (fix go (vs : list ty) (i : nat) {struct vs} : json :=
         match vs, i with
         | t' :: _, O => ser t' x
         | _ :: vs', S i' => go vs' i'
         | [], _ => JNull
         end) vs i
  | _, _ => JNull
  end.

(* ------------------------------------------------------------------ Deserialize *)
Fixpoint lookup (n : str) (o : list (str * json)) : option json :=
  match o with [] => None | (k, j) :: o' => if str_eqb k n then Some j else lookup n o' end.

Fixpoint mapM {A B} (f : A -> option B) (l : list A) : option (list B) :=
  match l with
  | [] => Some []
  | x :: l' => match f x, mapM f l' with Some y, Some r => Some (y :: r) | _, _ => None end
  end.

Fixpoint index_of (s : str) (names : list str) : option nat :=
  match names with [] => None | n :: names' => if str_eqb n s then Some O else option_map S (index_of s names') end.

(* LinkedHashSet::from_iter: insertion order, a repeated element keeps its first position *)
Fixpoint dedup (seen : list str) (l : list str) : list str :=
  match l with [] => [] | s :: l' => if mem_str s seen then dedup seen l' else s :: dedup (s :: seen) l' end.

(* the Default of a type (for #[serde(default)] fields that are absent) *)
Definition default_of (t : ty) : option value :=
  match t with
  | TStr => Some (VStr []) | TU16 => Some (VNum 0) | TBool => Some (VBool false)
  | TOpt _ => Some (VOpt None) | TVec _ => Some (VList []) | TSet => Some (VList [])
  | _ => None
  end.

(* an absent member: Option fields become None, default fields their Default, anything else is an error *)
Definition missing (d : bool) (t : ty) : option value :=
  match t with
  | TOpt _ => Some (VOpt None)
  | _ => if d then default_of t else None
  end.

Fixpoint de (t : ty) (j : json) {struct t} : option value :=
  match t with
  | TStr | TOpaque => match j with JStr s => Some (VStr s) | _ => None end
  | TU16 => match j with JNum n => if N.ltb n 65536 then Some (VNum n) else None | _ => None end
  | TBool => match j with JBool b => Some (VBool b) | _ => None end
  | TOpt t' => match j with
               | JNull => Some (VOpt None)
               | _ => match de t' j with Some x => Some (VOpt (Some x)) | None => None end
               end
  | TVec t' => match j with JArr l => option_map VList (mapM (de t') l) | _ => None end
  | TSet => match j with
            | JArr l => option_map (fun ss => VList (map VStr (dedup [] ss)))
                          (mapM (fun x => match x with JStr s => Some s | _ => None end) l)
            | _ => None
            end
  | TStruct fs =>
      match j with
      | JObj o =>
          option_map VRec
            ((fix go (fs : list field) {struct fs} : option (list value) :=
                match fs with
                | [] => Some []
                | Field n d _ ft :: fs' =>
                    match (match lookup n o with Some x => de ft x | None => missing d ft end), go fs' with
                    | Some v, Some r => Some (v :: r)
                    | _, _ => None
                    end
                end) fs)
      | _ => None
      end
  | TUnitEnum names => match j with JStr s => option_map VEnum (index_of s names) | _ => None end
  | TUntagged vs =>
      (fix go (vs : list ty) (i : nat) {struct vs} : option value :=
         match vs with
         | [] => None
         | t' :: vs' => match de t' j with Some x => Some (VVar i x) | None => go vs' (S i) end
         end) vs O
  end.

(* ------------------------------------------------------------------ typing of values, well-formed schemas *)
Fixpoint nodup_str (l : list str) : bool :=
  match l with [] => true | s :: l' => negb (mem_str s l') && nodup_str l' end.

Fixpoint has_ty (t : ty) (v : value) {struct t} : bool :=
  match t, v with
  | TStr, VStr _ | TOpaque, VStr _ => true
  | TU16, VNum n => N.ltb n 65536
  | TBool, VBool _ => true
  | TOpt _, VOpt None => true
  | TOpt t', VOpt (Some x) => has_ty t' x
  | TVec t', VList l => forallb (has_ty t') l
  | TSet, VList l => forallb (fun x => match x with VStr _ => true | _ => false end) l
                     && nodup_str (flat_map (fun x => match x with VStr s => [s] | _ => [] end) l)
  | TStruct fs, VRec l =>
      (fix go (fs : list field) (l : list value) {struct fs} : bool :=
         match fs, l with
         | [], [] => true
         | Field _ _ _ ft :: fs', x :: l' => has_ty ft x && go fs' l'
         | _, _ => false
         end) fs l
  | TUnitEnum names, VEnum i => Nat.ltb i (length names)
  | TUntagged vs, VVar i x =>
      (fix go (vs : list ty) (i : nat) {struct vs} : bool :=
         match vs, i with
         | t' :: _, O => has_ty t' x
         | _ :: vs', S i' => go vs' i'
         | [], _ => false
         end) vs i
  | _, _ => false
  end.

(* a typed value of [t] never serialises to null (so Option<t> can tell None from Some) *)
Definition nonnull (t : ty) : bool :=
  match t with TOpt _ | TUntagged _ => false | _ => true end.

Definition required (f : field) : bool := match f_ty f with TOpt _ => false | _ => negb (f_dflt f) end.

Definition struct_fields (t : ty) : list field := match t with TStruct fs => fs | _ => [] end.
Definition is_struct (t : ty) : bool := match t with TStruct _ => true | _ => false end.

(* the earlier variant [a] of an untagged enum cannot swallow a value of the later variant [b]:
   [a] requires a member that [b] never writes *)
Definition rejects (a b : ty) : bool :=
  existsb (fun f => required f && negb (mem_str (f_name f) (map f_name (struct_fields b)))) (struct_fields a).

Fixpoint all_rejects (vs : list ty) : bool :=
  match vs with [] => true | a :: rest => forallb (rejects a) rest && all_rejects rest end.

(* an omitted member must come back as exactly the omitted value: None for an Option, the Default (empty) for a
   defaulted collection or string; skipping Some values, or always, loses information *)
Definition skip_ok (k : skipk) (d : bool) (t : ty) : bool :=
  match k with
  | SkNever => true
  | SkIfNone => match t with TOpt _ => true | _ => false end
  | SkIfEmpty => d && match t with TVec _ | TSet | TStr => true | _ => false end
  | SkIfSome | SkAlways => false
  end.

Fixpoint wf (t : ty) {struct t} : bool :=
  match t with
  | TStr | TOpaque | TU16 | TBool | TSet => true
  | TOpt t' => nonnull t' && wf t'
  | TVec t' => wf t'
  | TStruct fs =>
      nodup_str (map f_name fs)
      && (fix go (fs : list field) {struct fs} : bool := match fs with [] => true | Field _ d sk ft :: fs' => skip_ok sk d ft && wf ft && go fs' end) fs
  | TUnitEnum names => nodup_str names
  | TUntagged vs =>
      forallb is_struct vs && all_rejects vs
      && (fix go (vs : list ty) {struct vs} : bool := match vs with [] => true | t' :: vs' => wf t' && go vs' end) vs
  end.

(* ------------------------------------------------------------------ decidable equality of JSON values (object members in order) *)
Fixpoint json_eqb (a b : json) {struct a} : bool :=
  match a, b with
  | JNull, JNull => true
  | JBool x, JBool y => Bool.eqb x y
  | JNum x, JNum y => N.eqb x y
  | JStr x, JStr y => str_eqb x y
  | JArr l, JArr m =>
      (fix go (l m : list json) {struct l} : bool :=
         match l, m with
         | [], [] => true
         | x :: l', y :: m' => json_eqb x y && go l' m'
         | _, _ => false
         end) l m
  | JObj l, JObj m =>
      (fix go (l m : list (str * json)) {struct l} : bool :=
         match l, m with
         | [], [] => true
         | (k, x) :: l', (k', y) :: m' => str_eqb k k' && json_eqb x y && go l' m'
         | _, _ => false
         end) l m
  | _, _ => false
  end.
