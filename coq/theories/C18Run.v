(* C18Run.v — executable verdicts for C18: the abstract client program the harness ran against the real extern "C"
   functions, and what the recording allocator saw. *)
Require Import RIO.Base RIO.Heap.
Open Scope N_scope.

Record case18 := {
  k_prog : list cop;
  o_mismatch : N;        (* deallocations whose layout differs from the allocation's *)
  o_double_free : N;
  o_leak : N;            (* blocks allocated during the program and still live after it (minimum over two recorded runs) *)
  o_same : bool          (* returned values equal those of the native API; buffer / header contents round-trip *)
}.

Definition model_clean (p : list cop) : bool :=
  match run state0 p with
  | inr s => is_nil (blocks (hp s)) && is_nil (handles s)
  | inl _ => false
  end.

Definition crate_clean (c : case18) : bool := N.eqb (o_mismatch c) 0 && N.eqb (o_double_free c) 0 && N.eqb (o_leak c) 0.

(* bit 1: the model's audit of the program = the allocator's audit of the crate; bit 4: the contract holds on the crate
   (for a protocol-respecting program) *)
Definition verdict18 (c : case18) : N :=
  (vbit (Bool.eqb (model_clean (k_prog c)) (crate_clean c)) 1
   + vbit (well_formed (k_prog c) && crate_clean c && o_same c) 4)%N.
Definition spec_verdict18 (c : case18) : N := vbit (well_formed (k_prog c) && crate_clean c && o_same c) 4.
