(* HtmlEdit.v — the edit relations of property C04 (content clause) and the two re-tokenising insertions.
   [ins_of v inp out]  : out is inp with zero or more insertions of the whole value v, nothing else changed;
   [repl_of v inp out] : out is inp where zero or more disjoint contiguous segments, each of the form '<' ... '>',
                         were each replaced by v, nothing else changed;
   [edit_of ai ar v]   : both kinds of edits, each allowed by a flag (the proofs of RIO.HtmlConserve are done once
                         for this relation; [ins_of] = edits with insertions only, [repl_of] = replacements only).
   [append_child_ins] / [prepend_child_ins]: body_append.rs append_child / body_prepend.rs prepend_child return
   their first argument with the child inserted at one position, or unchanged — for EVERY byte string (no
   well-formedness, no UTF-8 hypothesis): the only facts used are the totality facts of the tokenizer
   (RIO.HtmlTokProofs.next_spec / tag_name_spec). *)
Require Import RIO.Base RIO.TokMonad RIO.HtmlTok RIO.BodyText RIO.HtmlFilter.
Require Import RIO.TokLogic RIO.HtmlTokProofs RIO.TokShift RIO.HtmlSplit.
Close Scope N_scope.
Open Scope nat_scope.

(* ------------------------------------------------------------------------------------------- relations *)
Definition lt_gt (sp : list N) : Prop := exists m, sp = LT :: m ++ [GT].
Definition starts_lt (b : list N) : Prop := exists b', b = LT :: b'.

Inductive ins_of (v : list N) : list N -> list N -> Prop :=          (* ins_of v inp out *)
| io_nil : ins_of v [] []
| io_keep x inp out : ins_of v inp out -> ins_of v (x :: inp) (x :: out)
| io_ins inp out : ins_of v inp out -> ins_of v inp (v ++ out).

Inductive repl_of (v : list N) : list N -> list N -> Prop :=         (* repl_of v inp out *)
| ro_nil : repl_of v [] []
| ro_keep x inp out : repl_of v inp out -> repl_of v (x :: inp) (x :: out)
| ro_repl sp inp out : lt_gt sp -> repl_of v inp out -> repl_of v (sp ++ inp) (v ++ out).

Inductive edit_of (ai ar : Prop) (v : list N) : list N -> list N -> Prop :=
| ed_nil : edit_of ai ar v [] []
| ed_keep x inp out : edit_of ai ar v inp out -> edit_of ai ar v (x :: inp) (x :: out)
| ed_ins inp out : ai -> edit_of ai ar v inp out -> edit_of ai ar v inp (v ++ out)
| ed_repl sp inp out : ar -> lt_gt sp -> edit_of ai ar v inp out -> edit_of ai ar v (sp ++ inp) (v ++ out).

Section EditFacts.
Variables ai ar : Prop.
Variable v : list N.
Notation E := (edit_of ai ar v).

Lemma edit_refl x : E x x.
Proof. induction x as [|a x IH]; [apply ed_nil|apply ed_keep; exact IH]. Qed.

Lemma edit_app a b c d : E a b -> E c d -> E (a ++ c) (b ++ d).
Proof.
  intros H1 H2. induction H1 as [|x inp out _ IH|inp out Hai _ IH|sp inp out Har Hsp _ IH]; cbn [app].
  - exact H2.
  - apply ed_keep. exact IH.
  - rewrite <- app_assoc. apply ed_ins; assumption.
  - rewrite <- !app_assoc. apply ed_repl; assumption.
Qed.

Lemma edit_prefix p a b : E a b -> E (p ++ a) (p ++ b).
Proof. intros H. apply edit_app; [apply edit_refl|exact H]. Qed.

Lemma edit_suffix p a b : E a b -> E (a ++ p) (b ++ p).
Proof. intros H. apply edit_app; [exact H|apply edit_refl]. Qed.

Lemma edit_ins_front x : ai -> E x (v ++ x).
Proof. intros H. apply ed_ins; [exact H|apply edit_refl]. Qed.

Lemma edit_ins_back x : ai -> E x (x ++ v).
Proof.
  intros H. assert (H0 : E [] (v ++ [])) by (apply ed_ins; [exact H|apply ed_nil]).
  rewrite app_nil_r in H0. rewrite <- (app_nil_r x) at 1. apply edit_app; [apply edit_refl|exact H0].
Qed.

Lemma edit_ins_at k x : ai -> E x (firstn k x ++ v ++ skipn k x).
Proof.
  intros H. rewrite <- (firstn_skipn k x) at 1. apply edit_app; [apply edit_refl|]. apply edit_ins_front. exact H.
Qed.

Lemma edit_repl_whole x : ar -> lt_gt x -> E x v.
Proof.
  intros H Hs. assert (H0 : E (x ++ []) (v ++ [])) by (apply ed_repl; [exact H|exact Hs|apply ed_nil]).
  rewrite !app_nil_r in H0. exact H0.
Qed.
End EditFacts.

Lemma edit_ins_of ar v a b : edit_of True ar v a b -> (ar -> False) -> ins_of v a b.
Proof.
  intros H Hn. induction H as [|x inp out _ IH|inp out _ _ IH|sp inp out Har _ _ _].
  - apply io_nil.
  - apply io_keep. exact IH.
  - apply io_ins. exact IH.
  - destruct (Hn Har).
Qed.

Lemma edit_repl_of ai v a b : edit_of ai True v a b -> (ai -> False) -> repl_of v a b.
Proof.
  intros H Hn. induction H as [|x inp out _ IH|inp out Hai _ _|sp inp out _ Hsp _ IH].
  - apply ro_nil.
  - apply ro_keep. exact IH.
  - destruct (Hn Hai).
  - apply ro_repl; assumption.
Qed.

Lemma edit_weaken (ai ar ai' ar' : Prop) v a b : (ai -> ai') -> (ar -> ar') -> edit_of ai ar v a b -> edit_of ai' ar' v a b.
Proof.
  intros H1 H2 H. induction H as [|x inp out _ IH|inp out Hai _ IH|sp inp out Har Hsp _ IH].
  - apply ed_nil.
  - apply ed_keep. exact IH.
  - apply ed_ins; auto.
  - apply ed_repl; auto.
Qed.

(* the relations say what they should: lengths, and the inverse reading "remove the values" *)
Lemma ins_of_refl v x : ins_of v x x.
Proof. induction x as [|a x IH]; [apply io_nil|apply io_keep; exact IH]. Qed.

Lemma ins_of_length v a b : ins_of v a b -> exists n, length b = length a + n * length v.
Proof.
  intros H. induction H as [|x inp out _ [n IH]|inp out _ [n IH]].
  - exists 0. reflexivity.
  - exists n. cbn [length]. lia.
  - exists (S n). rewrite app_length. lia.
Qed.

Lemma ins_of_nil_value a b : ins_of [] a b -> b = a.
Proof.
  intros H. induction H as [|x inp out _ IH|inp out _ IH]; [reflexivity|congruence|exact IH].
Qed.

(* ------------------------------------------------------------------------- the re-tokenising insertions *)
Section Insertions.
Variable lower : str -> str.
Hypothesis LO : lower_ok lower.

Definition inserted_at (content child d : list N) : Prop :=
  d = content \/ exists k, d = firstn k content ++ child ++ skipn k content.

Lemma sub0 (b : str) q : sub b 0 q = firstn q b.
Proof. unfold sub. rewrite Nat.sub_0_r. reflexivity. Qed.

Lemma sub_skipn_ge (b : str) i j : i <= j -> sub b i j ++ skipn j b = skipn i b.
Proof.
  intros Hij. unfold sub. replace (skipn j b) with (skipn (j - i) (skipn i b)).
  - apply firstn_skipn.
  - rewrite skipn_skipn'. f_equal. lia.
Qed.

Lemma out_raw content s2 p output :
  wf content s2 -> raw_start s2 = p -> output = sub content 0 p ->
  output ++ tk_raw content s2 = sub content 0 (raw_end s2).
Proof.
  intros W R ->. rewrite tk_raw_eq, R. pose proof (wf_start _ _ W). pose proof (wf_end _ _ W).
  apply sub_app; lia.
Qed.

Lemma next_step content s r s1 : wf0 content s -> tk_next lower content s = (r, s1) ->
  wf content s1 /\ raw_start s1 = raw_end s /\ data_ok content s1.
Proof.
  intros W En. unfold tk_next in En. destruct (next_spec lower content s r s1 LO W En) as (W1 & R1 & D1 & D2 & _).
  split; [exact W1|]. split; [exact R1|]. split; assumption.
Qed.

Lemma tag_name_step content s1 r s2 : wf content s1 -> data_ok content s1 -> tk_tag_name lower content s1 = (r, s2) ->
  wf content s2 /\ raw_start s2 = raw_start s1 /\ raw_end s2 = raw_end s1.
Proof.
  intros W D Et. unfold tk_tag_name in Et. destruct (tag_name_spec lower content s1 r s2 W D Et) as (W2 & R1 & R2 & _).
  auto.
Qed.

Lemma append_child_loop_ins content child : forall fuel s output level d,
  wf0 content s -> output = sub content 0 (raw_end s) ->
  append_child_loop lower fuel content child s output level = ROk d -> inserted_at content child d.
Proof.
  induction fuel as [|f IH]; intros s output level d W Ho H; cbn [append_child_loop] in H.
  - injection H as <-. left. reflexivity.
  - destruct (tk_next lower content s) as [[tk|] s1] eqn:En; [|discriminate].
    destruct (next_step content s _ s1 W En) as (W1 & R1 & D1).
    destruct (token_eqb tk ErrorToken); [injection H as <-; left; reflexivity|].
    assert (Tail : forall level1 s2, wf content s2 -> raw_start s2 = raw_end s ->
      (let level2 := if token_eqb tk EndTagToken then (level1 - 1)%Z else level1 in
       if token_eqb tk EndTagToken && Z.eqb level2 0 then
         match as_string (tk_raw content s2), as_string (tk_buffered content s2) with
         | ROk r, ROk b => ROk (output ++ child ++ r ++ b)
         | _, _ => RErr
         end
       else
         match as_string (tk_raw content s2) with
         | RErr => RErr
         | ROk r => append_child_loop lower f content child s2 (output ++ r) level2
         end) = ROk d -> inserted_at content child d).
    { intros level1 s2 W2 R2 HT. cbv zeta in HT.
      pose proof (wf_start _ _ W2) as Hs2. pose proof (wf_end _ _ W2) as He2.
      destruct (token_eqb tk EndTagToken && _).
      - destruct (as_string (tk_raw content s2)) as [r|] eqn:Er; [|discriminate].
        destruct (as_string (tk_buffered content s2)) as [b|] eqn:Eb; [|discriminate].
        injection HT as <-. apply as_string_ok in Er. apply as_string_ok in Eb. subst r b.
        right. exists (raw_end s). rewrite Ho, sub0. f_equal. f_equal.
        rewrite tk_raw_eq, tk_buffered_eq, R2. apply sub_skipn_ge. lia.
      - destruct (as_string (tk_raw content s2)) as [r|] eqn:Er; [|discriminate].
        apply as_string_ok in Er. subst r.
        eapply (IH s2); [exact (wf0_of _ _ W2)| |exact HT].
        apply (out_raw content s2 (raw_end s) output W2 R2 Ho). }
    destruct (token_eqb tk StartTagToken).
    + destruct (tk_tag_name lower content s1) as [[[name b]|] s2] eqn:Et; [|discriminate].
      destruct (tag_name_step content s1 _ s2 W1 D1 Et) as (W2 & R2 & R3).
      eapply (Tail _ s2 W2); [congruence|exact H].
    + eapply (Tail _ s1 W1 R1). exact H.
Qed.

Theorem append_child_ins content child d : append_child lower content child = ROk d -> inserted_at content child d.
Proof.
  unfold append_child. apply append_child_loop_ins.
  - apply new_fragment_wf0.
  - unfold new. rewrite new_fragment_raw_end. rewrite sub0. reflexivity.
Qed.

Lemma prepend_child_loop_ins content child : forall fuel s output d,
  wf0 content s -> output = sub content 0 (raw_end s) ->
  prepend_child_loop lower fuel content child s output = ROk d -> inserted_at content child d.
Proof.
  induction fuel as [|f IH]; intros s output d W Ho H; cbn [prepend_child_loop] in H.
  - injection H as <-. left. reflexivity.
  - destruct (tk_next lower content s) as [[tk|] s1] eqn:En; [|discriminate].
    destruct (next_step content s _ s1 W En) as (W1 & R1 & D1).
    pose proof (wf_start _ _ W1) as Hs1. pose proof (wf_end _ _ W1) as He1.
    destruct (token_eqb tk ErrorToken); [injection H as <-; left; reflexivity|].
    destruct (token_eqb tk StartTagToken).
    + destruct (as_string (tk_raw content s1)) as [r|] eqn:Er; [|discriminate].
      destruct (as_string (tk_buffered content s1)) as [b|] eqn:Eb; [|discriminate].
      injection H as <-. apply as_string_ok in Er. apply as_string_ok in Eb. subst r b.
      right. exists (raw_end s1). rewrite app_assoc. f_equal.
      rewrite (out_raw content s1 (raw_end s) output W1 R1 Ho). apply sub0.
    + destruct (as_string (tk_raw content s1)) as [r|] eqn:Er; [|discriminate].
      apply as_string_ok in Er. subst r.
      eapply (IH s1); [exact (wf0_of _ _ W1)| |exact H].
      apply (out_raw content s1 (raw_end s) output W1 R1 Ho).
Qed.

Theorem prepend_child_ins content child d : prepend_child lower content child = ROk d -> inserted_at content child d.
Proof.
  unfold prepend_child. apply prepend_child_loop_ins.
  - apply new_fragment_wf0.
  - unfold new. rewrite new_fragment_raw_end. rewrite sub0. reflexivity.
Qed.

Lemma inserted_at_edit (ai ar : Prop) content child d : ai -> inserted_at content child d -> edit_of ai ar child content d.
Proof.
  intros H [->|(k & ->)]; [apply edit_refl|apply edit_ins_at; exact H].
Qed.
End Insertions.
